(* C15TieBaseProofs.v — the C13 model of bits.EBSPReader (instance ER of C15Model: value/n/pos
   accumulator over the ESCAPED bytes, emulation prevention removed on the fly, 64-bit words,
   sticky error, NrBytesRead = position in the escaped stream) simulates the ideal bit-list reader
   BR (bit list of the unescaped bytes, no width limits, byte position recomputed by re-escaping the
   consumed prefix) operation by operation.

     raw        : the unescaped (RBSP + NAL header) bytes, all below 256
     escape raw : what both readers are started on
     zr 0 bits  : no run of more than 56 zero bits (an Exp-Golomb prefix of up to 56 zero bits is
                  read exactly by the 64-bit machine; beyond that Go's `1 << lz` / Read(lz) wrap)

   Sim st s b : either both readers carry the sticky error (st = true: and the machine has consumed
   the whole input, which is what the ideal reader reports then), or both are error free, the
   machine's pending bits ++ unescaped rest are the ideal reader's remaining bits, and the machine's
   byte position is the length of the escaped prefix that holds the consumed bits.
   No axioms. *)
From V.lib Require Import Base.
From V.c13 Require Import C13Spec C13Model C13Bits C13EscProofs C13ReaderProofs.
From V.c15 Require Import C15Model C15Spec C15BitProofs.

(* ------------------------------------------------------------------ vocabulary *)
Lemma bits_of_byte_from_eq k v : bits_of_byte_from k v = bits_of k v.
Proof. induction k as [|k IH]; cbn [bits_of_byte_from bits_of]; [reflexivity|now rewrite IH]. Qed.

Lemma bits_of_bytes_eq l : bits_of_bytes l = bytes_to_bits l.
Proof. unfold bits_of_bytes, bytes_to_bits. apply flat_map_ext. intros a. apply bits_of_byte_from_eq. Qed.

Lemma fold_bval l : forall a,
  fold_left (fun a b => 2 * a + b2n b) l a = a * 2 ^ N.of_nat (length l) + val_of l.
Proof.
  induction l as [|b t IH]; intros a.
  - cbn [fold_left length val_of]. change (N.of_nat 0) with 0. rewrite N.pow_0_r. lia.
  - cbn [fold_left length val_of]. rewrite IH, Nat2N.inj_succ, N.pow_succ_r'.
    destruct b; cbn [b2n N.b2n]; ring.
Qed.

Lemma bval_val_of l : bval l = val_of l.
Proof. unfold bval. rewrite fold_bval. lia. Qed.

(* ------------------------------------------------------------------ zero runs *)
(* zr c l: with c zero bits already seen, no run of zero bits in l grows beyond 56 *)
Fixpoint zr (c : N) (l : list bool) : bool :=
  match l with
  | [] => true
  | true :: t => zr 0 t
  | false :: t => (c <? 56) && zr (c + 1) t
  end.
Definition zrun_ok (raw : list N) : bool := zr 0 (bits_of_bytes raw).

Lemma zr_mono l : forall c c', c' <= c -> zr c l = true -> zr c' l = true.
Proof.
  induction l as [|b t IH]; intros c c' Hc H; [reflexivity|].
  destruct b; cbn [zr] in *; [exact H|].
  apply andb_true_iff in H. destruct H as [H1 H2]. apply andb_true_iff. split; [lia|].
  apply (IH (c + 1)); [lia|exact H2].
Qed.

Lemma zr_skipn n : forall l c, zr c l = true -> zr 0 (skipn n l) = true.
Proof.
  induction n as [|n IH]; intros l c H.
  - cbn [skipn]. apply (zr_mono l c); [lia|exact H].
  - destruct l as [|b t]; [reflexivity|]. cbn [skipn]. destruct b; cbn [zr] in H.
    + apply (IH t 0 H).
    + apply andb_true_iff in H. apply (IH t (c + 1)). apply H.
Qed.

Lemma zr_tail c b t : zr c (b :: t) = true -> zr 0 t = true.
Proof. intros H. apply (zr_skipn 1 (b :: t) c H). Qed.

Lemma zr_lz l : forall c k r, c <= 56 -> zr c l = true -> lz_count l = Some (k, r) -> c + k <= 56 /\ zr 0 r = true.
Proof.
  induction l as [|b t IH]; intros c k r Hc H E; [discriminate|].
  destruct b; cbn [lz_count zr] in *.
  - injection E as <- <-. split; [lia|exact H].
  - apply andb_true_iff in H. destruct H as [H1 H2].
    destruct (lz_count t) as [[k' r']|] eqn:E'; [|discriminate]. injection E as <- <-.
    destruct (IH (c + 1) k' r' ltac:(lia) H2 eq_refl) as [A B]. split; [lia|exact B].
Qed.

(* ------------------------------------------------------------------ the escaped stream by position *)
(* state of the emulation-prevention rule after l *)
Fixpoint zst (z : N) (l : list N) : N :=
  match l with
  | [] => z
  | b :: t => if (z =? 2) && (b <=? 3) then zst (if b =? 0 then 1 else 0) t
              else zst (if b =? 0 then z + 1 else 0) t
  end.

Lemma escape_from_app l1 : forall z l2,
  escape_from z (l1 ++ l2) = escape_from z l1 ++ escape_from (zst z l1) l2.
Proof.
  induction l1 as [|b t IH]; intros z l2; [reflexivity|].
  cbn [app escape_from zst]. destruct ((z =? 2) && (b <=? 3)); rewrite IH; reflexivity.
Qed.

Lemma zst_app l1 : forall z l2, zst z (l1 ++ l2) = zst (zst z l1) l2.
Proof.
  induction l1 as [|b t IH]; intros z l2; [reflexivity|].
  cbn [app zst]. destruct ((z =? 2) && (b <=? 3)); apply IH.
Qed.

Lemma zst_le2 l : forall z, z <= 2 -> zst z l <= 2.
Proof.
  induction l as [|b t IH]; intros z Hz; [exact Hz|]. cbn [zst].
  destruct ((z =? 2) && (b <=? 3)) eqn:E.
  - apply IH. destruct (b =? 0); lia.
  - apply IH. destruct (b =? 0) eqn:Eb; [|lia].
    apply andb_false_iff in E. destruct E as [E|E]; [lia|].
    apply N.eqb_eq in Eb. subst b. discriminate E.
Qed.

Lemma firstn_S_skipn {A} (k : nat) (l : list A) b t :
  skipn k l = b :: t -> firstn (S k) l = firstn k l ++ [b] /\ skipn (S k) l = t.
Proof.
  revert l. induction k as [|k IH]; intros l H.
  - cbn [skipn] in H. subst l. split; reflexivity.
  - destruct l as [|a l]; [discriminate|]. cbn [skipn] in H.
    destruct (IH l H) as [E1 E2]. split.
    + change (firstn (S (S k)) (a :: l)) with (a :: firstn (S k) l). rewrite E1. reflexivity.
    + exact E2.
Qed.

Lemma nth_error_app_len {A} (p q : list A) : nth_error (p ++ q) (length p) = nth_error q 0.
Proof. induction p as [|a p IH]; [reflexivity|exact IH]. Qed.

Lemma nth_error_app_len1 {A} (p q : list A) : nth_error (p ++ q) (S (length p)) = nth_error q 1.
Proof. induction p as [|a p IH]; [reflexivity|exact IH]. Qed.

Section Tie.
  Variable raw : list N.
  Hypothesis raw_ok : Forall lt256 raw.

  Lemma escape_from_lt256 l : forall z, Forall lt256 l -> Forall lt256 (escape_from z l).
  Proof.
    induction l as [|b t IH]; intros z H; [constructor|]. inversion H as [|? ? Hb Ht]; subst.
    cbn [escape_from]. destruct ((z =? 2) && (b <=? 3)).
    - constructor; [unfold lt256; lia|]. constructor; [exact Hb|]. apply IH. exact Ht.
    - constructor; [exact Hb|]. apply IH. exact Ht.
  Qed.

  Lemma data_ok : Forall lt256 (escape raw).
  Proof. apply escape_from_lt256. exact raw_ok. Qed.

  (* the machine has fetched k unescaped bytes *)
  Definition PInv (s : rstate) (k : nat) : Prop :=
    (k <= length raw)%nat /\ rpos s = lenN (escape (firstn k raw)) /\ rzc s = zst 0 (firstn k raw).

  Lemma escape_split k :
    escape raw = escape (firstn k raw) ++ escape_from (zst 0 (firstn k raw)) (skipn k raw).
  Proof. unfold escape. rewrite <- escape_from_app, firstn_skipn. reflexivity. Qed.

  Lemma PInv_rrest s k : rdata s = escape raw -> PInv s k -> rrest s = skipn k raw.
  Proof.
    intros Hd [Hk [Hp Hz]]. unfold rrest. rewrite Hd, (escape_split k), Hp. unfold lenN.
    rewrite Nat2N.id, skipn_len_app. rewrite Hz. apply unescape_escape_from.
    apply zst_le2. lia.
  Qed.

  Lemma skipn_nil_firstn k : (k <= length raw)%nat -> skipn k raw = [] -> firstn k raw = raw.
  Proof. intros _ H. rewrite <- (firstn_skipn k raw) at 2. rewrite H, app_nil_r. reflexivity. Qed.

  Lemma skipn_cons_lt k b t : skipn k raw = b :: t -> (S k <= length raw)%nat.
  Proof.
    intros H. destruct (Nat.le_gt_cases (S k) (length raw)) as [L|L]; [exact L|].
    rewrite skipn_all2 in H by lia. discriminate.
  Qed.

  (* the refill loop by position *)
  Lemma fill_pos fuel : forall s n k,
    rdata s = escape raw -> rerr s = false -> PInv s k ->
    let s1 := fill true fuel s n in
    rdata s1 = escape raw /\
    (if rerr s1 then rpos s1 = lenN (escape raw)
     else exists k', PInv s1 k' /\ 8 * N.of_nat k' + rn s = 8 * N.of_nat k + rn s1).
  Proof.
    induction fuel as [|f IH]; intros s n k Hd He HP; cbn [fill]; cbv zeta.
    - split; [exact Hd|]. rewrite He. exists k. split; [exact HP|lia].
    - destruct (rn s <? n).
      2:{ split; [exact Hd|]. rewrite He. exists k. split; [exact HP|lia]. }
      destruct HP as [Hk [Hp Hz]]. unfold byte_at.
      assert (Hpos : N.to_nat (rpos s) = length (escape (firstn k raw))) by (rewrite Hp; unfold lenN; lia).
      assert (Hn0 : nth_error (rdata s) (N.to_nat (rpos s))
                    = nth_error (escape_from (rzc s) (skipn k raw)) 0).
      { rewrite Hd, Hpos, Hz. rewrite (escape_split k) at 1. apply nth_error_app_len. }
      assert (Hn1 : nth_error (rdata s) (N.to_nat (rpos s + 1))
                    = nth_error (escape_from (rzc s) (skipn k raw)) 1).
      { replace (N.to_nat (rpos s + 1)) with (S (length (escape (firstn k raw)))) by lia.
        rewrite Hd, Hz. rewrite (escape_split k) at 1. apply nth_error_app_len1. }
      rewrite Hn0.
      destruct (skipn k raw) as [|b t] eqn:Esk.
      + cbn [escape_from nth_error]. cbn [rdata rerr rpos]. split; [exact Hd|].
        rewrite Hp, (skipn_nil_firstn k Hk Esk). reflexivity.
      + pose proof (skipn_cons_lt k b t Esk) as Hk1.
        destruct (firstn_S_skipn k raw b t Esk) as [Hf1 Hs1].
        cbn [escape_from] in *.
        destruct ((rzc s =? 2) && (b <=? 3)) eqn:Ec.
        * cbn [nth_error] in *. apply andb_true_iff in Ec. destruct Ec as [Ez Eb].
          rewrite Ez. cbn [andb]. change (3 =? 3) with true. cbv iota.
          rewrite Hn1.
          set (s2 := mkR (rn s + 8) (N.lor (u64 (N.shiftl (rv s) 8)) b) (rpos s + 1 + 1)
                         (if b =? 0 then 1 else 0) false (rdata s)).
          assert (HP2 : PInv s2 (S k)).
          { unfold PInv, s2. cbn [rpos rzc]. split; [exact Hk1|].
            rewrite Hf1. unfold escape. rewrite escape_from_app, zst_app. fold (escape (firstn k raw)).
            rewrite <- Hz. cbn [escape_from zst]. rewrite Ez, Eb. cbn [andb].
            split; [|reflexivity]. rewrite lenN_app, Hp, !lenN_cons, lenN_nil. lia. }
          destruct (IH s2 n (S k) Hd eq_refl HP2) as [Hd3 H3]. cbv zeta in H3.
          split; [exact Hd3|].
          destruct (rerr (fill true f s2 n)); [exact H3|].
          destruct H3 as [k' [HP' Hk']]. exists k'. split; [exact HP'|].
          change (rn s2) with (rn s + 8) in Hk'. lia.
        * cbn [nth_error] in *.
          assert (Ec2 : (rzc s =? 2) && (b =? 3) = false).
          { apply andb_false_iff in Ec. apply andb_false_iff. destruct Ec as [Ec|Ec]; [left; exact Ec|right; lia]. }
          cbn [andb]. rewrite Ec2.
          set (s2 := mkR (rn s + 8) (N.lor (u64 (N.shiftl (rv s) 8)) b) (rpos s + 1)
                         (if b =? 0 then rzc s + 1 else 0) false (rdata s)).
          assert (HP2 : PInv s2 (S k)).
          { unfold PInv, s2. cbn [rpos rzc]. split; [exact Hk1|].
            rewrite Hf1. unfold escape. rewrite escape_from_app, zst_app. fold (escape (firstn k raw)).
            rewrite <- Hz. cbn [escape_from zst]. rewrite Ec.
            split; [|reflexivity]. rewrite lenN_app, Hp, !lenN_cons, lenN_nil. lia. }
          destruct (IH s2 n (S k) Hd eq_refl HP2) as [Hd3 H3]. cbv zeta in H3.
          split; [exact Hd3|].
          destruct (rerr (fill true f s2 n)); [exact H3|].
          destruct H3 as [k' [HP' Hk']]. exists k'. split; [exact HP'|].
          change (rn s2) with (rn s + 8) in Hk'. lia.
  Qed.

  (* ------------------------------------------------------------------ the simulation relation *)
  Definition Good (s : rstate) (b : bstate) : Prop :=
    rerr s = false /\ berr b = false /\ RGood s /\ rbits s = bbits b /\ zr 0 (bbits b) = true
    /\ exists k, PInv s k /\ 8 * N.of_nat k = bpos b + rn s.

  Definition Sim (st : bool) (s : rstate) (b : bstate) : Prop :=
    braw b = raw /\ rdata s = escape raw /\
    ((rerr s = true /\ berr b = true /\ (st = true -> rpos s = lenN (escape raw))) \/ Good s b).

  Lemma Sim_weaken st s b : Sim st s b -> Sim false s b.
  Proof.
    intros [A [B [[C [D _]]|G]]]; (split; [exact A|split; [exact B|]]).
    - left. split; [exact C|split; [exact D|discriminate]].
    - right. exact G.
  Qed.

  Lemma Sim_err st s b : Sim st s b -> rerr s = berr b.
  Proof. intros [_ [_ [[C [D _]]|[C [D _]]]]]; congruence. Qed.

  Lemma read_fuel n : n <= 8 * N.of_nat (S (N.to_nat (n / 8) + 1)).
  Proof. pose proof (N.div_mod n 8 ltac:(lia)). pose proof (N.mod_lt n 8 ltac:(lia)). lia. Qed.

  (* Read(n), n <= 56 *)
  Lemma read_sim st s b n : n <= 56 -> Sim st s b ->
    fst (read s n) = fst (br_read b n) /\ Sim st (snd (read s n)) (snd (br_read b n)).
  Proof.
    intros Hn [Hraw [Hd [[He [Hb Hst]]|HG]]].
    - rewrite (read_after_error s n He). unfold br_read. rewrite Hb. cbn [fst snd].
      split; [reflexivity|]. split; [exact Hraw|split; [exact Hd|left; auto]].
    - destruct HG as [He [Hb [[HI Hn8] [Hbits [Hz [k [HP Hk]]]]]]].
      unfold br_read. rewrite Hb.
      pose proof (read_fuel n) as Hfu.
      destruct (fill_pos (S (N.to_nat (n / 8) + 1)) s n k Hd He HP) as [Hd1 Hpos]. cbv zeta in Hpos.
      destruct (N.leb_spec n (lenN (bbits b))) as [Hle|Hgt].
      + assert (Hlen : n <= N.of_nat (length (rbits s))) by (rewrite Hbits; exact Hle).
        pose proof (read_spec s n HI Hn8 Hn Hlen) as Hsp.
        pose proof (fill_ok (S (N.to_nat (n / 8) + 1)) s n HI Hn ltac:(lia) Hlen ltac:(lia)) as Hf.
        cbv zeta in Hf. destruct Hf as [[He1 _] [Hge _]].
        unfold read, read_gen in *. rewrite He in *.
        set (s1 := fill true (S (N.to_nat (n / 8) + 1)) s n) in *.
        rewrite He1 in *. destruct Hsp as [Hv [Hr [HI' [Hn' Hd']]]]. cbn [fst snd].
        split; [rewrite Hv, Hbits, bval_val_of; reflexivity|].
        split; [exact Hraw|]. split; [cbn [rdata]; exact Hd1|]. right.
        split; [reflexivity|]. split; [reflexivity|]. split; [split; assumption|].
        split; [cbn [bbits]; rewrite Hr, Hbits; reflexivity|].
        split; [cbn [bbits]; apply (zr_skipn _ _ 0 Hz)|].
        destruct Hpos as [k' [[Hk' [Hp' Hz']] Hkk]]. exists k'. split.
        * split; [exact Hk'|]. split; [exact Hp'|exact Hz'].
        * cbn [bpos rn]. lia.
      + assert (Hlen : N.of_nat (length (rbits s)) < n) by (rewrite Hbits; exact Hgt).
        pose proof (fill_fail (S (N.to_nat (n / 8) + 1)) s n HI Hn Hlen ltac:(lia)) as Hf.
        unfold read, read_gen. rewrite He.
        set (s1 := fill true (S (N.to_nat (n / 8) + 1)) s n) in *.
        rewrite Hf in *. cbn [fst snd]. split; [reflexivity|].
        split; [exact Hraw|]. split; [exact Hd1|]. left.
        split; [exact Hf|]. split; [reflexivity|]. intros _. exact Hpos.
  Qed.

  Lemma Sim_good st s b : Sim st s b -> berr b = false -> Good s b.
  Proof. intros [_ [_ [[_ [D _]]|G]]] H; [congruence|exact G]. Qed.

  Lemma Sim_bad st s b : Sim st s b -> berr b = true -> rerr s = true /\ (st = true -> rpos s = lenN (escape raw)).
  Proof. intros [_ [_ [[C [_ E]]|[_ [D _]]]]] H; [split; assumption|congruence]. Qed.

  Lemma Good_Sim st s b : braw b = raw -> rdata s = escape raw -> Good s b -> Sim st s b.
  Proof. intros A B G. split; [exact A|split; [exact B|right; exact G]]. Qed.

  Lemma Sim_raw st s b : Sim st s b -> braw b = raw.
  Proof. intros [A _]. exact A. Qed.
  Lemma Sim_data st s b : Sim st s b -> rdata s = escape raw.
  Proof. intros [_ [A _]]. exact A. Qed.

  (* ReadFlag *)
  Lemma flag_sim st s b : Sim st s b ->
    fst (read_flag s) = fst (br_flag b) /\ Sim st (snd (read_flag s)) (snd (br_flag b)).
  Proof.
    intros H. unfold read_flag, br_flag. pose proof (read_sim st s b 1 ltac:(lia) H) as [E S1].
    destruct (read s 1) as [v s1]. destruct (br_read b 1) as [v' b1]. cbn [fst snd] in *. subst v'.
    split; [reflexivity|exact S1].
  Qed.

  (* one bit read from a good state *)
  Lemma read1_good s b x t :
    Good s b -> braw b = raw -> rdata s = escape raw -> bbits b = x :: t ->
    fst (read s 1) = b2n x /\ Good (snd (read s 1)) (mkB raw t (bpos b + 1) false)
    /\ rdata (snd (read s 1)) = escape raw.
  Proof.
    intros G Hr Hd Hb. pose proof (read_sim true s b 1 ltac:(lia) (Good_Sim true s b Hr Hd G)) as [E S1].
    assert (Hbr : br_read b 1 = (b2n x, mkB raw t (bpos b + 1) false)).
    { unfold br_read. destruct G as [_ [Hbe _]]. rewrite Hbe, Hb, lenN_cons.
      replace (1 <=? 1 + lenN t) with true by lia. change (N.to_nat 1) with 1%nat.
      cbn [firstn skipn]. try rewrite Hr. reflexivity. }
    rewrite Hbr in *. cbn [fst snd] in *. split; [exact E|]. split.
    - apply (Sim_good true _ _ S1). reflexivity.
    - apply (Sim_data true _ _ S1).
  Qed.

  Lemma read1_eof s b :
    Good s b -> braw b = raw -> rdata s = escape raw -> bbits b = [] ->
    fst (read s 1) = 0 /\ rerr (snd (read s 1)) = true /\ rpos (snd (read s 1)) = lenN (escape raw)
    /\ rdata (snd (read s 1)) = escape raw /\ br_read b 1 = (0, bfail b).
  Proof.
    intros G Hr Hd Hb. pose proof (read_sim true s b 1 ltac:(lia) (Good_Sim true s b Hr Hd G)) as [E S1].
    assert (Hbr : br_read b 1 = (0, bfail b)).
    { unfold br_read. destruct G as [_ [Hbe _]]. rewrite Hbe, Hb. reflexivity. }
    rewrite Hbr in *. cbn [fst snd] in *. destruct (Sim_bad true _ _ S1 eq_refl) as [A B].
    split; [exact E|]. split; [exact A|]. split; [apply B; reflexivity|].
    split; [apply (Sim_data true _ _ S1)|reflexivity].
  Qed.

  (* the leading-zero loop of ReadExpGolomb *)
  Lemma lz_sim : forall fuel s b lz,
    Good s b -> braw b = raw -> rdata s = escape raw -> (length (bbits b) < fuel)%nat ->
    match lz_count (bbits b) with
    | None => exists lz' s1, lz_loop fuel s lz = Some (lz', s1) /\ rerr s1 = true
                             /\ rpos s1 = lenN (escape raw) /\ rdata s1 = escape raw
    | Some (k, r) => exists s1, lz_loop fuel s lz = Some (lz + k, s1)
                                /\ Good s1 (mkB raw r (bpos b + k + 1) false) /\ rdata s1 = escape raw
    end.
  Proof.
    induction fuel as [|f IH]; intros s b lz G Hr Hd Hf; [lia|]. cbn [lz_loop].
    destruct (bbits b) as [|x t] eqn:Hb.
    - destruct (read1_eof s b G Hr Hd Hb) as [E [A [B [C _]]]].
      destruct (read s 1) as [v s1]. cbn [fst snd] in *. rewrite A. cbn [lz_count].
      exists lz, s1. repeat split; assumption.
    - destruct (read1_good s b x t G Hr Hd Hb) as [E [G1 D1]].
      destruct (read s 1) as [v s1]. cbn [fst snd] in *. subst v.
      pose proof G1 as [He1 _]. rewrite He1.
      destruct x; cbn [b2n lz_count].
      + change (1 =? 1) with true. cbv iota. exists s1. rewrite !N.add_0_r.
        split; [reflexivity|]. split; [exact G1|exact D1].
      + change (0 =? 1) with false. cbv iota.
        specialize (IH s1 (mkB raw t (bpos b + 1) false) (lz + 1) G1 eq_refl D1
                       ltac:(cbn [bbits]; cbn [length] in Hf; lia)).
        cbn [bbits bpos] in IH.
        destruct (lz_count t) as [[k r]|].
        * destruct IH as [s2 [E2 [G2 D2]]]. exists s2.
          replace (lz + (k + 1)) with (lz + 1 + k) by lia.
          replace (bpos b + (k + 1) + 1) with (bpos b + 1 + k + 1) by lia.
          split; [exact E2|split; [exact G2|exact D2]].
        * exact IH.
  Qed.

  Lemma bval_lt l : bval l < 2 ^ N.of_nat (length l).
  Proof. rewrite bval_val_of. apply val_of_lt. Qed.

  Lemma ue_value k e : k <= 56 -> e < 2 ^ k ->
    u64 (u64 (N.shiftl 1 k + 18446744073709551615) + e) = 2 ^ k - 1 + e.
  Proof.
    intros Hk He. rewrite N.shiftl_1_l. unfold u64.
    assert (Hp : 2 ^ k <= 2 ^ 56) by (apply N.pow_le_mono_r; lia).
    assert (H0 : 0 < 2 ^ k) by apply pow2_pos.
    change (2 ^ 56) with 72057594037927936 in Hp.
    replace (2 ^ k + 18446744073709551615) with ((2 ^ k - 1) + 1 * 18446744073709551616) by lia.
    rewrite N.mod_add by lia. rewrite (N.mod_small (2 ^ k - 1)) by lia.
    rewrite N.mod_small by lia. reflexivity.
  Qed.

  (* ReadExpGolomb *)
  Lemma ue_sim st s b : Sim st s b ->
    fst (read_ue s) = fst (br_ue b) /\ Sim st (snd (read_ue s)) (snd (br_ue b)).
  Proof.
    intros H. pose proof H as [Hraw [Hd [[He [Hb Hst]]|HG]]].
    - unfold read_ue, br_ue. rewrite He, Hb. cbn [fst snd]. split; [reflexivity|exact H].
    - pose proof HG as [He [Hb [[HI Hn8] [Hbits [Hz _]]]]].
      unfold read_ue, br_ue. rewrite He, Hb.
      pose proof (rbits_length_le s Hn8) as Hl. rewrite Hbits in Hl.
      pose proof (lz_sim (S (8 * length (rdata s) + 8)) s b 0 HG Hraw Hd ltac:(lia)) as HL.
      destruct (lz_count (bbits b)) as [[k r]|] eqn:Elz.
      + destruct HL as [s1 [E1 [G1 D1]]]. rewrite E1. pose proof G1 as [He1 _]. rewrite He1.
        destruct (zr_lz _ 0 k r ltac:(lia) Hz Elz) as [Hk56 _].
        rewrite Hraw. rewrite N.add_0_l.
        pose proof (read_sim st s1 (mkB raw r (bpos b + k + 1) false) k ltac:(lia)
                      (Good_Sim st s1 (mkB raw r (bpos b + k + 1) false) eq_refl D1 G1)) as [E2 S2].
        assert (Hev : fst (br_read (mkB raw r (bpos b + k + 1) false) k) < 2 ^ k).
        { unfold br_read. cbn [berr bbits]. destruct (k <=? lenN r); cbn [fst]; [|apply pow2_pos].
          eapply N.lt_le_trans; [apply bval_lt|]. apply N.pow_le_mono_r; [lia|].
          rewrite firstn_length. lia. }
        destruct (read s1 k) as [e s2]. destruct (br_read (mkB raw r (bpos b + k + 1) false) k) as [e' b2].
        cbn [fst snd] in *. subst e'. rewrite (Sim_err _ _ _ S2).
        destruct (berr b2); cbn [fst snd]; (split; [|exact S2]); [reflexivity|].
        apply ue_value; assumption.
      + destruct HL as [lz' [s1 [E1 [A [B C]]]]]. rewrite E1, A. cbn [fst snd].
        split; [reflexivity|]. split; [exact Hraw|]. split; [exact C|]. left.
        split; [exact A|]. split; [reflexivity|]. intros _. exact B.
  Qed.

  (* ReadSignedGolomb *)
  Lemma se_sim st s b : Sim st s b ->
    fst (read_se s) = fst (br_se b) /\ Sim st (snd (read_se s)) (snd (br_se b)).
  Proof.
    intros H. unfold read_se, br_se. pose proof (ue_sim st s b H) as [E S1].
    destruct (read_ue s) as [v s1]. destruct (br_ue b) as [v' b1]. cbn [fst snd] in *. subst v'.
    rewrite (Sim_err _ _ _ S1). destruct (berr b1); [split; [reflexivity|exact S1]|].
    destruct (v mod 2 =? 1); (split; [reflexivity|exact S1]).
  Qed.

  (* SetError: only the weak relation survives (the ideal reader then reports the whole input as
     consumed, the machine keeps its position) *)
  Lemma seterr_sim st s b : Sim st s b ->
    Sim false (rset_err s true) (mkB (braw b) (bbits b) (bpos b) true).
  Proof.
    intros H. split; [cbn [braw]; apply (Sim_raw _ _ _ H)|]. split; [cbn [rset_err rdata]; apply (Sim_data _ _ _ H)|].
    left. split; [reflexivity|]. split; [reflexivity|discriminate].
  Qed.

  (* NrBytesRead *)
  Lemma nbytes_good s b : braw b = raw -> Good s b -> nr_bytes_read s = br_nbytes b.
  Proof.
    intros Hraw [He [Hb [[HI Hn8] [Hbits [Hz [k [[Hk [Hp Hzz]] Hk8]]]]]]].
    unfold nr_bytes_read, br_nbytes, nbytes_at. rewrite Hb, Hp, Hraw.
    replace (N.to_nat ((bpos b + 7) / 8)) with k; [reflexivity|].
    assert ((bpos b + 7) / 8 = N.of_nat k); [|lia].
    symmetry. apply (N.div_unique (bpos b + 7) 8 (N.of_nat k) (7 - rn s)); lia.
  Qed.

  Lemma nbytes_sim s b : Sim true s b -> nr_bytes_read s = br_nbytes b.
  Proof.
    intros H. pose proof H as [Hraw [Hd [[He [Hb Hst]]|HG]]].
    - unfold nr_bytes_read, br_nbytes. rewrite Hb, Hraw. apply Hst. reflexivity.
    - apply nbytes_good; assumption.
  Qed.

  (* NrBitsReadInCurrentByte *)
  Lemma bib_good s b : Good s b -> 8 - rn s = (if bpos b mod 8 =? 0 then 8 else bpos b mod 8).
  Proof.
    intros [He [Hb [[HI Hn8] [Hbits [Hz [k [_ Hk8]]]]]]].
    destruct (N.eqb_spec (bpos b mod 8) 0) as [E|E].
    - assert (rn s mod 8 = 0).
      { replace (rn s) with (8 * N.of_nat k - bpos b) by lia.
        pose proof (N.div_mod (bpos b) 8 ltac:(lia)) as Hdm. rewrite E in Hdm.
        replace (8 * N.of_nat k - bpos b) with ((N.of_nat k - bpos b / 8) * 8) by lia.
        apply N.mod_mul. lia. }
      rewrite N.mod_small in H by lia. lia.
    - pose proof (N.div_mod (bpos b) 8 ltac:(lia)) as Hdm.
      pose proof (N.mod_lt (bpos b) 8 ltac:(lia)) as Hlt.
      assert (Hq : N.of_nat k = bpos b / 8 + 1).
      { assert (8 * (bpos b / 8) < 8 * N.of_nat k) by lia.
        assert (8 * N.of_nat k < 8 * (bpos b / 8) + 16) by lia. lia. }
      lia.
  Qed.

  Lemma existsb_all_zero t : existsb (fun x => x) t = negb (all_zero t).
  Proof. unfold all_zero. induction t as [|x t IH]; [reflexivity|]. cbn [existsb forallb]. rewrite IH. destruct x; reflexivity. Qed.

  (* MoreRbspData *)
  Lemma more_sim st s b : Sim st s b ->
    fst (er_more s) = fst (br_more b) /\ Sim st (snd (er_more s)) (snd (br_more b)).
  Proof.
    intros H. pose proof H as [Hraw [Hd [[He [Hb Hst]]|HG]]].
    - unfold er_more, more_rbsp_data, br_more. rewrite He, Hb. cbn [fst snd]. split; [reflexivity|exact H].
    - pose proof HG as [He [Hb [[HI Hn8] [Hbits [Hz _]]]]].
      unfold er_more, more_rbsp_data, br_more. rewrite He, Hb.
      destruct (bbits b) as [|x t] eqn:Ebb.
      + destruct (read1_eof s b HG Hraw Hd Ebb) as [E [A [B [C _]]]].
        destruct (read s 1) as [v s1]. cbn [fst snd] in *. rewrite A. cbn [fst snd].
        split; [reflexivity|]. split; [exact Hraw|]. split; [exact C|]. left.
        split; [exact A|]. split; [reflexivity|]. intros _. exact B.
      + destruct (read1_good s b x t HG Hraw Hd Ebb) as [E [G1 D1]].
        destruct (read s 1) as [v s1]. cbn [fst snd] in *. subst v.
        pose proof G1 as [He1 [_ [HG1 [Hb1 _]]]]. rewrite He1. cbn [bbits] in Hb1.
        destruct x; cbn [b2n].
        * change (negb (1 =? 1)) with false. cbv iota.
          pose proof (rbits_length_le s Hn8) as Hl. rewrite Hbits in Hl. cbn [length] in Hl.
          rewrite (more_loop_spec t (S (8 * length (rdata s) + 8)) s1 HG1 Hb1 ltac:(lia)). cbn [fst snd].
          split; [apply existsb_all_zero|exact H].
        * change (negb (0 =? 1)) with true. cbv iota. cbn [fst snd]. split; [reflexivity|exact H].
  Qed.

  Lemma bytes_to_bits_nil l : bytes_to_bits l = [] -> l = [].
  Proof. destruct l as [|a l]; [reflexivity|]. intros H. apply (f_equal (@length bool)) in H. rewrite bytes_to_bits_length in H. cbn in H. lia. Qed.

  (* the state after the read that hits the end of the data *)
  Lemma read1_eof_state s b :
    Good s b -> rdata s = escape raw -> bbits b = [] ->
    read s 1 = (0, mkR 0 0 (rpos s) (rzc s) true (rdata s)) /\ rn s = 0 /\ rrest s = []
    /\ 8 * lenN raw = bpos b.
  Proof.
    intros [He [Hb [[HI Hn8] [Hbits [Hz [k [HP Hk8]]]]]]] Hd Ebb.
    rewrite Ebb in Hbits. unfold rbits in Hbits. apply app_eq_nil in Hbits. destruct Hbits as [H1 H2].
    assert (Hrn : rn s = 0).
    { apply (f_equal (@length bool)) in H1. rewrite bits_of_length in H1. cbn in H1. lia. }
    apply bytes_to_bits_nil in H2.
    destruct HI as [_ [Hv _]]. rewrite Hrn in Hv. change (2 ^ 0) with 1 in Hv.
    assert (Hrv : rv s = 0) by lia.
    pose proof (PInv_rrest s k Hd HP) as Hrr. rewrite H2 in Hrr. symmetry in Hrr.
    destruct HP as [Hk [Hp Hzz]].
    pose proof (skipn_nil_firstn k Hk Hrr) as Hfk.
    assert (Hkl : k = length raw).
    { apply (f_equal (@length N)) in Hfk. rewrite firstn_length in Hfk. lia. }
    split; [|split; [exact Hrn|split; [exact H2|unfold lenN; lia]]].
    unfold read, read_gen. rewrite He. change (S (N.to_nat (1 / 8) + 1)) with 2%nat. cbn [fill].
    rewrite Hrn. change (0 <? 1) with true. cbv iota. unfold byte_at.
    rewrite Hfk in Hp.
    assert (Hnone : nth_error (rdata s) (N.to_nat (rpos s)) = None).
    { apply nth_error_None. rewrite Hd, Hp. unfold lenN. lia. }
    rewrite Hnone. cbn [rerr]. rewrite Hrv. reflexivity.
  Qed.

  (* the zero-bit loop of ReadRbspTrailingBits *)
  Lemma trail_sim : forall t fuel s b,
    Good s b -> braw b = raw -> rdata s = escape raw -> bbits b = t -> (length t < fuel)%nat ->
    fst (trail_loop fuel s) = negb (all_zero t) /\
    (all_zero t = true -> Good (snd (trail_loop fuel s)) (mkB raw [] (8 * lenN raw) false)
                          /\ rdata (snd (trail_loop fuel s)) = escape raw).
  Proof.
    induction t as [|x t IH]; intros fuel s b G Hr Hd Hb Hf; (destruct fuel as [|f]; [cbn in Hf; lia|]); cbn [trail_loop].
    - destruct (read1_eof_state s b G Hd Hb) as [E [Hrn [Hrr Hpos]]]. rewrite E. cbn [rerr fst snd].
      split; [reflexivity|]. intros _. unfold rset_err. cbn [rn rv rpos rzc rdata]. split; [|exact Hd].
      destruct G as [He [Hbe [[[_ [_ HF]] _] [_ [_ [k [[Hk [Hp Hzz]] Hk8]]]]]]].
      split; [reflexivity|]. split; [reflexivity|]. split.
      { split; [|cbn [rn]; lia]. split; [reflexivity|]. split; [cbn [rv rn]; lia|exact HF]. }
      split.
      { unfold rbits, rrest. cbn [rn rv rpos rzc rdata bbits]. unfold rrest in Hrr. rewrite Hrr. reflexivity. }
      split; [reflexivity|]. exists k. split; [split; [exact Hk|split; assumption]|].
      cbn [bpos rn]. lia.
    - destruct (read1_good s b x t G Hr Hd Hb) as [E [G1 D1]].
      destruct (read s 1) as [v s1]. cbn [fst snd] in *. subst v.
      pose proof G1 as [He1 _]. rewrite He1.
      destruct x; cbn [b2n all_zero forallb negb andb].
      + change (1 =? 1) with true. cbv iota. cbn [fst]. split; [reflexivity|discriminate].
      + change (0 =? 1) with false. cbv iota.
        apply (IH f s1 (mkB raw t (bpos b + 1) false) G1 eq_refl D1 eq_refl). cbn [length] in Hf. lia.
  Qed.

  (* ReadRbspTrailingBits: the verdict agrees; when it is "no error" the states stay related *)
  Lemma trailing_sim st s b : Sim st s b ->
    fst (er_trailing s) = fst (br_trailing b) /\
    (fst (br_trailing b) = false -> Sim st (snd (er_trailing s)) (snd (br_trailing b))).
  Proof.
    intros H. pose proof H as [Hraw [Hd [[He [Hb Hst]]|HG]]].
    - unfold er_trailing, br_trailing. rewrite He, Hb. cbn [fst snd]. split; [reflexivity|intros _; exact H].
    - pose proof HG as [He [Hb [[HI Hn8] [Hbits [Hz _]]]]].
      unfold er_trailing, br_trailing. rewrite He, Hb.
      destruct (bbits b) as [|x t] eqn:Ebb.
      + destruct (read1_eof s b HG Hraw Hd Ebb) as [E [A [B [C _]]]].
        destruct (read s 1) as [v s1]. cbn [fst snd] in *. rewrite A. cbn [fst snd].
        split; [reflexivity|]. intros _. split; [exact Hraw|]. split; [exact C|]. left.
        split; [exact A|]. split; [reflexivity|]. intros _. exact B.
      + destruct (read1_good s b x t HG Hraw Hd Ebb) as [E [G1 D1]].
        destruct (read s 1) as [v s1]. cbn [fst snd] in *. subst v.
        pose proof G1 as [He1 _]. rewrite He1.
        destruct x; cbn [b2n].
        * change (negb (1 =? 1)) with false. cbv iota.
          pose proof (rbits_length_le s Hn8) as Hl. rewrite Hbits in Hl. cbn [length] in Hl.
          destruct (trail_sim t (S (8 * length (rdata s) + 8)) s1 (mkB raw t (bpos b + 1) false)
                      G1 eq_refl D1 eq_refl ltac:(lia)) as [T1 T2].
          rewrite T1. destruct (all_zero t); cbn [negb fst snd].
          -- split; [reflexivity|]. intros _. destruct (T2 eq_refl) as [G2 D2].
             rewrite Hraw. apply Good_Sim; [reflexivity|exact D2|exact G2].
          -- split; [reflexivity|discriminate].
        * change (negb (0 =? 1)) with true. cbv iota. cbn [fst snd]. split; [reflexivity|discriminate].
  Qed.

  (* both readers started on the escaped NAL unit *)
  Lemma Sim_init st : zrun_ok raw = true -> Sim st (rinit (escape raw)) (binit (escape raw)).
  Proof.
    intros Hz. unfold binit. rewrite unescape_escape. apply Good_Sim; [reflexivity|reflexivity|].
    split; [reflexivity|]. split; [reflexivity|]. split.
    { split; [apply RInv_init; apply data_ok|cbn [rinit rn]; lia]. }
    split. { rewrite rbits_init, unescape_escape. cbn [bbits]. symmetry. apply bits_of_bytes_eq. }
    split; [exact Hz|]. exists 0%nat. split.
    - split; [lia|]. split; reflexivity.
    - reflexivity.
  Qed.
End Tie.
