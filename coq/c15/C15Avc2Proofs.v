(* C15Avc2Proofs.v — avc.ParseSliceHeader, repaired text (C15Avc2Model.parse_slice_header2): the slice
   theorem WITHOUT the guard of finding F7 — slice-group map types 3..5 included — and the derivation
   lemma behind the repair: PicSizeInMapUnits is recomputed exactly from the fields the SPS keeps. *)
From V.lib Require Import Base.
From V.c13 Require Import C13Spec C13Model C13EscProofs.
From V.c15 Require Import C15Model C15Spec C15BitProofs C15AvcSpsProofs C15AvcVuiProofs C15AvcPpsProofs C15AvcSliceProofs
  C15HevcPpsProofs C15HevcSliceBaseProofs C15Avc2Model C15Avc2DimsProofs.

Lemma fmo_rate_ok c pp : pps_valid c pp = true -> sl_has_fmo_cycle pp = true ->
  slice_group_change_rate_minus1 pp < 4294967295.
Proof.
  intros Hv Hf. unfold sl_has_fmo_cycle in Hf. unfold pps_valid in Hv. split_all.
  match goal with H : (0 <? num_slice_groups_minus1 pp) = true |- _ => rewrite H in * end.
  split_all. unfold ue_ok in *. lia.
Qed.

Lemma ceil_div_eq s r : 0 < r -> s / r + (if s mod r =? 0 then 0 else 1) = (s + r - 1) / r.
Proof.
  intros Hr. pose proof (N.div_mod s r ltac:(lia)) as Hdm. pose proof (N.mod_lt s r ltac:(lia)) as Hm.
  destruct (N.eqb_spec (s mod r) 0) as [E|E].
  - rewrite N.add_0_r. apply (N.div_unique (s + r - 1) r (s / r) (r - 1)); lia.
  - apply (N.div_unique (s + r - 1) r (s / r + 1) (s mod r - 1)); lia.
Qed.

Lemma cycle_bits_le32 sp pp : pic_size_in_map_units sp < 4294967296 -> slice_group_change_cycle_bits sp pp <= 32.
Proof.
  intros Hs. unfold slice_group_change_cycle_bits, pic_size_in_map_units in *. cbv zeta.
  set (sz := (pic_width_in_mbs_minus1 sp + 1) * (pic_height_in_map_units_minus1 sp + 1)) in *.
  set (r := slice_group_change_rate_minus1 pp + 1).
  assert (Hq : (sz + r - 1) / r <= sz).
  { destruct (N.eq_dec sz 0) as [E|E].
    - rewrite E. rewrite N.div_small by (unfold r; lia). lia.
    - apply N.div_le_upper_bound; [unfold r; lia|]. unfold r. nia. }
  apply N.log2_up_le_pow2; [lia|]. change (2 ^ 32) with 4294967296. lia.
Qed.

(* the slice_group_change_cycle step of the repaired parser *)
Lemma sgcc_step raw sp pp v pos :
  pic_size_in_map_units sp < 4294967296 -> slice_group_change_rate_minus1 pp < 4294967295 ->
  slice_group_change_cycle v < 2 ^ slice_group_change_cycle_bits sp pp ->
  parses raw
    (if u64 (slice_group_change_rate_minus1 pp + 1) =? 0 then fail
     else rd BR (ceil_log2 (u64 (u64 (pic_size_in_map_units sp / u64 (slice_group_change_rate_minus1 pp + 1)
                                      + (if pic_size_in_map_units sp mod u64 (slice_group_change_rate_minus1 pp + 1) =? 0
                                         then 0 else 1)) + 1))))
    pos (u (slice_group_change_cycle_bits sp pp) (slice_group_change_cycle v)) (slice_group_change_cycle v).
Proof.
  intros Hs Hr Hc. set (r := slice_group_change_rate_minus1 pp + 1).
  rewrite (hu64_id r) by (unfold r; lia).
  replace (r =? 0) with false by (unfold r; lia).
  rewrite ceil_div_eq by (unfold r; lia).
  set (q := (pic_size_in_map_units sp + r - 1) / r).
  assert (Hq : q <= pic_size_in_map_units sp).
  { unfold q. destruct (N.eq_dec (pic_size_in_map_units sp) 0) as [E|E].
    - rewrite E. rewrite N.div_small by (unfold r; lia). lia.
    - apply N.div_le_upper_bound; [unfold r; lia|]. unfold r. nia. }
  rewrite (hu64_id q), (hu64_id (q + 1)) by lia.
  rewrite ceil_log2_eq by (change (2 ^ 32) with 4294967296; lia).
  unfold slice_group_change_cycle_bits, pic_size_in_map_units in *. fold r. fold q.
  apply parses_rd. exact Hc.
Qed.

Lemma parses_slice_header2 s p c spsmap ppsmap sp pp v :
  sps_valid sp = true -> pps_valid c pp = true -> slice_valid sp pp v = true ->
  pic_size_in_map_units sp < 4294967296 ->
  nbytes_at (raw_slice sp pp v) (8 + lenN (ser_slice_header sp pp v)) < 4294967296 ->
  sps_view s sp -> pps_view p pp ->
  sps_pic_size_in_map_units s = pic_size_in_map_units sp ->
  (sl_has_fmo_cycle pp = true -> pps_slice_group_change_rate_minus1 p = slice_group_change_rate_minus1 pp) ->
  ppsmap (sl_pic_parameter_set_id v) = Some p -> spsmap (pps_seq_parameter_set_id pp) = Some s ->
  parses (raw_slice sp pp v) (parse_slice_header2 BR spsmap ppsmap) 0
    (u 8 (32 * sl_nal_ref_idc v + sl_nal_unit_type v) ++ ser_slice_header sp pp v)
    (expected_slice sp pp v).
Proof.
  intros Hsv Hpv Hv Hps Hsz Vs Vp Vsz Vr Hpm Hsm.
  pose proof (fmo_rate_ok c pp Hpv) as Hrate.
  destruct Vs as (S1 & S2 & S3 & S4 & S5 & S6 & S7).
  destruct Vp as (P1 & P2 & P3 & P4 & P5 & P6 & P7 & P8 & P9 & P10).
  assert (Hpp : pic_parameter_set_id pp <= 255 /\ num_ref_idx_l0_default_active_minus1 pp <= 31
                /\ num_ref_idx_l1_default_active_minus1 pp <= 31)
    by (unfold pps_valid in Hpv; split_all; lia).
  assert (Hsp : log2_max_frame_num_minus4 sp <= 12 /\ log2_max_pic_order_cnt_lsb_minus4 sp <= 12)
    by (unfold sps_valid in Hsv; split_all; lia).
  destruct Hpp as (Hppid & Hd0 & Hd1). destruct Hsp as (Hfn & Hpoc).
  unfold slice_valid in Hv. split_all. unfold ue_ok in *.
  assert (Hr : sl_nal_ref_idc v < 4) by lia.
  assert (Ht : sl_nal_unit_type v = 1 \/ sl_nal_unit_type v = 5) by lia.
  destruct (nal_header_u8 (sl_nal_ref_idc v) (sl_nal_unit_type v) Hr) as (_ & Hland & Hlt & Hshr); [lia|].
  assert (Hchk : negb ((sl_nal_unit_type v =? 1) || (sl_nal_unit_type v =? 2) || (sl_nal_unit_type v =? 5)
                       || (sl_nal_unit_type v =? 19)) = false)
    by (destruct Ht as [-> | ->]; reflexivity).
  set (raw := raw_slice sp pp v) in *.
  unfold parse_slice_header2.
  pbind ltac:(apply parses_rd; exact Hlt).
  rewrite Hland, Hshr, Hchk. cbv iota.
  unfold ser_slice_header.
  pbind ltac:(apply parses_ue). pbind ltac:(apply parses_ue). pbind ltac:(apply parses_ue).
  rewrite (u32_id (sl_pic_parameter_set_id v)) by lia.
  rewrite Hpm. cbv beta iota. rewrite P1, Hsm. cbv beta iota.
  unfold sps_chroma_array_type.
  rewrite ?S1, ?S2, ?S3, ?S4, ?S5, ?S6, ?S7, ?P2, ?P3, ?P4, ?P5, ?P6, ?P7, ?P8, ?P9, ?P10.
  cbv iota.
  fold (chroma_array_type sp). fold (sl_cat_nonzero sp).
  unfold expected_slice. cbv zeta beta.
  unfold eff_l0, eff_l1, sl_override, rplm_all, last_mmco, mmco_run in *.
  unfold sl_separate_colour_plane, idr_pic, sl_poc0, sl_poc1, sl_bottom_delta, sl_field_pic, sl_has_ref_idx,
    sl_has_pwt, is_P, is_B, is_I, is_SP, is_SI, sl_type5 in *.
  set (tP := slice_type v mod 5 =? 0) in *. set (tB := slice_type v mod 5 =? 1) in *.
  set (tI := slice_type v mod 5 =? 2) in *. set (tSP := slice_type v mod 5 =? 3) in *.
  set (tSI := slice_type v mod 5 =? 4) in *.
  pbind ltac:(apply parses_opt; intros _; apply parses_rd; lia).
  pbind ltac:(apply parses_rd; lia).
  pbind ltac:(apply parses_fld).
  pbind ltac:(apply parses_opt; intros _; apply parses_ue).
  rewrite (app_assoc (opt_bits (pic_order_cnt_type sp =? 0) _)).
  pbind ltac:(apply parses_poc; lia).
  pbind ltac:(apply parses_opt; intros _; apply parses_ue).
  pbind ltac:(apply parses_opt; intros _; apply parses_flag).
  pbind ltac:(apply parses_nri; lia).
  pbind ltac:(apply parses_rplm_block; [assumption | lia]).
  pbind ltac:(apply parses_rplm_block; [assumption | lia]).
  pbind ltac:(apply parses_pwt_block; [assumption | assumption | ]).
  { intros Hhp.
    match goal with H : (if _ then _ else true) = true |- _ =>
      rewrite Hhp in H; apply andb_prop in H; destruct H as [Hw0 Hw1] end.
    assert (Hhas : tP || tSP || tB = true) by (apply (has_pwt_has_ref _ _ _ _ _ Hhp)).
    rewrite Hhas in *. cbn [andb] in *.
    split; [lia|]. split; [destruct (num_ref_idx_active_override_flag v); lia|].
    intros HtB. rewrite HtB in *.
    split; [lia | destruct (num_ref_idx_active_override_flag v); lia]. }
  pbind ltac:(apply parses_marking; [assumption | lia]).
  pbind ltac:(apply parses_opt; intros _; apply parses_ue).
  pbind ltac:(apply parses_se).
  pbind ltac:(apply parses_qs).
  pbind ltac:(apply parses_db; lia).
  plast ltac:(apply (parses_opt' raw _ (sl_has_fmo_cycle pp) _
                       (if sl_has_fmo_cycle pp then slice_group_change_cycle v else 0) 0);
              [intros Hf; rewrite Hf; cbv zeta; rewrite Vsz, (Vr Hf); apply sgcc_step; [exact Hps | apply Hrate; exact Hf | lia]
              |intros Hf; rewrite Hf; reflexivity]).
  eapply parses_bind_peek; [apply parses_get_nbytes|]. cbv beta.
  apply parses_ret_eq.
  assert (Hcyc : slice_group_change_cycle v < 4294967296).
  { pose proof (cycle_bits_le32 sp pp Hps) as Hb.
    assert (2 ^ slice_group_change_cycle_bits sp pp <= 2 ^ 32) by (apply N.pow_le_mono_r; lia).
    change (2 ^ 32) with 4294967296 in *. lia. }
  pose proof (pow_le_16 _ Hfn) as Hp1. pose proof (pow_le_16 _ Hpoc) as Hp2.
  rewrite (u32_id (first_mb_in_slice v)) by lia.
  rewrite (u32_id (frame_num v)) by lia.
  rewrite !u32_n by lia.
  rewrite !i32_zz by assumption.
  rewrite (i32_id (slice_qp_delta v)) by assumption.
  change (u32 0) with 0.
  rewrite if_false_and, if3_or, !last_rplm_app.
  unfold last_mm. cbv beta.
  match goal with |- context [u32 (nbytes_at ?r ?e)] =>
    replace e with (8 + lenN (ser_slice_header sp pp v)) end.
  - rewrite (u32_id _ Hsz). subst raw. reflexivity.
  - subst tP tB tI tSP tSI.
    unfold ser_slice_header, sl_separate_colour_plane, idr_pic, sl_poc0, sl_poc1, sl_bottom_delta, sl_field_pic,
      sl_has_ref_idx, sl_has_pwt, is_P, is_B, is_I, is_SP, is_SI, sl_type5.
    rewrite !lenN_app. rewrite ?lenN_u. lia.
Qed.


(* ------------------------------------------------------------------ the header fits in 2^32 bytes (no guard) *)
Ltac len_bound2 :=
  lazymatch goal with
  | |- lenN (opt_bits (sl_has_fmo_cycle _) _) <= _ =>
      match goal with H : lenN (opt_bits (sl_has_fmo_cycle _) _) <= _ |- _ => apply H end
  | |- lenN (flat_map ser_mmco _ ++ ue_bits 0) <= _ => apply len_mmco_le; [assumption | lia]
  | |- lenN (opt_bits (sl_has_pwt _ _) _) <= _ =>
      match goal with H : lenN (opt_bits (sl_has_pwt _ _) _) <= _ |- _ => apply H end
  | |- lenN (_ ++ _) <= _ => eapply len_app_le; [len_bound2 | len_bound2]
  | |- lenN (opt_bits _ _) <= _ => apply len_opt_le; intros ?; len_bound2
  | |- lenN (if _ then _ else _) <= _ => eapply len_if_le; [len_bound2 | len_bound2]
  | |- lenN (ue_bits _) <= _ => apply len_ue_le; lia
  | |- lenN (se_bits _) <= _ => apply len_se_le; assumption
  | |- lenN (fl _) <= _ => rewrite lenN_fl; apply N.le_refl
  | |- lenN (u _ _) <= _ => apply (len_u_le _ _ 16); lia
  | |- lenN (ser_rplm _ _) <= _ => apply len_rplm_le; [assumption | lia]
  end.

Lemma slice_header_len2 sp pp v c :
  sps_valid sp = true -> pps_valid c pp = true -> slice_valid sp pp v = true ->
  pic_size_in_map_units sp < 4294967296 ->
  lenN (ser_slice_header sp pp v) <= 1000000.
Proof.
  intros Hsv Hpv Hv Hps.
  assert (Hcyc : lenN (opt_bits (sl_has_fmo_cycle pp)
                   (u (slice_group_change_cycle_bits sp pp) (slice_group_change_cycle v))) <= 32).
  { apply len_opt_le. intros _. rewrite lenN_u. apply cycle_bits_le32. exact Hps. }
  assert (Hpp : pic_parameter_set_id pp <= 255 /\ num_ref_idx_l0_default_active_minus1 pp <= 31
                /\ num_ref_idx_l1_default_active_minus1 pp <= 31)
    by (unfold pps_valid in Hpv; split_all; lia).
  assert (Hsp : log2_max_frame_num_minus4 sp <= 12 /\ log2_max_pic_order_cnt_lsb_minus4 sp <= 12)
    by (unfold sps_valid in Hsv; split_all; lia).
  destruct Hpp as (Hppid & Hd0 & Hd1). destruct Hsp as (Hfn & Hpoc).
  unfold slice_valid in Hv. split_all. unfold ue_ok in *.
  assert (He0 : eff_l0 pp v <= 31) by (unfold eff_l0; destruct (sl_override v); lia).
  assert (He1 : eff_l1 pp v <= 31) by (unfold eff_l1; destruct (sl_override v), (is_B v); lia).
  assert (Hpwt : lenN (opt_bits (sl_has_pwt pp v)
                   (ue_bits (luma_log2_weight_denom v)
                    ++ opt_bits (sl_cat_nonzero sp) (ue_bits (chroma_log2_weight_denom v))
                    ++ flat_map (ser_pwt_entry sp) (pwt_l0 v)
                    ++ opt_bits (is_B v) (flat_map (ser_pwt_entry sp) (pwt_l1 v)))) <= 63 + (63 + (12800 + 12800))).
  { apply len_opt_le. intros Hc.
    match goal with H : (if sl_has_pwt pp v then _ else true) = true |- _ =>
      rewrite Hc in H; apply andb_prop in H; destruct H as [Hw0 Hw1] end.
    apply len_app_le; [apply len_ue_le; lia|].
    apply len_app_le; [apply len_opt_le; intros _; apply len_ue_le; lia|].
    apply len_app_le.
    - apply (len_pwt_list_le sp _ (eff_l0 pp v)); [assumption | lia | lia].
    - apply len_opt_le. intros HB. rewrite HB in Hw1.
      apply (len_pwt_list_le sp _ (eff_l1 pp v)); [assumption | lia | lia]. }
  unfold ser_slice_header.
  eapply N.le_trans.
  - len_bound2.
  - lia.
Qed.


Lemma slice_size_fits2 sp pp v c :
  sps_valid sp = true -> pps_valid c pp = true -> slice_valid sp pp v = true ->
  pic_size_in_map_units sp < 4294967296 ->
  nbytes_at (raw_slice sp pp v) (8 + lenN (ser_slice_header sp pp v)) < 4294967296.
Proof.
  intros Hsv Hpv Hv Hps.
  pose proof (slice_header_len2 sp pp v c Hsv Hpv Hv Hps) as Hl.
  pose proof (nbytes_at_le (raw_slice sp pp v) (8 + lenN (ser_slice_header sp pp v))) as Hn.
  lia.
Qed.

Lemma pps_rate_expected pp : sl_has_fmo_cycle pp = true ->
  pps_slice_group_change_rate_minus1 (expected_pps pp) = slice_group_change_rate_minus1 pp.
Proof.
  unfold sl_has_fmo_cycle, expected_pps. cbn [pps_slice_group_change_rate_minus1]. intros H.
  apply andb_true_iff in H. destruct H as [H H5]. apply andb_true_iff in H. destruct H as [H0 H3].
  rewrite H0. cbn [andb].
  replace ((slice_group_map_type pp =? 3) || (slice_group_map_type pp =? 4) || (slice_group_map_type pp =? 5)) with true by lia.
  reflexivity.
Qed.

(* the NAL unit, every valid slice incl. slice-group map types 3..5 *)
Lemma avc_slice2 spsmap ppsmap sp pp v beyond cm s p :
  sps_valid sp = true -> pps_valid (eff_chroma_format_idc sp) pp = true -> slice_valid sp pp v = true ->
  pic_size_in_map_units sp < 4294967296 ->
  (pps_has_tail pp && pic_scaling_matrix_present_flag pp = true ->
   cm (pps_seq_parameter_set_id pp) = Some (eff_chroma_format_idc sp)) ->
  parse_sps_br beyond (nalu_sps sp) = Ok s -> parse_pps_br cm (nalu_pps pp) = Ok p ->
  ppsmap (sl_pic_parameter_set_id v) = Some p -> spsmap (pps_seq_parameter_set_id pp) = Some s ->
  parse_slice2_br spsmap ppsmap (nalu_slice sp pp v) = Ok (expected_slice sp pp v).
Proof.
  intros Hsv Hpv Hv Hps Hcm Hs Hp Hpm Hsm.
  rewrite (avc_sps_go sp beyond Hsv) in Hs. injection Hs as <-.
  rewrite (avc_pps _ cm pp Hpv Hcm) in Hp. injection Hp as <-.
  assert (Hr : sl_nal_ref_idc v < 4) by (unfold slice_valid in Hv; split_all; lia).
  assert (Ht : sl_nal_unit_type v = 1 \/ sl_nal_unit_type v = 5) by (unfold slice_valid in Hv; split_all; lia).
  destruct (nal_header_u8 (sl_nal_ref_idc v) (sl_nal_unit_type v) Hr) as (Hh & _); [lia|].
  pose proof (parses_slice_header2 _ _ _ spsmap ppsmap sp pp v Hsv Hpv Hv Hps
                (slice_size_fits2 sp pp v _ Hsv Hpv Hv Hps)
                (sps_view_expected _ _ _ _ sp) (pps_view_expected pp)
                (pic_size_expected _ _ _ _ sp Hsv) (pps_rate_expected pp) Hpm Hsm) as Hparse.
  unfold parse_slice2_br, run, nalu_slice. rewrite binit_nalu. fold (raw_slice sp pp v).
  rewrite Hh. rewrite <- app_assoc. rewrite app_assoc.
  rewrite Hparse. reflexivity.
Qed.

(* the derivation behind the repair, for the SPS the parser returns *)
Lemma avc_pic_size_derivable sp beyond s :
  sps_valid sp = true -> parse_sps_br beyond (nalu_sps sp) = Ok s ->
  sps_pic_size_in_map_units s = (pic_width_in_mbs_minus1 sp + 1) * (pic_height_in_map_units_minus1 sp + 1).
Proof.
  intros Hv Hs. rewrite (avc_sps_go sp beyond Hv) in Hs. injection Hs as <-. apply pic_size_expected. exact Hv.
Qed.
