(* C15Hevc2Model.v — second part of the HEVC PPS model: hevc.ParsePPSNALUnit WITH the multilayer
   extension (parseMultilayerExtension: reference location offsets, parseColourMappingTable,
   parseColourMappingOctants) and the 3D extension (parse3dExtension, parseDeltaDlt) of hevc/pps.go,
   which C15HevcModel.hparse_pps leaves out (OutOfFuel).  hparse_pps2 is the text of hparse_pps with the
   two branches filled in; everything else is shared with C15HevcModel.  DEFINITIONS ONLY.
   Repaired text (fix commit, see known_findings/C15.json F12): the octant maps of all eight children
   of a split octant are kept (the pinned text kept the last child's map only). *)
From V.lib Require Import Base.
From V.c13 Require Import C13Spec C13Model.
From V.c15 Require Import C15Model C15HevcModel.

Local Notation "x <- m ;; k" := (bind m (fun x => k))
  (at level 61, m at next level, right associativity).

(* ---- parsed structures *)
Record hrefloc := mkHRefLoc {
  rl_layer_id : N;
  rl_scaled_present : bool; rl_scaled_left : Z; rl_scaled_top : Z; rl_scaled_right : Z; rl_scaled_bottom : Z;
  rl_region_present : bool; rl_region_left : Z; rl_region_top : Z; rl_region_right : Z; rl_region_bottom : Z;
  rl_phase_present : bool; rl_phase_hor_luma : N; rl_phase_ver_luma : N;
  rl_phase_hor_chroma_plus8 : N; rl_phase_ver_chroma_plus8 : N }.

Record hcoef := mkHCoef { cf_q : N; cf_r : N; cf_s : bool }.
(* one entry of Octants: key (idxShiftY, idxCb, idxCr), the four vertices: coded_res_flag + 3 coefficients *)
Definition hoctant := ((N * N * N) * list (bool * list hcoef))%type.

Record hcm := mkHCm {
  cm_num_ref_layers_minus1 : N; cm_ref_layer_ids : list N; cm_octant_depth : N; cm_y_part_num_log2 : N;
  cm_luma_in : N; cm_chroma_in : N; cm_luma_out : N; cm_chroma_out : N;
  cm_res_quant_bits : N; cm_delta_flc_bits_minus1 : N; cm_thr_u : Z; cm_thr_v : Z;
  cm_octants : list hoctant }.

Record hppsml := mkHPpsMl {
  ml_poc_reset_info_present : bool; ml_infer_scaling_list : bool; ml_scaling_list_ref_layer_id : N;
  ml_num_ref_loc_offsets : N; ml_ref_loc : list hrefloc;
  ml_cm_enabled : bool; ml_cm : option hcm }.

Record hdeltadlt := mkHDeltaDlt { dd_num : N; dd_max_diff : N; dd_min_diff_minus1 : N; dd_val0 : N; dd_diffs : list N }.
Record hdlayer := mkHDLayer {
  dl_flag : bool; dl_pred : bool; dl_val_flags_present : bool; dl_value_flags : list bool;
  dl_delta : option hdeltadlt }.
Record hpps3d := mkHPps3d { d3_dlts_present : bool; d3_num_layers_minus1 : N; d3_bit_depth_minus8 : N;
                            d3_layers : list hdlayer }.

Record hpps2 := mkHPps2 { p2_base : hpps; p2_ml : option hppsml; p2_3d : option hpps3d }.

(* Go conversions *)
Definition i16 (z : Z) : Z := ((z + 32768) mod 65536 - 32768)%Z.
Definition i64 (z : Z) : Z := ((z + 9223372036854775808) mod 18446744073709551616 - 9223372036854775808)%Z.

(* the (k, m, n) loops of parseColourMappingOctants *)
Definition oct_children : list (N * N * N) :=
  [(0,0,0); (0,0,1); (0,1,0); (0,1,1); (1,0,0); (1,0,1); (1,1,0); (1,1,1)].

Section HParsers3.
  Context {St : Type} (R : reader St).
  Local Notation M := (@M St).

  (* ---- one RefLocOffset of parseMultilayerExtension *)
  Definition hparse_se4 (c : bool) : M (Z * Z * Z * Z) :=
    if c then a <- rd_se R ;; b <- rd_se R ;; c0 <- rd_se R ;; d <- rd_se R ;; ret (i16 a, i16 b, i16 c0, i16 d)
    else ret (0%Z, 0%Z, 0%Z, 0%Z).

  Definition hparse_refloc : M hrefloc :=
    id <- rd R 6 ;;
    sf <- rd_flag R ;;
    so <- hparse_se4 sf ;;
    rf <- rd_flag R ;;
    ro <- hparse_se4 rf ;;
    pf <- rd_flag R ;;
    ph <- (if pf then a <- rd_ue R ;; b <- rd_ue R ;; c <- rd_ue R ;; d <- rd_ue R ;; ret (u8 a, u8 b, u8 c, u8 d)
           else ret (0, 0, 0, 0)) ;;
    let '(sl, st, sr, sb) := so in
    let '(rl, rt, rr, rb) := ro in
    let '(p1, p2, p3, p4) := ph in
    ret (mkHRefLoc (u8 id) sf sl st sr sb rf rl rt rr rb pf p1 p2 p3 p4).

  (* ---- the leaf of parseColourMappingOctants: one vertex, then the i loop over partNumY *)
  Definition hparse_coef (res_bits : N) : M hcoef :=
    q <- rd_ue R ;;
    r <- rd R res_bits ;;
    s <- (if negb (q =? 0) || negb (r =? 0) then rd_flag R else ret false) ;;
    ret (mkHCoef q r s).

  Definition hparse_vertex (res_bits : N) : M (bool * list hcoef) :=
    f <- rd_flag R ;;
    if f then cs <- rep 3 (hparse_coef res_bits) ;; ret (true, cs)
    else ret (false, [mkHCoef 0 0 false; mkHCoef 0 0 false; mkHCoef 0 0 false]).

  Fixpoint hparse_leaf (cnt : nat) (i : N) (shift : N) (res_bits idxY idxCb idxCr : N) : M (list hoctant) :=
    match cnt with
    | O => ret []
    | S c =>
        vs <- rep 4 (hparse_vertex res_bits) ;;
        t <- hparse_leaf c (i + 1) shift res_bits idxY idxCb idxCr ;;
        ret ((idxY + N.shiftl i shift, idxCb, idxCr, vs) :: t)
    end.

  (* parseColourMappingOctants; fuel = octantDepth - inpDepth + 1 (the depth is a 2-bit value).  The index
     arithmetic is Go uint arithmetic on values derived from 2-bit fields (depth <= 3, partNumY <= 8,
     inpLength <= 8): all indices stay below 2^7, no wrap, written without mod 2^64 *)
  Fixpoint hparse_octants (fuel : nat) (depth part_num_y res_bits inp_depth idxY idxCb idxCr inp_len : N)
    : M (list hoctant) :=
    match fuel with
    | O => out_of_fuel
    | S f =>
        split <- (if inp_depth <? depth then rd_flag R else ret false) ;;
        octs <- (if split then
                   l <- mapM (St:=St)
                          (fun kmn => let '(k, m, n) := kmn in
                             hparse_octants f depth part_num_y res_bits (inp_depth + 1)
                               (idxY + part_num_y * k * inp_len / 2)
                               (idxCb + m * inp_len / 2) (idxCr + n * inp_len / 2)
                               (inp_len / 2))
                          oct_children ;;
                   ret (concat l)
                 else hparse_leaf (N.to_nat part_num_y) 0 (depth - inp_depth) res_bits idxY idxCb idxCr) ;;
        e <- get_err R ;;
        if e then fail else ret octs
    end.

  (* ---- parseColourMappingTable *)
  Definition hparse_cm : M hcm :=
    n0 <- rd_ue R ;;
    let n := u8 n0 in
    ids <- rep_until_err R (N.to_nat (n + 1)) (x <- rd R 6 ;; ret (u8 x)) ;;
    od <- rd R 2 ;;
    yp <- rd R 2 ;;
    li <- rd_ue R ;; ci <- rd_ue R ;; lo <- rd_ue R ;; co <- rd_ue R ;;
    rq <- rd R 2 ;;
    df <- rd R 2 ;;
    thr <- (if u8 od =? 1 then a <- rd_se R ;; b <- rd_se R ;; ret (a, b) else ret (0%Z, 0%Z)) ;;
    (* resLsBits := 10 + int(in+8) - int(out+8) - int(rq) - int(dflc+1), clamped at 0 (Go int: 64 bit) *)
    let res := i64 (10 + i64 (Z.of_N (u64 (li + 8))) - i64 (Z.of_N (u64 (lo + 8)))
                    - Z.of_N (u8 rq) - Z.of_N (u8 (u8 df + 1)))%Z in
    let res_bits := if (res <? 0)%Z then 0 else Z.to_N res in
    if 56 <? res_bits then out_of_fuel else            (* Read of more than 56 bits (outside the exact range of the accumulator): not modelled *)
    octs <- hparse_octants 5 (u8 od) (2 ^ u8 yp) res_bits 0 0 0 0 (2 ^ u8 od) ;;
    e <- get_err R ;;
    if e then fail else
    ret (mkHCm n ids (u8 od) (u8 yp) li ci lo co (u8 rq) (u8 df) (fst thr) (snd thr) octs).

  (* ---- parseMultilayerExtension *)
  Definition hparse_pps_ml : M hppsml :=
    pr <- rd_flag R ;;
    inf <- rd_flag R ;;
    sl <- (if inf then x <- rd R 6 ;; ret (u8 x) else ret 0) ;;
    n <- rd_ue R ;;
    offs <- rep_until_err_n R n hparse_refloc ;;
    cme <- rd_flag R ;;
    cm <- (if cme then x <- hparse_cm ;; ret (Some x) else ret None) ;;
    e <- get_err R ;;
    if e then fail else ret (mkHPpsMl pr inf sl n offs cme cm).

  (* ---- parseDeltaDlt(r, BitDepthForDepthLayers) *)
  Definition hparse_delta_dlt (bd : N) : M hdeltadlt :=
    nv <- rd R bd ;;
    r <- (if 0 <? nv then
            md <- (if 1 <? nv then rd R bd else ret 0) ;;
            mn <- (if (2 <? nv) && (0 <? md) then rd R (ceil_log2 (u64 (md + 1)))
                   else ret (u64 (md + 18446744073709551615))) ;;
            v0 <- rd R bd ;;
            ds <- (if u64 (mn + 1) <? md then
                     rep_until_err_n R (nv - 1)
                       (rd R (ceil_log2 (u64 (u64 (md + 18446744073709551616 - u64 (mn + 1)) + 1))))
                   else ret []) ;;
            ret (md, mn, v0, ds)
          else ret (0, 0, 0, [])) ;;
    e <- get_err R ;;
    if e then fail else
    let '(md, mn, v0, ds) := r in
    ret (mkHDeltaDlt nv md mn v0 ds).

  (* one iteration of the depth-layer loop of parse3dExtension *)
  Definition hparse_dlayer (bd8 : N) : M hdlayer :=
    f <- rd_flag R ;;
    if f then
      p <- rd_flag R ;;
      vp <- (if negb p then rd_flag R else ret false) ;;
      if vp then
        vs <- rep_until_err_n R (2 ^ bd8) (rd_flag R) ;;
        ret (mkHDLayer f p vp vs None)
      else
        d <- hparse_delta_dlt bd8 ;;
        ret (mkHDLayer f p vp [] (Some d))
    else ret (mkHDLayer false false false [] None).

  Definition hparse_pps_3d : M hpps3d :=
    dp <- rd_flag R ;;
    r <- (if dp then
            nl <- rd R 6 ;;
            bd <- rd R 4 ;;
            ls <- rep_until_err R (N.to_nat (u8 nl + 1)) (hparse_dlayer (u8 (u8 bd + 8))) ;;
            ret (u8 nl, u8 bd, ls)
          else ret (0, 0, [])) ;;
    e <- get_err R ;;
    if e then fail else
    let '(nl, bd, ls) := r in
    ret (mkHPps3d dp nl bd ls).

  (* ---- ParsePPSNALUnit: the text of C15HevcModel.hparse_pps with the two extension branches *)
  Definition hparse_pps2 (spsmap : N -> bool) : M hpps2 :=
    hdr <- rd R 16 ;;
    if negb (hnalu_type hdr =? 34) then fail else
    id <- rd_ue R ;;
    sid <- rd_ue R ;;
    if negb (spsmap (u32 sid)) then fail else
    dep <- rd_flag R ;;
    ofp <- rd_flag R ;;
    neb <- rd R 3 ;;
    sdh <- rd_flag R ;;
    cip <- rd_flag R ;;
    l0 <- rd_ue R ;;
    l1 <- rd_ue R ;;
    iqp <- rd_se R ;;
    cintra <- rd_flag R ;;
    tskip <- rd_flag R ;;
    cuqp <- rd_flag R ;;
    dcq <- (if cuqp then rd_ue R else ret 0) ;;
    cbq <- rd_se R ;;
    crq <- rd_se R ;;
    scq <- rd_flag R ;;
    wp <- rd_flag R ;;
    wb <- rd_flag R ;;
    tqb <- rd_flag R ;;
    tiles <- rd_flag R ;;
    ecs <- rd_flag R ;;
    tl <- (if tiles then
             nc <- rd_ue R ;; nr <- rd_ue R ;; un <- rd_flag R ;;
             wh <- (if negb un then
                      ws <- rep_until_err_n R nc (rd_ue R) ;;
                      hs <- rep_until_err_n R nr (rd_ue R) ;;
                      ret (ws, hs)
                    else ret ([], [])) ;;
             lft <- rd_flag R ;;
             ret (nc, nr, un, wh, lft)
           else ret (0, 0, false, ([], []), false)) ;;
    let '(nc, nr, un, (ws, hs), lft) := tl in
    lfs <- rd_flag R ;;
    dbc <- rd_flag R ;;
    db <- (if dbc then
             ov <- rd_flag R ;; dis <- rd_flag R ;;
             bt <- (if negb dis then a <- rd_se R ;; b <- rd_se R ;; ret (i8 a, i8 b) else ret (0%Z, 0%Z)) ;;
             ret (ov, dis, bt)
           else ret (false, false, (0%Z, 0%Z))) ;;
    let '(dov, ddis, (beta, tc)) := db in
    sld <- rd_flag R ;;
    u0 <- (if sld then hskip_scaling_list_data R else ret tt) ;;
    lm <- rd_flag R ;;
    pml <- rd_ue R ;;
    she <- rd_flag R ;;
    ep <- rd_flag R ;;
    fl <- (if ep then a <- rd_flag R ;; b <- rd_flag R ;; c <- rd_flag R ;; d <- rd_flag R ;;
                      e <- rd R 4 ;; ret (a, b, c, d, u8 e)
           else ret (false, false, false, false, 0)) ;;
    let '(rf, mf, df, sf, e4) := fl in
    e <- get_err R ;;
    if e then fail else
    rg <- (if rf then x <- hparse_pps_range R tskip ;; ret (Some x) else ret None) ;;
    ml <- (if mf then x <- hparse_pps_ml ;; ret (Some x) else ret None) ;;
    d3 <- (if df then x <- hparse_pps_3d ;; ret (Some x) else ret None) ;;
    sc <- (if sf then x <- hparse_pps_scc R ;; ret (Some x) else ret None) ;;
    ed <- (if 0 <? e4 then hext_data_loop R ext_fuel [] else ret []) ;;
    hparse_end R
      (mkHPps2
         (mkHPps (u32 id) (u32 sid) dep ofp (u8 neb) sdh cip (u8 l0) (u8 l1) (i8 iqp) cintra tskip cuqp dcq
                 (i8 cbq) (i8 crq) scq wp wb tqb tiles ecs nc nr un ws hs lft lfs dbc dov ddis beta tc
                 sld lm pml she ep rf rg mf df sf sc e4 ed)
         ml d3).
End HParsers3.

Definition hparse_pps2_er (spsmap : N -> bool) (nalu : list N) : res hpps2 := run (hparse_pps2 ER spsmap) (rinit nalu).
Definition hparse_pps2_br (spsmap : N -> bool) (nalu : list N) : res hpps2 := run (hparse_pps2 BR spsmap) (binit nalu).

(* ---- flattening for the line protocol (appended to flat_hpps of the base part) *)
Definition flat_hrefloc (r : hrefloc) : list Z :=
  [zn (rl_layer_id r); zb (rl_scaled_present r); rl_scaled_left r; rl_scaled_top r; rl_scaled_right r; rl_scaled_bottom r;
   zb (rl_region_present r); rl_region_left r; rl_region_top r; rl_region_right r; rl_region_bottom r;
   zb (rl_phase_present r); zn (rl_phase_hor_luma r); zn (rl_phase_ver_luma r);
   zn (rl_phase_hor_chroma_plus8 r); zn (rl_phase_ver_chroma_plus8 r)].

Definition flat_hoctant (o : hoctant) : list Z :=
  let '(y, cb, cr, vs) := o in
  [zn y; zn cb; zn cr]
  ++ flat_map (fun v => zb (fst v) :: flat_map (fun c => [zn (cf_q c); zn (cf_r c); zb (cf_s c)]) (snd v)) vs.

Definition flat_hcm (c : hcm) : list Z :=
  [zn (cm_num_ref_layers_minus1 c)] ++ flat_nlist (cm_ref_layer_ids c)
  ++ [zn (cm_octant_depth c); zn (cm_y_part_num_log2 c); zn (cm_luma_in c); zn (cm_chroma_in c);
      zn (cm_luma_out c); zn (cm_chroma_out c); zn (cm_res_quant_bits c); zn (cm_delta_flc_bits_minus1 c);
      cm_thr_u c; cm_thr_v c]
  ++ flat_list flat_hoctant (cm_octants c).

(* the Go struct keeps the offsets in a map keyed by the layer id: of several entries with one id the
   last one is what a reader of the map sees *)
Fixpoint last_with_id (id : N) (l : list hrefloc) (acc : option hrefloc) : option hrefloc :=
  match l with
  | [] => acc
  | r :: t => last_with_id id t (if rl_layer_id r =? id then Some r else acc)
  end.
Definition flat_refloc_map (l : list hrefloc) : list Z :=
  flat_list (fun r => match last_with_id (rl_layer_id r) l None with
                      | Some x => flat_hrefloc x
                      | None => flat_hrefloc r
                      end) l.

Definition flat_hppsml (m : hppsml) : list Z :=
  [zb (ml_poc_reset_info_present m); zb (ml_infer_scaling_list m); zn (ml_scaling_list_ref_layer_id m);
   zn (ml_num_ref_loc_offsets m)]
  ++ flat_refloc_map (ml_ref_loc m)
  ++ [zb (ml_cm_enabled m)] ++ flat_opt flat_hcm (ml_cm m).

Definition flat_hdeltadlt (d : hdeltadlt) : list Z :=
  [zn (dd_num d); zn (dd_max_diff d); zn (dd_min_diff_minus1 d); zn (dd_val0 d)] ++ flat_nlist (dd_diffs d).
Definition flat_hdlayer (l : hdlayer) : list Z :=
  [zb (dl_flag l); zb (dl_pred l); zb (dl_val_flags_present l)] ++ flat_blist (dl_value_flags l)
  ++ flat_opt flat_hdeltadlt (dl_delta l).
Definition flat_hpps3d (d : hpps3d) : list Z :=
  [zb (d3_dlts_present d); zn (d3_num_layers_minus1 d); zn (d3_bit_depth_minus8 d)]
  ++ flat_list flat_hdlayer (d3_layers d).

Definition flat_hpps2 (p : hpps2) : list Z :=
  flat_hpps (p2_base p) ++ flat_opt flat_hppsml (p2_ml p) ++ flat_opt flat_hpps3d (p2_3d p).
