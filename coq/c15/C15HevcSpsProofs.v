(* C15HevcSpsProofs.v — hevc.ParseSPSNALUnit (model, ideal bit reader) applied to the NAL unit built
   by the independent serialiser returns the coded values; SPS.ImageSize is the cropping formula. *)
From V.lib Require Import Base.
From V.c13 Require Import C13Spec C13Model.
From V.c15 Require Import C15Model C15Spec C15BitProofs C15AvcSpsProofs C15AvcPpsProofs
  C15HevcModel C15HevcSpec C15HevcBitProofs C15HevcSpsPtlProofs C15HevcSpsRpsProofs
  C15HevcSpsVuiProofs C15HevcSpsExtProofs.

(* optional element with an explicitly given value *)
Lemma parses_opt_eq {A} raw (p : bstate -> res (A * bstate)) (c : bool) e (a d x : A) pos :
  (c = true -> parses raw p pos e a) -> x = (if c then a else d) ->
  parses raw (if c then p else ret d) pos (opt_bits c e) x.
Proof. intros H ->. apply parses_opt. exact H. Qed.

Lemma hevc_sps_runs v n :
  hsps_valid v = true ->
  runs_to (hraw_sps v) (hparse_sps BR) 0
    (u 16 (512 * 33 + 8 * sx_sps_nuh_layer_id v + sx_sps_nuh_temporal_id_plus1 v) ++ ser_hsps v)
    (trailing_bits n) (expected_hsps v).
Proof.
  intros Hv.
  set (raw := hraw_sps v).
  pose proof (fun pos => parses_hsps_ext raw v pos n Hv) as Hext.
  unfold hsps_valid in Hv. cbv zeta in Hv. split_all. unfold ue_ok in *.
  destruct (hnal_header_u16 33 (sx_sps_nuh_layer_id v) (sx_sps_nuh_temporal_id_plus1 v))
    as (_ & Hlt & Htyp); [lia | lia | lia |].
  assert (Evps : u8 (sx_sps_video_parameter_set_id v) = sx_sps_video_parameter_set_id v) by (apply u8_small; lia).
  assert (Ems : u8 (sx_sps_max_sub_layers_minus1 v) = sx_sps_max_sub_layers_minus1 v) by (apply u8_small; lia).
  assert (Eid : u8 (sx_sps_seq_parameter_set_id v) = sx_sps_seq_parameter_set_id v) by (apply u8_small; lia).
  assert (Ecf : u8 (sx_chroma_format_idc v) = sx_chroma_format_idc v) by (apply u8_small; lia).
  assert (Ew : u32 (sx_pic_width_in_luma_samples v) = sx_pic_width_in_luma_samples v) by (apply u32_small; lia).
  assert (Eh : u32 (sx_pic_height_in_luma_samples v) = sx_pic_height_in_luma_samples v) by (apply u32_small; lia).
  assert (Ebdl : u8 (sx_bit_depth_luma_minus8 v) = sx_bit_depth_luma_minus8 v) by (apply u8_small; lia).
  assert (Ebdc : u8 (sx_bit_depth_chroma_minus8 v) = sx_bit_depth_chroma_minus8 v) by (apply u8_small; lia).
  assert (El2p : u8 (sx_log2_max_pic_order_cnt_lsb_minus4 v) = sx_log2_max_pic_order_cnt_lsb_minus4 v)
    by (apply u8_small; lia).
  assert (El2p4 : u8 (sx_log2_max_pic_order_cnt_lsb_minus4 v + 4) = sx_log2_max_pic_order_cnt_lsb_minus4 v + 4)
    by (apply u8_small; lia).
  assert (Eq1 : u8 (sx_log2_min_luma_coding_block_size_minus3 v) = sx_log2_min_luma_coding_block_size_minus3 v)
    by (apply u8_small; lia).
  assert (Eq2 : u8 (sx_log2_diff_max_min_luma_coding_block_size v) = sx_log2_diff_max_min_luma_coding_block_size v)
    by (apply u8_small; lia).
  assert (Eq3 : u8 (sx_log2_min_luma_transform_block_size_minus2 v) = sx_log2_min_luma_transform_block_size_minus2 v)
    by (apply u8_small; lia).
  assert (Eq4 : u8 (sx_log2_diff_max_min_luma_transform_block_size v) = sx_log2_diff_max_min_luma_transform_block_size v)
    by (apply u8_small; lia).
  assert (Eq5 : u8 (sx_max_transform_hierarchy_depth_inter v) = sx_max_transform_hierarchy_depth_inter v)
    by (apply u8_small; lia).
  assert (Eq6 : u8 (sx_max_transform_hierarchy_depth_intra v) = sx_max_transform_hierarchy_depth_intra v)
    by (apply u8_small; lia).
  assert (Enst : u8 (lenN (sx_st_ref_pic_sets v)) = lenN (sx_st_ref_pic_sets v)) by (apply u8_small; lia).
  assert (Enlt : u8 (lenN (sx_lt_ref_pics_sps v)) = lenN (sx_lt_ref_pics_sps v)) by (apply u8_small; lia).
  unfold hparse_sps, ser_hsps, ser_hsps_main. cbv zeta. rewrite <- !app_assoc.
  rbind ltac:(apply parses_rd; exact Hlt).
  rewrite Htyp. change (negb (33 =? 33)) with false. cbv iota.
  rbind ltac:(apply parses_rd; lia).
  rbind ltac:(apply parses_rd; lia).
  rewrite Ems.
  rbind ltac:(apply parses_flag).
  rbind ltac:(apply parses_hptl; [assumption | lia]).
  rbind ltac:(apply parses_ue).
  rbind ltac:(apply parses_ue).
  rewrite Ecf.
  rbind ltac:(apply parses_opt; intros _; apply parses_flag).
  rbind ltac:(apply parses_ue).
  rbind ltac:(apply parses_ue).
  rbind ltac:(apply parses_flag).
  eapply runs_bind.
  { apply (parses_opt_eq raw _ (sx_conformance_window_flag v) _
             (sx_conf_win_left_offset v, sx_conf_win_right_offset v,
              sx_conf_win_top_offset v, sx_conf_win_bottom_offset v) (0, 0, 0, 0)
             ((if sx_conformance_window_flag v then sx_conf_win_left_offset v else 0),
              (if sx_conformance_window_flag v then sx_conf_win_right_offset v else 0),
              (if sx_conformance_window_flag v then sx_conf_win_top_offset v else 0),
              (if sx_conformance_window_flag v then sx_conf_win_bottom_offset v else 0))).
    - intros _. pbind ltac:(apply parses_ue). pbind ltac:(apply parses_ue). pbind ltac:(apply parses_ue).
      plast ltac:(apply parses_ue). apply parses_ret_eq. rewrite !u32_small by lia. reflexivity.
    - destruct (sx_conformance_window_flag v); reflexivity. }
  cbv beta iota zeta.
  rbind ltac:(apply parses_ue).
  rbind ltac:(apply parses_ue).
  rbind ltac:(apply parses_ue).
  rewrite Ebdl, Ebdc, El2p.
  rbind ltac:(apply parses_flag).
  eapply runs_bind.
  { apply (parses_rep_n raw _ _ (fun t : N * N * N => t) (sx_sub_layer_ordering v)).
    - lia.
    - unfold loop_bound. destruct (sx_sps_sub_layer_ordering_info_present_flag v); lia.
    - intros [[a b] c] pos' Hin.
      match goal with H : forallb _ (sx_sub_layer_ordering v) = true |- _ =>
        rewrite forallb_forall in H; specialize (H _ Hin); cbv beta iota in H end.
      split_all.
      pbind ltac:(apply parses_ue). pbind ltac:(apply parses_ue). plast ltac:(apply parses_ue).
      apply parses_ret_eq. rewrite !u8_small by lia. reflexivity. }
  cbv beta iota zeta. rewrite map_id.
  rbind ltac:(apply parses_ue). rbind ltac:(apply parses_ue). rbind ltac:(apply parses_ue).
  rbind ltac:(apply parses_ue). rbind ltac:(apply parses_ue). rbind ltac:(apply parses_ue).
  rewrite Eq1, Eq2, Eq3, Eq4, Eq5, Eq6.
  rbind ltac:(apply parses_flag).
  eapply runs_bind.
  { apply (parses_opt_eq raw _ (sx_scaling_list_enabled_flag v) _
             (sx_sps_scaling_list_data_present_flag v) false
             (sx_scaling_list_enabled_flag v && sx_sps_scaling_list_data_present_flag v)).
    - intros Hs. pbind ltac:(apply parses_flag).
      eapply parses_bind_nil; [|apply parses_ret].
      apply (parses_opt raw _ (sx_sps_scaling_list_data_present_flag v) _ tt tt).
      intros Hp. apply parses_hskip_sl.
      match goal with H : (if _ && _ then hsl_valid _ else true) = true |- _ =>
        rewrite Hs, Hp in H; exact H end.
    - destruct (sx_scaling_list_enabled_flag v); reflexivity. }
  cbv beta iota zeta.
  rbind ltac:(apply parses_flag).
  rbind ltac:(apply parses_flag).
  rbind ltac:(apply parses_flag).
  eapply runs_bind.
  { apply (parses_opt_eq raw _ (sx_pcm_enabled_flag v) _
             (sx_pcm_sample_bit_depth_luma_minus1 v, sx_pcm_sample_bit_depth_chroma_minus1 v,
              sx_log2_min_pcm_luma_coding_block_size_minus3 v,
              sx_log2_diff_max_min_pcm_luma_coding_block_size v, sx_pcm_loop_filter_disabled_flag v)
             (0, 0, 0, 0, false)
             ((if sx_pcm_enabled_flag v then sx_pcm_sample_bit_depth_luma_minus1 v else 0),
              (if sx_pcm_enabled_flag v then sx_pcm_sample_bit_depth_chroma_minus1 v else 0),
              (if sx_pcm_enabled_flag v then sx_log2_min_pcm_luma_coding_block_size_minus3 v else 0),
              (if sx_pcm_enabled_flag v then sx_log2_diff_max_min_pcm_luma_coding_block_size v else 0),
              sx_pcm_enabled_flag v && sx_pcm_loop_filter_disabled_flag v)).
    - intros _. pbind ltac:(apply parses_rd; lia). pbind ltac:(apply parses_rd; lia).
      pbind ltac:(apply parses_ue). pbind ltac:(apply parses_ue). plast ltac:(apply parses_flag).
      apply parses_ret_eq. rewrite !u8_small, !u16_small by lia. reflexivity.
    - destruct (sx_pcm_enabled_flag v); reflexivity. }
  cbv beta iota zeta.
  rbind ltac:(apply parses_ue).
  replace (64 <? lenN (sx_st_ref_pic_sets v)) with false by lia. cbv iota.
  rbind ltac:(apply parses_sps_rps; [lia | assumption]).
  rbind ltac:(apply parses_flag).
  eapply runs_bind.
  { apply (parses_opt raw _ (sx_long_term_ref_pics_present_flag v) _
             (lenN (sx_lt_ref_pics_sps v),
              map (fun e : N * bool => mkHLt (fst e) (snd e) false 0) (sx_lt_ref_pics_sps v)) (0, [])).
    intros _. pbind ltac:(apply parses_ue). rewrite Enlt, El2p4.
    plast ltac:(apply (parses_rep_n raw _
                         (fun e : N * bool => u (sx_log2_max_pic_order_cnt_lsb_minus4 v + 4) (fst e) ++ fl (snd e))
                         (fun e : N * bool => mkHLt (fst e) (snd e) false 0) (sx_lt_ref_pics_sps v));
                [reflexivity | unfold loop_bound; lia | ]).
    { intros e pos' Hin.
      match goal with H : forallb _ (sx_lt_ref_pics_sps v) = true |- _ =>
        rewrite forallb_forall in H; specialize (H _ Hin); cbv beta in H end.
      pbind ltac:(apply parses_rd; lia). plast ltac:(apply parses_flag).
      apply parses_ret_eq. rewrite u16_small; [reflexivity|].
      assert (2 ^ (sx_log2_max_pic_order_cnt_lsb_minus4 v + 4) <= 2 ^ 16)
        by (apply N.pow_le_mono_r; lia).
      change (2 ^ 16) with 65536 in *. lia. }
    apply parses_ret. }
  cbv beta iota zeta.
  rbind ltac:(apply parses_flag).
  rbind ltac:(apply parses_flag).
  rbind ltac:(apply parses_flag).
  rbind ltac:(apply parses_opt_some; intros Hp; apply parses_hvui;
              [match goal with H : (if sx_vui_parameters_present_flag v then _ else true) = true |- _ =>
                 rewrite Hp in H; exact H end | lia]).
  eapply runs_bind_peek; [apply parses_get_err|]. cbv beta iota zeta.
  eapply runs_bind_t; [apply Hext|].
  cbv beta iota zeta. rewrite hparse_end_ok. f_equal.
  rewrite Evps, Eid, Ew, Eh, Enst.
  unfold expected_hsps. cbv beta zeta.
  replace (if sx_chroma_format_idc v =? 3 then sx_separate_colour_plane_flag v else false)
    with ((sx_chroma_format_idc v =? 3) && sx_separate_colour_plane_flag v)
    by (destruct (sx_chroma_format_idc v =? 3); reflexivity).
  destruct (sx_long_term_ref_pics_present_flag v); cbn [fst snd]; reflexivity.
Qed.

(* ------------------------------------------------------------------ the NAL unit *)
Lemma hevc_sps v :
  hsps_valid v = true -> hparse_sps_br (hnalu_sps v) = Ok (expected_hsps v).
Proof.
  intros Hv.
  assert (Hb : sx_sps_nuh_layer_id v < 64 /\ sx_sps_nuh_temporal_id_plus1 v < 8)
    by (unfold hsps_valid in Hv; cbv zeta in Hv; split_all; lia).
  destruct Hb as [Hl Ht].
  destruct (hnal_header_u16 33 (sx_sps_nuh_layer_id v) (sx_sps_nuh_temporal_id_plus1 v))
    as (Hh & _ & _); [lia | exact Hl | exact Ht |].
  unfold hparse_sps_br, hnalu_sps. rewrite binit_hnalu. fold (hraw_sps v).
  rewrite Hh, app_assoc.
  apply (hevc_sps_runs v _ Hv).
Qed.

(* ------------------------------------------------------------------ SPS.ImageSize *)
Lemma hevc_dims v :
  hsps_valid v = true -> himage_size (expected_hsps v) = expected_himage_size v.
Proof.
  intros Hv. unfold hsps_valid in Hv. cbv zeta in Hv. split_all. unfold ue_ok in *.
  unfold himage_size, expected_himage_size, expected_hsps. cbv zeta.
  cbn [h_chroma h_width h_height h_cw_left h_cw_right h_cw_top h_cw_bottom].
  unfold h_display_width, h_display_height, h_crop_w, h_crop_h, h_sub_width_c, h_sub_height_c in *.
  unfold u32.
  destruct (sx_conformance_window_flag v);
    destruct (sx_chroma_format_idc v =? 1); destruct (sx_chroma_format_idc v =? 2); cbn [orb] in *;
    f_equal; lia.
Qed.
