(* C15HevcConfExamples.v — concrete values used by the Examples of C15HevcConfTheorems.v: an HEVC
   Main10 SPS (1920x1088 cropped to 1080, 10 bit, constraint bytes B0 00 10 00 00 00: a zero byte
   between two non-zero ones and trailing zero bytes), parameter-set NAL unit lists. *)
From V.lib Require Import Base.
From V.c13 Require Import C13Spec C13Model.
From V.c15 Require Import C15Model C15Spec C15HevcModel C15HevcSpec C15HevcConfModel C15HevcConfSpec.
From V.c16 Require Import C16ConfRecModel.

Definition ex_hconf_prof : hprofile_syntax :=
  mkHProfSyn 0 true 2 1610612736 true false true true 524288 false.
Definition ex_hconf_ptl : hptl_syntax := mkHPtlSyn ex_hconf_prof 93 [].
Definition ex_hconf_hrd : hhrd_syntax := mkHHrdSyn false false false 0 0 false 0 0 0 0 0 0 0 [].
Definition ex_hconf_vui : hvui_syntax :=
  mkHVuiSyn false 0 0 0 false false false 0 false false 0 0 0 false 0 0 false false false
            false 0 0 0 0 false 0 0 false 0 false ex_hconf_hrd false false false false 0 0 0 0 0.
Definition ex_hconf_3d : hsps3d :=
  mkHSps3d false false 0 false false false false false false false 0 false false false false false.
Definition ex_hconf_scc : hspsscc_syntax := mkHSpsSccSyn false false 0 0 false [] 0 false.

Definition ex_hconf_sps : hsps_syntax :=
  mkHSpsSyn 0 1 0 0 true ex_hconf_ptl 0 1 false 1920 1088 true 0 0 0 4 2 2 4 true [(4, 2, 0)]
            0 3 0 3 1 1 false false (mkHSlSyn [] [] [] []) true true false 0 0 0 0 false
            [] false [] true true false ex_hconf_vui
            false false false false false 0
            [false; false; false; false; false; false; false; false; false] false
            ex_hconf_3d ex_hconf_scc [].

(* profile space 2, main tier: the "B" prefix and "L" of the codec string *)
Definition ex_hconf_sps_b : hsps_syntax :=
  mkHSpsSyn 0 1 0 0 true (mkHPtlSyn (mkHProfSyn 2 false 1 2147483648 false false false false 0 true) 120 [])
            0 3 false 64 64 false 0 0 0 0 0 0 4 true [(4, 2, 0)]
            0 3 0 3 1 1 false false (mkHSlSyn [] [] [] []) true true false 0 0 0 0 false
            [] false [] true true false ex_hconf_vui
            false false false false false 0
            [false; false; false; false; false; false; false; false; false] false
            ex_hconf_3d ex_hconf_scc [].

Definition ex_hconf_vps : list (list N) := [[64; 1; 12; 1; 255; 255]].
Definition ex_hconf_pps : list (list N) := [[68; 1; 193; 114]; [68; 1; 0]].
