(* C14HevcPackProofs.v — the repacking tail of hevc.GetParameterSetsFromByteStream (psData := make(totSize),
   three copy loops, results re-sliced from psData): when totSize is the total length of the sets it returns
   exactly the sets; and `slice` yields b - a bytes (what `totSize += currNaluEnd - currNaluStart` counts). *)
From V.lib Require Import Base.
From V.c14 Require Import C14Spec C14Model C14HevcModel C14ScanProofs C14ConvProofs.
Local Open Scope Z_scope.

Definition sum_len (l : list (list N)) : Z := fold_right (fun x a => Zlen x + a) 0 l.
Definition sum3 (a : hevc_ps) : Z := let '(v, s, p) := a in sum_len v + sum_len s + sum_len p.

Lemma sum_len_nonneg l : 0 <= sum_len l.
Proof. induction l as [|x r IH]; cbn [sum_len fold_right]; [lia|]. pose proof (Zlen_nonneg x). fold (sum_len r). lia. Qed.

Lemma sum_len_cons x r : sum_len (x :: r) = Zlen x + sum_len r.
Proof. reflexivity. Qed.

Lemma sum_len_app a b : sum_len (a ++ b) = sum_len a + sum_len b.
Proof. induction a as [|x r IH]; [reflexivity|]. cbn [app]. rewrite !sum_len_cons, IH. lia. Qed.

Lemma sum_len_rev l : sum_len (rev l) = sum_len l.
Proof.
  induction l as [|x r IH]; [reflexivity|]. cbn [rev]. rewrite sum_len_app, IH, !sum_len_cons.
  change (sum_len []) with 0. lia.
Qed.

Lemma Zlen_concat l : Zlen (concat l) = sum_len l.
Proof. induction l as [|x r IH]; [reflexivity|]. cbn [concat]. rewrite Zlen_app, IH. reflexivity. Qed.

Lemma slice_Zlen l a b x : slice l a b = Ok x -> Zlen x = b - a.
Proof.
  unfold slice. destruct ((0 <=? a) && (a <=? b) && (b <=? Zlen l)) eqn:E; [|discriminate].
  intros H. injection H as <-. unfold Zlen in *. rewrite firstn_length, skipn_length. lia.
Qed.

Lemma skipn_add {A} (l : list A) : forall a b, skipn a (skipn b l) = skipn (b + a) l.
Proof.
  induction l as [|x r IH]; intros a b.
  - rewrite !skipn_nil. reflexivity.
  - destruct b as [|b]; [reflexivity|]. cbn [skipn plus]. apply IH.
Qed.

Lemma Zlen_skipn {A} (l : list A) k : Zlen (skipn k l) = Zlen l - Z.of_nat (Nat.min k (length l)).
Proof. unfold Zlen. rewrite skipn_length. lia. Qed.

(* copy(psData[pos:], x) when x fits behind pos *)
Lemma copy_tail (P T x : list N) : Zlen x <= Zlen T ->
  copy_into (P ++ T) (Zlen P) (Zlen (P ++ T)) x = Ok (P ++ x ++ skipn (length x) T).
Proof.
  intros Hx. unfold copy_into. pose proof (Zlen_nonneg P). pose proof (Zlen_nonneg T). pose proof (Zlen_nonneg x).
  rewrite Zlen_app.
  replace ((0 <=? Zlen P) && (Zlen P <=? Zlen P + Zlen T) && (Zlen P + Zlen T <=? Zlen P + Zlen T)) with true by lia.
  replace (Z.min (Zlen P + Zlen T - Zlen P) (Zlen x)) with (Zlen x) by lia.
  rewrite !to_nat_Zlen, firstn_len_app, firstn_all, skipn_len_app. reflexivity.
Qed.

Fixpoint mkviews (base : Z) (xs : list (list N)) : list (Z * Z) :=
  match xs with
  | [] => []
  | x :: r => (base, base + Zlen x) :: mkviews (base + Zlen x) r
  end.

Lemma repack_loop_spec : forall xs P T views, sum_len xs <= Zlen T ->
  hevc_repack_loop (P ++ T) (Zlen P) xs views
  = Ok (P ++ concat xs ++ skipn (Z.to_nat (sum_len xs)) T, Zlen P + sum_len xs, rev views ++ mkviews (Zlen P) xs).
Proof.
  induction xs as [|x r IH]; intros P T views Hs.
  - cbn [hevc_repack_loop concat sum_len fold_right mkviews app]. change (Z.to_nat 0) with 0%nat. cbn [skipn].
    rewrite Z.add_0_r, app_nil_r. reflexivity.
  - rewrite sum_len_cons in Hs. pose proof (sum_len_nonneg r) as Hr. pose proof (Zlen_nonneg x) as Hx0.
    cbn [hevc_repack_loop]. rewrite copy_tail by lia. cbn [rbind].
    rewrite slice_mid. cbn [rbind].
    replace (P ++ x ++ skipn (length x) T) with ((P ++ x) ++ skipn (length x) T) by (rewrite <- app_assoc; reflexivity).
    replace (Zlen P + Zlen x) with (Zlen (P ++ x)) by (rewrite Zlen_app; reflexivity).
    rewrite IH.
    2:{ rewrite Zlen_skipn. unfold Zlen in *. lia. }
    rewrite skipn_add. cbn [concat mkviews rev]. rewrite sum_len_cons, Zlen_app.
    replace (length x + Z.to_nat (sum_len r))%nat with (Z.to_nat (Zlen x + sum_len r)) by (unfold Zlen in *; lia).
    rewrite <- !app_assoc. cbn [app]. rewrite Z.add_assoc. reflexivity.
Qed.

Lemma views_spec : forall xs P R, hevc_views (P ++ concat xs ++ R) (mkviews (Zlen P) xs) = Ok xs.
Proof.
  induction xs as [|x r IH]; intros P R; [reflexivity|].
  cbn [mkviews hevc_views concat]. rewrite <- app_assoc. rewrite slice_mid. cbn [rbind].
  replace (P ++ x ++ concat r ++ R) with ((P ++ x) ++ concat r ++ R) by (rewrite <- app_assoc; reflexivity).
  replace (Zlen P + Zlen x) with (Zlen (P ++ x)) by (rewrite Zlen_app; reflexivity).
  rewrite IH. reflexivity.
Qed.

Lemma Zlen_repeat (b : N) k : Zlen (repeat b k) = Z.of_nat k.
Proof. unfold Zlen. rewrite repeat_length. reflexivity. Qed.

(* with the right totSize the repacked sets are the sets *)
Lemma repack_exact v s p : hevc_repack (v, s, p) (sum3 (v, s, p)) = Ok (v, s, p).
Proof.
  unfold hevc_repack, sum3.
  pose proof (sum_len_nonneg v) as Hv. pose proof (sum_len_nonneg s) as Hs. pose proof (sum_len_nonneg p) as Hp.
  replace (sum_len v + sum_len s + sum_len p <? 0) with false by lia.
  set (T0 := repeat 0%N (Z.to_nat (sum_len v + sum_len s + sum_len p))).
  assert (HT0 : Zlen T0 = sum_len v + sum_len s + sum_len p) by (unfold T0; rewrite Zlen_repeat; lia).
  change T0 with ([] ++ T0). change 0 with (Zlen (@nil N)) at 1.
  rewrite repack_loop_spec by lia. cbn [rbind fst snd app rev].
  set (T1 := skipn (Z.to_nat (sum_len v)) T0).
  assert (HT1 : Zlen T1 = sum_len s + sum_len p) by (unfold T1; rewrite Zlen_skipn; unfold Zlen in *; lia).
  change (Zlen (@nil N)) with 0. rewrite Z.add_0_l.
  rewrite <- (Zlen_concat v).
  rewrite repack_loop_spec by lia. cbn [rbind fst snd app rev].
  set (T2 := skipn (Z.to_nat (sum_len s)) T1).
  assert (HT2 : Zlen T2 = sum_len p) by (unfold T2; rewrite Zlen_skipn; unfold Zlen in *; lia).
  replace (concat v ++ concat s ++ T2) with ((concat v ++ concat s) ++ T2) by (rewrite <- app_assoc; reflexivity).
  replace (Zlen (concat v) + sum_len s) with (Zlen (concat v ++ concat s)) by (rewrite Zlen_app, !Zlen_concat; reflexivity).
  rewrite repack_loop_spec by lia. cbn [rbind fst snd app rev].
  set (T3 := skipn (Z.to_nat (sum_len p)) T2).
  (* final psData = concat v ++ concat s ++ concat p ++ T3 *)
  replace ((concat v ++ concat s) ++ concat p ++ T3) with ([] ++ concat v ++ (concat s ++ concat p ++ T3))
    by (cbn [app]; rewrite <- app_assoc; reflexivity).
  change 0 with (Zlen (@nil N)). rewrite views_spec. cbn [rbind].
  replace ([] ++ concat v ++ concat s ++ concat p ++ T3) with (concat v ++ concat s ++ (concat p ++ T3)) by reflexivity.
  rewrite views_spec. cbn [rbind].
  replace (concat v ++ concat s ++ concat p ++ T3) with ((concat v ++ concat s) ++ concat p ++ T3)
    by (rewrite <- app_assoc; reflexivity).
  rewrite views_spec. reflexivity.
Qed.
