(* C14Scan32Model.v — getStartCodePositions / hasZeroByte / ConvertByteStreamToNaluSample of avc/annexb.go as
   they compile on a 32-bit platform (GOARCH=386/arm): uintSize = int(unsafe.Sizeof(uint(0))) = 4, the magic
   constants are 0x0101010101010101 >> (64 - bits.UintSize) = 0x01010101 and 0x80808080, the word loop
   advances by 4, loads 4 bytes and probes the odd offsets i+1, i+3; streamLenLim = len - len%4 - 4.  The tail
   loop, the probing body and the conversion loops are the same text on both platforms (C14Model.v).
   checks/c14.py builds the harness a second time with GOARCH=386 and runs this transcription against it.
   Definitions only. *)
From V.lib Require Import Base.
From V.c14 Require Import C14Spec C14Model.
Local Open Scope Z_scope.

Definition magic_left32 : N := 16843009%N.       (* 0x01010101 *)
Definition magic_right32 : N := 2155905152%N.    (* 0x80808080 *)
Definition two32 : N := 4294967296%N.

(* ((x - magicLeft) & (^x) & magicRight) != 0 on a 32-bit uint x *)
Definition has_zero_byte32 (x : N) : bool :=
  negb (N.eqb (N.land (N.land ((x + two32 - magic_left32) mod two32) (N.lxor x (N.ones 32))) magic_right32) 0%N).

(* the 4-byte uint load through unsafe.Pointer(&stream[i]) *)
Definition read_word32 (l : list N) (i : Z) : res N :=
  do _ <- getb l i;
  do bs <- slice l i (i + 4);
  Ok (word_le bs).

(* for j := i + 1; j < i+uintSize; j += 2 *)
Fixpoint inner_loop32 (fuel : nat) (l : list N) (i j : Z) (st : scst) : res scst :=
  match fuel with
  | O => OutOfFuel
  | S f =>
      if j <? i + 4 then
        do r <- probe l j;
        inner_loop32 f l i (j + 2) (match r with Some e => push st e | None => st end)
      else Ok st
  end.

(* for ; i < streamLenLim; i += uintSize *)
Fixpoint word_loop32 (fuel : nat) (l : list N) (lim i : Z) (st : scst) : res (Z * scst) :=
  match fuel with
  | O => OutOfFuel
  | S f =>
      if i <? lim then
        do w <- read_word32 l i;
        do st' <- (if has_zero_byte32 w then inner_loop32 4 l i (i + 1) st else Ok st);
        word_loop32 f l lim (i + 4) st'
      else Ok (i, st)
  end.

Definition get_start_code_positions32 (l : list N) : res (list (Z * Z) * Z) :=
  let streamLen := Zlen l in
  let lim := streamLen - Z.rem streamLen 4 - 4 in
  do r <- word_loop32 (S (length l)) l lim 0 ([], 4);
  do st <- tail_loop (S (length l)) l (fst r) (snd r);
  Ok (rev (fst st), snd st).

Definition to_nalu_sample32 (l : list N) : res (list N) :=
  do r <- get_start_code_positions32 l;
  if snd r =? 4 then inplace_loop l (Zlen l) (fst r) else copy_loop l (Zlen l) (fst r).
