(* C14HevcSpec.v — specification side of the HEVC helpers: NAL units with the TWO-byte HEVC NAL unit
   header (ISO/IEC 23008-2 7.3.1.2 nal_unit_header(): forbidden_zero_bit f(1), nal_unit_type u(6),
   nuh_layer_id u(6), nuh_temporal_id_plus1 u(3)) and the obvious list functions of a unit list, written
   over a unit -> type function (nothing here looks at "the first byte" of a unit).  Definitions only. *)
From V.lib Require Import Base.
From V.c14 Require Import C14Spec.

(* the 16-bit header as a number, most significant byte first *)
Definition hevc_hdr16 (n : list N) : N :=
  match n with b0 :: b1 :: _ => b0 * 256 + b1 | _ => 0 end.
(* nal_unit_type = bits 14..9 of the header *)
Definition hevc_unit_type (n : list N) : N := (hevc_hdr16 n / 512) mod 64.

(* an HEVC NAL unit as the sample walkers need it: both header bytes present, bytes are bytes, the length
   fits the 4-byte length field.  (The default 0 of hevc_hdr16 on shorter lists is never used under it.) *)
Definition hevc_hdr_ok (n : list N) : bool := (2 <=? length n)%nat && bytes_ok n.
Definition hevc_unit (n : list N) : bool := hevc_hdr_ok n && fits32 n.
Definition hevc_units (ns : list (list N)) : bool := forallb hevc_unit ns.
(* ... and as the byte-stream helpers need it: both header bytes, emulation-free with a non-zero last byte
   (wf_nalu), behind a 3- or 4-byte start code *)
Definition hevc_stream_units (us : list (bool * list N)) : bool :=
  forallb (fun u => hevc_hdr_ok (snd u) && wf_nalu (snd u)) us.

(* HEVC type classes (Table 7-1): VCL types are 0..31, IRAP 16..23, IDR 19..20, VPS/SPS/PPS 32/33/34 *)
Definition hevc_vcl (t : N) : bool := (t <=? 31)%N.
Definition hevc_irap (t : N) : bool := (16 <=? t)%N && (t <=? 23)%N.
Definition hevc_idr (t : N) : bool := (19 <=? t)%N && (t <=? 20)%N.

Section UnitLists.
  Variable ut : list N -> N.       (* type of a unit *)
  Variable isv : N -> bool.        (* is it a video (VCL) type *)

  Definition u_types (ns : list (list N)) : list N := map ut ns.
  (* types up to and including the first video unit *)
  Fixpoint u_types_upto (ns : list (list N)) : list N :=
    match ns with
    | [] => []
    | n :: t => ut n :: (if isv (ut n) then [] else u_types_upto t)
    end.
  (* units strictly before the first video unit *)
  Fixpoint u_before_video (ns : list (list N)) : list (list N) :=
    match ns with
    | [] => []
    | n :: t => if isv (ut n) then [] else n :: u_before_video t
    end.
  Definition u_of_type (want : N) (ns : list (list N)) : list (list N) :=
    filter (fun n => N.eqb (ut n) want) ns.
  Definition u_has (p : N -> bool) (ns : list (list N)) : bool := existsb (fun n => p (ut n)) ns.
End UnitLists.
