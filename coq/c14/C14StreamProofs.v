(* C14StreamProofs.v — the byte-stream helpers (shared loop skeleton bs_loop) on `stream us`:
   the loop visits exactly the start-code positions of the naive scan; at each of them the previous
   unit is recovered by trimming; the helpers return the obvious list functions of the unit list. *)
From V.lib Require Import Base.
From V.c14 Require Import C14Spec C14Model C14WordProofs C14ScanProofs C14ConvProofs C14WalkProofs.
Local Open Scope Z_scope.

(* ---------- the loop = a fold over the start-code positions, for ANY byte string ---------- *)
Fixpoint bs_events {St R : Type} (body : Z -> St -> res (St + R)) (ps : list Z) (st : St) : res (St + R) :=
  match ps with
  | [] => Ok (inl st)
  | p :: t =>
      do r <- body p st;
      match r with
      | inl st' => bs_events body t st'
      | inr x => Ok (inr x)
      end
  end.

Lemma sc_at_spec d i : 0 <= i -> i + 3 < Zlen d -> sc_at d i = Ok (is_sc d i).
Proof.
  intros H0 H1. unfold sc_at, is_sc.
  rewrite (getb_ok d i), (getb_ok d (i + 1)), (getb_ok d (i + 2)) by lia. cbn [rbind].
  replace (0 <=? i) with true by lia. replace (i + 3 <? Zlen d) with true by lia. cbn [andb].
  destruct (is0 (zget d i)); [|reflexivity]. destruct (is0 (zget d (i + 1))); reflexivity.
Qed.

Lemma bs_loop_events {St R} (body : Z -> St -> res (St + R)) d : forall fuel i st,
  0 <= i -> (Z.to_nat (Zlen d - 3 - i) < fuel)%nat ->
  bs_loop body fuel d (Zlen d) i st =
  bs_events body (filter (is_sc d) (zrange i (Z.to_nat (Zlen d - 3 - i)))) st.
Proof.
  induction fuel as [|f IH]; intros i st H0 Hf; [lia|].
  cbn [bs_loop]. destruct (Z.ltb_spec i (Zlen d - 3)) as [Hlt|Hge].
  - replace (Z.to_nat (Zlen d - 3 - i)) with (S (Z.to_nat (Zlen d - 3 - (i + 1)))) by lia.
    cbn [zrange filter]. rewrite sc_at_spec by lia. cbn [rbind].
    destruct (is_sc d i).
    + cbn [bs_events]. destruct (body i st) as [[st'|x]| | |]; cbn [rbind]; try reflexivity.
      apply IH; lia.
    + apply IH; lia.
  - replace (Z.to_nat (Zlen d - 3 - i)) with 0%nat by lia. reflexivity.
Qed.

(* ---------- the positions on a well-formed stream ---------- *)
Fixpoint sc_positions (base : Z) (us : list (bool * list N)) : list Z :=
  match us with
  | [] => []
  | (f, n) :: t => (base + sclen f - 3) :: sc_positions (base + sclen f + Zlen n) t
  end.

Lemma sc_positions_expected : forall us base,
  map (fun e : Z * Z => snd e - 3) (expected_scs base us) = sc_positions base us.
Proof.
  induction us as [|[f n] t IH]; intros base; [reflexivity|].
  cbn [expected_scs map sc_positions snd]. f_equal. apply IH.
Qed.

Lemma flat_map_scs_filter l r :
  flat_map (scs l) r = map (fun p => (sc_len l p, p + 3)) (filter (is_sc l) r).
Proof.
  induction r as [|p t IH]; [reflexivity|].
  cbn [flat_map filter]. unfold scs at 1. destruct (is_sc l p); cbn [map app]; rewrite IH; reflexivity.
Qed.

Lemma filter_beyond l s n : Zlen l - 3 <= s -> filter (is_sc l) (zrange s n) = [].
Proof.
  revert s. induction n as [|n IH]; intros s H; [reflexivity|].
  cbn [zrange filter]. unfold is_sc at 1. replace (s + 3 <? Zlen l) with false by lia.
  rewrite andb_false_r. cbn [andb]. apply IH. lia.
Qed.

Lemma stream_positions us : wf_units us = true ->
  filter (is_sc (stream us)) (zrange 0 (Z.to_nat (Zlen (stream us) - 3 - 0))) = sc_positions 0 us.
Proof.
  intros Hwf. set (l := stream us).
  assert (Hn : naive_scan l = expected_scs 0 us).
  { unfold l. rewrite <- nscan_naive. apply nscan_stream. exact Hwf. }
  unfold naive_scan in Hn. rewrite flat_map_scs_filter in Hn.
  apply (f_equal (map (fun e : Z * Z => snd e - 3))) in Hn.
  rewrite map_map, sc_positions_expected in Hn. cbn [snd] in Hn.
  rewrite (map_ext _ (fun p => p)) in Hn by (intros; lia). rewrite map_id in Hn.
  rewrite <- Hn.
  set (A := Z.to_nat (Zlen l - 3 - 0)).
  assert (HA : (A <= length l)%nat) by (unfold A, Zlen; lia).
  replace (length l) with (A + (length l - A))%nat by lia.
  rewrite zrange_app, filter_app, (filter_beyond l (0 + Z.of_nat A)), app_nil_r; [reflexivity|].
  unfold A, Zlen. lia.
Qed.

(* ---------- trimming at a start code ---------- *)
Lemma trim_stop_le f d cur j e : j <= cur -> trim_loop (S f) d cur j e = Ok e.
Proof. intros H. cbn [trim_loop]. replace (j >? cur) with false by lia. reflexivity. Qed.

Lemma trim_stop_nz f d cur j e b : getb d j = Ok b -> is0 b = false -> trim_loop (S f) d cur j e = Ok e.
Proof.
  intros Hg Hb. cbn [trim_loop]. destruct (j >? cur); [|reflexivity].
  rewrite Hg. cbn [rbind]. rewrite Hb. reflexivity.
Qed.

Lemma trim_step f d cur j e b : j > cur -> getb d j = Ok b -> is0 b = true ->
  trim_loop (S f) d cur j e = trim_loop f d cur (j - 1) j.
Proof.
  intros Hj Hg Hb. cbn [trim_loop]. replace (j >? cur) with true by lia.
  rewrite Hg. cbn [rbind]. rewrite Hb. reflexivity.
Qed.

(* the last byte of a non-empty unit sits just before what follows it *)
Lemma getb_last (P : list N) n R : n <> [] ->
  getb (P ++ n ++ R) (Zlen P + Zlen n - 1) = Ok (last n 0%N).
Proof.
  intros Hne. destruct (exists_last Hne) as [n0 [x E]]. subst n.
  rewrite last_last. rewrite <- !app_assoc. cbn [app].
  replace (P ++ n0 ++ x :: R) with ((P ++ n0) ++ x :: R) by (rewrite <- app_assoc; reflexivity).
  replace (Zlen P + Zlen (n0 ++ [x]) - 1) with (Zlen (P ++ n0)).
  - apply getb_mid.
  - rewrite !Zlen_app. change (Zlen [x]) with 1. lia.
Qed.

Lemma trim_at_sc (P : list N) n f R d :
  n <> [] -> last_nonzero n = true -> d = P ++ n ++ start_code f ++ R ->
  trim_end d (Zlen P) (Zlen P + Zlen n + sclen f - 3) = Ok (Zlen P + Zlen n).
Proof.
  intros Hne Hl Hd. unfold trim_end.
  assert (Hlast : getb d (Zlen P + Zlen n - 1) = Ok (last n 0%N)) by (subst d; apply getb_last; exact Hne).
  unfold last_nonzero in Hl. apply negb_true_iff in Hl.
  assert (Hn1 : 1 <= Zlen n).
  { destruct n as [|x0 n0]; [congruence|]. rewrite Zlen_cons. pose proof (Zlen_nonneg n0). lia. }
  destruct f; cbn [sclen].
  - (* 4-byte start code: one zero is trimmed *)
    assert (Hlen : exists k, length d = S k).
    { subst d. rewrite !app_length. cbn [start_code length]. exists (length P + (length n + (3 + length R)))%nat. lia. }
    destruct Hlen as [k Hk]. rewrite Hk.
    assert (Hz : getb d (Zlen P + Zlen n) = Ok 0%N).
    { subst d. cbn [start_code app].
      replace (P ++ n ++ 0%N :: 0%N :: 0%N :: 1%N :: R) with ((P ++ n) ++ 0%N :: (0%N :: 0%N :: 1%N :: R))
        by (rewrite <- app_assoc; reflexivity).
      rewrite <- Zlen_app. apply getb_mid. }
    replace (Zlen P + Zlen n + 4 - 3 - 1) with (Zlen P + Zlen n) by lia.
    rewrite (trim_step _ d _ _ _ 0%N) by (try exact Hz; try reflexivity; lia).
    eapply trim_stop_nz; [exact Hlast|exact Hl].
  - replace (Zlen P + Zlen n + 3 - 3 - 1) with (Zlen P + Zlen n - 1) by lia.
    replace (Zlen P + Zlen n + 3 - 3) with (Zlen P + Zlen n) by lia.
    eapply trim_stop_nz; [exact Hlast|exact Hl].
Qed.

(* facts at the event for unit n' when the previous unit n starts at Zlen P *)
Lemma event_facts (P : list N) n f n' R d :
  wf_nalu n = true -> n' <> [] -> d = P ++ n ++ start_code f ++ n' ++ R ->
  trim_end d (Zlen P) (Zlen P + Zlen n + sclen f - 3) = Ok (Zlen P + Zlen n) /\
  slice d (Zlen P) (Zlen P + Zlen n) = Ok n /\
  getb d (Zlen P) = Ok (hd0 n) /\
  getb d (Zlen P + Zlen n + sclen f - 3 + 3) = Ok (hd0 n') /\
  (Zlen P + Zlen n + sclen f - 3 + 3 <? Zlen d) = true /\
  Zlen P + Zlen n + sclen f - 3 + 3 = Zlen (P ++ n ++ start_code f) /\
  d = (P ++ n ++ start_code f) ++ n' ++ R.
Proof.
  intros Hwf Hne' Hd. destruct (wf_nalu_parts n Hwf) as [Hne [Hl _]].
  assert (Hsc : Zlen (start_code f) = sclen f) by (destruct f; reflexivity).
  assert (HP' : Zlen (P ++ n ++ start_code f) = Zlen P + Zlen n + sclen f) by (rewrite !Zlen_app, Hsc; lia).
  assert (Hd' : d = (P ++ n ++ start_code f) ++ n' ++ R) by (subst d; rewrite <- !app_assoc; reflexivity).
  split; [apply (trim_at_sc P n f (n' ++ R) d Hne Hl Hd)|].
  split; [subst d; apply slice_mid|].
  split.
  { subst d. destruct n as [|x n0]; [congruence|]. cbn [hd0 hd]. cbn [app]. apply getb_mid. }
  split.
  { replace (Zlen P + Zlen n + sclen f - 3 + 3) with (Zlen (P ++ n ++ start_code f)) by lia.
    rewrite Hd'. destruct n' as [|y n0']; [congruence|]. cbn [hd0 hd app]. apply getb_mid. }
  split.
  { rewrite Hd' at 1. rewrite Zlen_app, HP'. destruct n' as [|y n0']; [congruence|].
    rewrite Zlen_app, Zlen_cons. pose proof (Zlen_nonneg n0'). pose proof (Zlen_nonneg R). lia. }
  split; [lia|exact Hd'].
Qed.

(* the unit after the last start code *)
Lemma last_unit_facts (P : list N) n d : n <> [] -> d = P ++ n ->
  slice d (Zlen P) (Zlen d) = Ok n /\ getb d (Zlen P) = Ok (hd0 n).
Proof.
  intros Hne Hd. split.
  - subst d. rewrite Zlen_app. rewrite <- (app_nil_r n) at 1. apply slice_mid.
  - subst d. destruct n as [|x n0]; [congruence|]. cbn [hd0 hd]. apply getb_mid.
Qed.

Lemma bs_loop_stream {St R} (body : Z -> St -> res (St + R)) us st : wf_units us = true ->
  bs_loop body (S (length (stream us))) (stream us) (Zlen (stream us)) 0 st =
  bs_events body (sc_positions 0 us) st.
Proof.
  intros Hwf. rewrite bs_loop_events by (unfold Zlen; lia). rewrite stream_positions by exact Hwf. reflexivity.
Qed.

Lemma wf_units_cons f n t : wf_units ((f, n) :: t) = true -> wf_nalu n = true /\ n <> [] /\ wf_units t = true.
Proof.
  cbn [wf_units forallb snd]. intros H. apply andb_prop in H. destruct H as [Hn Ht].
  destruct (wf_nalu_parts n Hn) as [Hne _]. auto.
Qed.

Lemma Zlen_sc f : Zlen (start_code f) = sclen f.
Proof. destruct f; reflexivity. Qed.

(* ---------- ExtractNalusFromByteStream ---------- *)
Lemma enb_events_spec : forall us P n acc d,
  wf_nalu n = true -> wf_units us = true -> 0 < Zlen P -> d = P ++ n ++ stream us ->
  (do r <- bs_events (enb_body d) (sc_positions (Zlen P + Zlen n) us) (Zlen P, acc); enb_finish d r)
  = Ok (rev acc ++ n :: map snd us).
Proof.
  induction us as [|[f n'] t IH]; intros P n acc d Hn Hus HP Hd.
  - cbn [sc_positions bs_events rbind enb_finish stream map]. replace (Zlen P <? 0) with false by lia.
    destruct (wf_nalu_parts n Hn) as [Hne _].
    cbn [stream] in Hd. rewrite app_nil_r in Hd.
    destruct (last_unit_facts P n d Hne Hd) as [L1 L2]. rewrite L1. cbn [rbind rev]. reflexivity.
  - destruct (wf_units_cons f n' t Hus) as [Hn' [Hne' Ht]].
    cbn [stream] in Hd.
    destruct (event_facts P n f n' (stream t) d Hn Hne' Hd) as [E1 [E2 [E3 [E4 [E5 [E6 E7]]]]]].
    pose proof (Zlen_nonneg n) as Hn0. assert (Hsc3 : 3 <= sclen f) by (destruct f; cbn [sclen]; lia).
    cbn [sc_positions bs_events]. unfold enb_body at 1. replace (Zlen P >? 0) with true by lia.
    rewrite E1. cbn [rbind]. rewrite E2. cbn [rbind]. rewrite E6.
    replace (Zlen P + Zlen n + sclen f + Zlen n') with (Zlen (P ++ n ++ start_code f) + Zlen n') by lia.
    rewrite (IH (P ++ n ++ start_code f) n' (n :: acc) d Hn' Ht) by (try exact E7; lia).
    cbn [rev map snd]. rewrite <- app_assoc. reflexivity.
Qed.

Lemma enb_stream us : wf_units us = true ->
  extract_nalus_from_byte_stream (stream us) = Ok (map snd us).
Proof.
  intros Hwf. destruct us as [|[f n] t]; [reflexivity|].
  destruct (wf_units_cons f n t Hwf) as [Hn [Hne Ht]].
  unfold extract_nalus_from_byte_stream. rewrite bs_loop_stream by exact Hwf.
  cbn [sc_positions bs_events]. unfold enb_body at 1. cbn [Z.gtb Z.compare rbind].
  replace (0 + sclen f - 3 + 3) with (Zlen (start_code f)) by (rewrite Zlen_sc; lia).
  replace (0 + sclen f + Zlen n) with (Zlen (start_code f) + Zlen n) by (rewrite Zlen_sc; lia).
  rewrite (enb_events_spec t (start_code f) n [] (stream ((f, n) :: t)) Hn Ht)
    by (try reflexivity; rewrite Zlen_sc; destruct f; cbn [sclen]; lia).
  reflexivity.
Qed.

(* ---------- GetFirstAVCVideoNALUFromByteStream ---------- *)
Lemma gfv_events_spec : forall us P n d,
  wf_nalu n = true -> wf_units us = true -> 0 < Zlen P -> d = P ++ n ++ stream us ->
  (do r <- bs_events (gfv_body d) (sc_positions (Zlen P + Zlen n) us) (Zlen P); gfv_finish d r)
  = Ok (first_video avc_type avc_is_video (n :: map snd us)).
Proof.
  induction us as [|[f n'] t IH]; intros P n d Hn Hus HP Hd.
  - cbn [sc_positions bs_events rbind gfv_finish stream map first_video]. replace (Zlen P >? 0) with true by lia.
    destruct (wf_nalu_parts n Hn) as [Hne _].
    cbn [stream] in Hd. rewrite app_nil_r in Hd.
    destruct (last_unit_facts P n d Hne Hd) as [L1 L2]. rewrite L2. cbn [rbind].
    fold (utype avc_type n). destruct (avc_is_video (utype avc_type n)); [exact L1|reflexivity].
  - destruct (wf_units_cons f n' t Hus) as [Hn' [Hne' Ht]].
    cbn [stream] in Hd.
    destruct (event_facts P n f n' (stream t) d Hn Hne' Hd) as [E1 [E2 [E3 [E4 [E5 [E6 E7]]]]]].
    pose proof (Zlen_nonneg n) as Hn0. assert (Hsc3 : 3 <= sclen f) by (destruct f; cbn [sclen]; lia).
    cbn [sc_positions bs_events]. unfold gfv_body at 1. replace (Zlen P >? 0) with true by lia.
    rewrite E1. cbn [rbind]. rewrite E3. cbn [rbind]. fold (utype avc_type n).
    cbn [map snd first_video].
    destruct (avc_is_video (utype avc_type n)); cbn [rbind gfv_finish].
    + replace (Zlen P =? 0) with false by lia. exact E2.
    + rewrite E6.
      replace (Zlen P + Zlen n + sclen f + Zlen n') with (Zlen (P ++ n ++ start_code f) + Zlen n') by lia.
      exact (IH (P ++ n ++ start_code f) n' d Hn' Ht ltac:(lia) E7).
Qed.

Lemma gfv_stream us : wf_units us = true ->
  avc_get_first_video_nalu (stream us) = Ok (first_video avc_type avc_is_video (map snd us)).
Proof.
  intros Hwf. destruct us as [|[f n] t]; [reflexivity|].
  destruct (wf_units_cons f n t Hwf) as [Hn [Hne Ht]].
  unfold avc_get_first_video_nalu. rewrite bs_loop_stream by exact Hwf.
  cbn [sc_positions bs_events]. unfold gfv_body at 1. cbn [Z.gtb Z.compare rbind].
  replace (0 + sclen f - 3 + 3) with (Zlen (start_code f)) by (rewrite Zlen_sc; lia).
  replace (0 + sclen f + Zlen n) with (Zlen (start_code f) + Zlen n) by (rewrite Zlen_sc; lia).
  exact (gfv_events_spec t (start_code f) n (stream ((f, n) :: t)) Hn Ht
           ltac:(rewrite Zlen_sc; destruct f; cbn [sclen]; lia) eq_refl).
Qed.

(* ---------- ExtractNalusOfTypeFromByteStream ---------- *)
Definition sel_units (ty : N -> N) (vlim : N) (stop : bool) (ns : list (list N)) : list (list N) :=
  if stop then before_video ty (fun t => (t <? vlim)%N) ns else ns.

Lemma sel_units_cons ty vlim stop n t :
  stop && (utype ty n <? vlim)%N = false ->
  sel_units ty vlim stop (n :: t) = n :: sel_units ty vlim stop t.
Proof.
  unfold sel_units. destruct stop; [|reflexivity]. cbn [andb before_video]. intros ->. reflexivity.
Qed.

Lemma enot_events_spec ty vlim want stop : forall us P n acc d,
  wf_nalu n = true -> wf_units us = true -> 0 < Zlen P -> d = P ++ n ++ stream us ->
  stop && (utype ty n <? vlim)%N = false ->
  (do r <- bs_events (enot_body ty vlim want stop d) (sc_positions (Zlen P + Zlen n) us) (Zlen P, acc);
   enot_finish ty want d r)
  = Ok (rev acc ++ of_type ty want (sel_units ty vlim stop (n :: map snd us))).
Proof.
  induction us as [|[f n'] t IH]; intros P n acc d Hn Hus HP Hd Hnv.
  - cbn [sc_positions bs_events rbind enot_finish stream map]. replace (Zlen P <? 0) with false by lia.
    destruct (wf_nalu_parts n Hn) as [Hne _].
    cbn [stream] in Hd. rewrite app_nil_r in Hd.
    destruct (last_unit_facts P n d Hne Hd) as [L1 L2]. rewrite L2. cbn [rbind]. fold (utype ty n).
    rewrite sel_units_cons by exact Hnv.
    replace (sel_units ty vlim stop []) with (@nil (list N)) by (destruct stop; reflexivity).
    cbn [of_type filter]. destruct (N.eqb (utype ty n) want).
    + rewrite L1. cbn [rbind rev]. reflexivity.
    + rewrite app_nil_r. reflexivity.
  - destruct (wf_units_cons f n' t Hus) as [Hn' [Hne' Ht]].
    cbn [stream] in Hd.
    destruct (event_facts P n f n' (stream t) d Hn Hne' Hd) as [E1 [E2 [E3 [E4 [E5 [E6 E7]]]]]].
    pose proof (Zlen_nonneg n) as Hn0. assert (Hsc3 : 3 <= sclen f) by (destruct f; cbn [sclen]; lia).
    cbn [sc_positions bs_events]. unfold enot_body at 1. replace (Zlen P >? 0) with true by lia.
    rewrite E1. cbn [rbind]. rewrite E3. cbn [rbind]. fold (utype ty n).
    rewrite E5, E4. cbn [rbind]. fold (utype ty n').
    cbn [map snd]. rewrite (sel_units_cons ty vlim stop n) by exact Hnv.
    cbn [of_type filter]. fold (of_type ty want (sel_units ty vlim stop (n' :: map snd t))).
    assert (Hacc : forall acc',
      (if stop && (utype ty n' <? vlim)%N
       then Ok (inr acc')
       else Ok (inl (Zlen P + Zlen n + sclen f - 3 + 3, acc')) : res ((Z * list (list N)) + list (list N)))
      = (if stop && (utype ty n' <? vlim)%N then Ok (inr acc')
         else Ok (inl (Zlen (P ++ n ++ start_code f), acc')))) by (intros; rewrite E6; reflexivity).
    assert (Hstep : forall acc',
      (do r <- (do r0 <- (if stop && (utype ty n' <? vlim)%N then Ok (inr acc')
                          else Ok (inl (Zlen (P ++ n ++ start_code f), acc')) : res ((Z * list (list N)) + list (list N)));
                match r0 with
                | inl st' => bs_events (enot_body ty vlim want stop d)
                               (sc_positions (Zlen P + Zlen n + sclen f + Zlen n') t) st'
                | inr x => Ok (inr x)
                end);
       enot_finish ty want d r)
      = Ok (rev acc' ++ of_type ty want (sel_units ty vlim stop (n' :: map snd t)))).
    { intros acc'. destruct (stop && (utype ty n' <? vlim)%N) eqn:Ev; cbn [rbind enot_finish].
      - (* the next unit is a video unit and stopAtVideo: return *)
        destruct stop; [|discriminate]. cbn [andb] in Ev.
        unfold sel_units. cbn [before_video]. rewrite Ev. cbn [of_type filter]. rewrite app_nil_r. reflexivity.
      - replace (Zlen P + Zlen n + sclen f + Zlen n') with (Zlen (P ++ n ++ start_code f) + Zlen n') by lia.
        exact (IH (P ++ n ++ start_code f) n' acc' d Hn' Ht ltac:(lia) E7 Ev). }
    destruct (N.eqb (utype ty n) want).
    + rewrite E2. cbn [rbind]. rewrite Hacc, Hstep. cbn [rev]. rewrite <- app_assoc. reflexivity.
    + cbn [rbind]. rewrite Hacc, Hstep. reflexivity.
Qed.

Lemma enot_stream ty vlim want stop us : wf_units us = true ->
  extract_nalus_of_type ty vlim want stop (stream us)
  = Ok (of_type ty want (sel_units ty vlim stop (map snd us))).
Proof.
  intros Hwf. destruct us as [|[f n] t].
  - unfold sel_units. destruct stop; reflexivity.
  - destruct (wf_units_cons f n t Hwf) as [Hn [Hne Ht]].
    unfold extract_nalus_of_type. rewrite bs_loop_stream by exact Hwf.
    cbn [sc_positions bs_events]. unfold enot_body at 1. cbn [Z.gtb Z.compare rbind].
    assert (Hsc3 : 3 <= sclen f) by (destruct f; cbn [sclen]; lia).
    assert (Hd : stream ((f, n) :: t) = start_code f ++ n ++ stream t) by reflexivity.
    assert (Hlt : (0 + sclen f - 3 + 3 <? Zlen (stream ((f, n) :: t))) = true).
    { rewrite Hd, !Zlen_app, Zlen_sc. destruct n as [|x n0]; [congruence|]. rewrite Zlen_cons.
      pose proof (Zlen_nonneg n0). pose proof (Zlen_nonneg (stream t)). lia. }
    rewrite Hlt.
    assert (Hh : getb (stream ((f, n) :: t)) (0 + sclen f - 3 + 3) = Ok (hd0 n)).
    { rewrite Hd. replace (0 + sclen f - 3 + 3) with (Zlen (start_code f)) by (rewrite Zlen_sc; lia).
      destruct n as [|x n0]; [congruence|]. cbn [hd0 hd app]. apply getb_mid. }
    rewrite Hh. cbn [rbind]. fold (utype ty n). cbn [map snd].
    destruct (stop && (utype ty n <? vlim)%N) eqn:Ev; cbn [rbind enot_finish].
    + destruct stop; [|discriminate]. cbn [andb] in Ev.
      unfold sel_units. cbn [before_video]. rewrite Ev. reflexivity.
    + replace (0 + sclen f - 3 + 3) with (Zlen (start_code f)) by (rewrite Zlen_sc; lia).
      replace (0 + sclen f + Zlen n) with (Zlen (start_code f) + Zlen n) by (rewrite Zlen_sc; lia).
      exact (enot_events_spec ty vlim want stop t (start_code f) n [] (stream ((f, n) :: t)) Hn Ht
               ltac:(rewrite Zlen_sc; lia) Hd Ev).
Qed.

(* ---------- GetParameterSetsFromByteStream ---------- *)
Section Gpsb.
  Variables (ty cls : N -> N) (vlim : N).
  (* the stop test of the byte-stream loop is the video class of the sample walker *)
  Hypothesis Hv : forall t, (t <? vlim)%N = N.eqb (cls t) 3.

  Lemma le2_not3 c : (c <=? 2)%N = true -> N.eqb c 3 = false.
  Proof. intros H. apply N.eqb_neq. apply N.leb_le in H. lia. Qed.

  Lemma gpsb_events_spec : forall us P n acc d,
    wf_nalu n = true -> wf_units us = true -> 0 < Zlen P -> d = P ++ n ++ stream us ->
    N.eqb (cls (utype ty n)) 3 = false ->
    (do r <- bs_events (gpsb_body ty cls vlim d) (sc_positions (Zlen P + Zlen n) us) (Zlen P, acc);
     gpsb_finish ty cls d r)
    = Ok (gps_fold ty cls (n :: map snd us) acc).
  Proof.
    induction us as [|[f n'] t IH]; intros P n acc d Hn Hus HP Hd Hnv.
    - cbn [sc_positions bs_events rbind gpsb_finish stream map gps_fold]. replace (Zlen P >? 0) with true by lia.
      destruct (wf_nalu_parts n Hn) as [Hne _].
      cbn [stream] in Hd. rewrite app_nil_r in Hd.
      destruct (last_unit_facts P n d Hne Hd) as [L1 L2]. rewrite L2. cbn [rbind]. fold (utype ty n).
      rewrite Hnv. destruct (cls (utype ty n) <=? 2)%N.
      + rewrite L1. cbn [rbind]. reflexivity.
      + cbn [rbind]. reflexivity.
    - destruct (wf_units_cons f n' t Hus) as [Hn' [Hne' Ht]].
      cbn [stream] in Hd.
      destruct (event_facts P n f n' (stream t) d Hn Hne' Hd) as [E1 [E2 [E3 [E4 [E5 [E6 E7]]]]]].
      pose proof (Zlen_nonneg n) as Hn0. assert (Hsc3 : 3 <= sclen f) by (destruct f; cbn [sclen]; lia).
      cbn [sc_positions bs_events]. unfold gpsb_body at 1. replace (Zlen P >? 0) with true by lia.
      rewrite E1. cbn [rbind]. rewrite E3. cbn [rbind]. fold (utype ty n).
      rewrite E4. fold (utype ty n').
      cbn [map snd]. cbn [gps_fold]. rewrite Hnv.
      assert (Hstep : forall acc',
        (do r <- (do r0 <- (do h <- Ok (hd0 n');
                            if (ty h <? vlim)%N then Ok (inr acc')
                            else Ok (inl (Zlen P + Zlen n + sclen f - 3 + 3, acc')) : res ((Z * ps3) + ps3));
                  match r0 with
                  | inl st' => bs_events (gpsb_body ty cls vlim d)
                                 (sc_positions (Zlen P + Zlen n + sclen f + Zlen n') t) st'
                  | inr x => Ok (inr x)
                  end);
         gpsb_finish ty cls d r)
        = Ok (gps_fold ty cls (n' :: map snd t) acc')).
      { intros acc'. cbn [rbind]. fold (utype ty n'). rewrite Hv.
        destruct (N.eqb (cls (utype ty n')) 3) eqn:Ev; cbn [rbind gpsb_finish].
        - cbn [gps_fold]. rewrite Ev.
          destruct (cls (utype ty n') <=? 2)%N eqn:E2'; [|reflexivity].
          apply le2_not3 in E2'. congruence.
        - rewrite E6.
          replace (Zlen P + Zlen n + sclen f + Zlen n') with (Zlen (P ++ n ++ start_code f) + Zlen n') by lia.
          exact (IH (P ++ n ++ start_code f) n' acc' d Hn' Ht ltac:(lia) E7 Ev). }
      destruct (cls (utype ty n) <=? 2)%N.
      + rewrite E2. cbn [rbind]. apply Hstep.
      + cbn [rbind]. apply Hstep.
  Qed.

  Lemma gpsb_stream us : wf_units us = true ->
    get_parameter_sets_from_byte_stream ty cls vlim (stream us) = Ok (gps_fold ty cls (map snd us) ([], [], [])).
  Proof.
    intros Hwf. destruct us as [|[f n] t]; [reflexivity|].
    destruct (wf_units_cons f n t Hwf) as [Hn [Hne Ht]].
    unfold get_parameter_sets_from_byte_stream. rewrite bs_loop_stream by exact Hwf.
    cbn [sc_positions bs_events]. unfold gpsb_body at 1. cbn [Z.gtb Z.compare rbind].
    assert (Hsc3 : 3 <= sclen f) by (destruct f; cbn [sclen]; lia).
    assert (Hd : stream ((f, n) :: t) = start_code f ++ n ++ stream t) by reflexivity.
    assert (Hh : getb (stream ((f, n) :: t)) (0 + sclen f - 3 + 3) = Ok (hd0 n)).
    { rewrite Hd. replace (0 + sclen f - 3 + 3) with (Zlen (start_code f)) by (rewrite Zlen_sc; lia).
      destruct n as [|x n0]; [congruence|]. cbn [hd0 hd app]. apply getb_mid. }
    rewrite Hh. cbn [rbind]. fold (utype ty n). cbn [map snd]. rewrite Hv.
    destruct (N.eqb (cls (utype ty n)) 3) eqn:Ev; cbn [rbind gpsb_finish].
    - cbn [gps_fold]. rewrite Ev.
      destruct (cls (utype ty n) <=? 2)%N eqn:E2'; [|reflexivity].
      apply le2_not3 in E2'. congruence.
    - replace (0 + sclen f - 3 + 3) with (Zlen (start_code f)) by (rewrite Zlen_sc; lia).
      replace (0 + sclen f + Zlen n) with (Zlen (start_code f) + Zlen n) by (rewrite Zlen_sc; lia).
      exact (gpsb_events_spec t (start_code f) n ([], [], []) (stream ((f, n) :: t)) Hn Ht
               ltac:(rewrite Zlen_sc; lia) Hd Ev).
  Qed.
End Gpsb.

Lemma avc_stop_is_class3 t : (t <? 6)%N = N.eqb (avc_ps_class t) 3.
Proof.
  unfold avc_ps_class, avc_is_video.
  destruct (N.eqb_spec t 7) as [->|H7]; [reflexivity|].
  destruct (N.eqb_spec t 8) as [->|H8]; [reflexivity|].
  destruct (N.leb_spec t 5); destruct (N.ltb_spec t 6); try lia; reflexivity.
Qed.

Lemma hevc_stop_is_class3 t : (t <? 32)%N = N.eqb (hevc_ps_class t) 3.
Proof.
  unfold hevc_ps_class, hevc_is_video.
  destruct (N.eqb_spec t 32) as [->|H2]; [reflexivity|].
  destruct (N.eqb_spec t 33) as [->|H3]; [reflexivity|].
  destruct (N.eqb_spec t 34) as [->|H4]; [reflexivity|].
  destruct (N.leb_spec t 31); destruct (N.ltb_spec t 32); try lia; reflexivity.
Qed.

Lemma before_video_ext ty (f g : N -> bool) ns : (forall t, f t = g t) ->
  before_video ty f ns = before_video ty g ns.
Proof.
  intros H. induction ns as [|n t IH]; [reflexivity|]. cbn [before_video]. rewrite H, IH. reflexivity.
Qed.

Lemma avc_lt6 t : (t <? 6)%N = avc_is_video t.
Proof. unfold avc_is_video. destruct (N.leb_spec t 5); destruct (N.ltb_spec t 6); try lia; reflexivity. Qed.
Lemma hevc_lt32 t : (t <? 32)%N = hevc_is_video t.
Proof. unfold hevc_is_video. destruct (N.leb_spec t 31); destruct (N.ltb_spec t 32); try lia; reflexivity. Qed.

(* ---------- assembled ---------- *)
Lemma helpers_stream us : wf_units us = true ->
  let ns := map snd us in
  extract_nalus_from_byte_stream (stream us) = Ok ns /\
  avc_get_first_video_nalu (stream us) = Ok (first_video avc_type avc_is_video ns) /\
  avc_get_parameter_sets_from_byte_stream (stream us) =
    Ok ([], of_type avc_type 7 (before_video avc_type avc_is_video ns),
            of_type avc_type 8 (before_video avc_type avc_is_video ns)) /\
  hevc_get_parameter_sets_from_byte_stream (stream us) =
    Ok (of_type hevc_type 32 (before_video hevc_type hevc_is_video ns),
        of_type hevc_type 33 (before_video hevc_type hevc_is_video ns),
        of_type hevc_type 34 (before_video hevc_type hevc_is_video ns)) /\
  (forall want stop, avc_extract_nalus_of_type want stop (stream us) =
     Ok (of_type avc_type want (if stop then before_video avc_type avc_is_video ns else ns))) /\
  (forall want stop, hevc_extract_nalus_of_type want stop (stream us) =
     Ok (of_type hevc_type want (if stop then before_video hevc_type hevc_is_video ns else ns))).
Proof.
  intros Hwf ns.
  split; [apply enb_stream; exact Hwf|].
  split; [apply gfv_stream; exact Hwf|].
  split.
  { unfold avc_get_parameter_sets_from_byte_stream.
    rewrite (gpsb_stream avc_type avc_ps_class 6%N avc_stop_is_class3 us Hwf).
    rewrite gps_fold_avc. reflexivity. }
  split.
  { unfold hevc_get_parameter_sets_from_byte_stream.
    rewrite (gpsb_stream hevc_type hevc_ps_class 32%N hevc_stop_is_class3 us Hwf).
    rewrite gps_fold_hevc. reflexivity. }
  split.
  - intros want stop. unfold avc_extract_nalus_of_type. rewrite enot_stream by exact Hwf.
    unfold sel_units. destruct stop; [|reflexivity].
    rewrite (before_video_ext avc_type _ avc_is_video) by apply avc_lt6. reflexivity.
  - intros want stop. unfold hevc_extract_nalus_of_type. rewrite enot_stream by exact Hwf.
    unfold sel_units. destruct stop; [|reflexivity].
    rewrite (before_video_ext hevc_type _ hevc_is_video) by apply hevc_lt32. reflexivity.
Qed.
