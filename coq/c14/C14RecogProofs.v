(* C14RecogProofs.v — the recognisers of C14RecogModel.v are exact (they accept precisely the streams /
   samples built from a non-empty list of well-formed units, and read back that very list), and the C14
   theorems restated over every BYTE STRING they accept. *)
From V.lib Require Import Base.
From V.c14 Require Import C14Spec C14Model C14HevcSpec C14HevcModel C14AvcModel C14RecogModel.
From V.c14 Require Import C14ScanProofs C14ConvProofs C14WalkProofs C14StreamProofs C14HevcProofs C14AvcProofs.
Local Open Scope Z_scope.

Lemma bytes_eqb_eq : forall a b, bytes_eqb a b = true -> a = b.
Proof.
  induction a as [|x a IH]; destruct b as [|y b]; cbn [bytes_eqb]; intros H; try discriminate; [reflexivity|].
  apply andb_prop in H. destruct H as [H1 H2]. apply N.eqb_eq in H1. subst y. f_equal. apply IH. exact H2.
Qed.

Lemma bytes_eqb_refl : forall a, bytes_eqb a a = true.
Proof. induction a as [|x a IH]; [reflexivity|]. cbn [bytes_eqb]. rewrite N.eqb_refl, IH. reflexivity. Qed.

Lemma sclen_eqb4 f : Z.eqb (sclen f) 4 = f.
Proof. destruct f; reflexivity. Qed.

Lemma Zlen_start_code f : Zlen (start_code f) = sclen f.
Proof. destruct f; reflexivity. Qed.

(* ---------- streams ---------- *)
Lemma cut_stream : forall t f n pos,
  cut f (n ++ stream t) pos (expected_scs (pos + Zlen n) t) = (f, n) :: t.
Proof.
  induction t as [|[f' n'] t IH]; intros f n pos.
  - cbn [stream expected_scs cut]. rewrite app_nil_r. reflexivity.
  - cbn [stream expected_scs cut].
    pose proof (Zlen_nonneg n) as Hn. pose proof (Zlen_start_code f') as Hsc.
    replace (pos + Zlen n + sclen f' - sclen f' - pos) with (Zlen n) by lia.
    rewrite to_nat_Zlen, firstn_len_app.
    replace (pos + Zlen n + sclen f' - pos) with (Zlen n + Zlen (start_code f')) by lia.
    assert (Hk : Z.to_nat (Zlen n + Zlen (start_code f')) = (length n + length (start_code f'))%nat)
      by (unfold Zlen; lia).
    rewrite Hk, skipn_len_app.
    rewrite <- (Nat.add_0_r (length (start_code f'))), skipn_len_app. cbn [skipn].
    rewrite sclen_eqb4.
    f_equal. apply IH.
Qed.

Lemma unstream_stream us : wf_units us = true -> unstream (stream us) = us.
Proof.
  intros Hwf. unfold unstream. rewrite nscan_stream by exact Hwf.
  destruct us as [|[f n] t]; [reflexivity|].
  cbn [expected_scs stream]. rewrite sclen_eqb4.
  replace (0 + sclen f) with (Zlen (start_code f)) by (rewrite Zlen_start_code; lia).
  rewrite to_nat_Zlen, skipn_len_app0.
  apply cut_stream.
Qed.

Lemma wf_stream_sound d : wf_stream d = true ->
  unstream d <> [] /\ wf_units (unstream d) = true /\ stream (unstream d) = d.
Proof.
  unfold wf_stream. destruct (unstream d) as [|u us] eqn:E; [discriminate|].
  intros H. apply andb_prop in H. destruct H as [H1 H2].
  split; [discriminate|]. split; [exact H1|]. apply bytes_eqb_eq. exact H2.
Qed.

Lemma wf_stream_complete us : us <> [] -> wf_units us = true -> wf_stream (stream us) = true.
Proof.
  intros Hne Hwf. unfold wf_stream. rewrite unstream_stream by exact Hwf.
  destruct us as [|u t]; [congruence|]. rewrite Hwf, bytes_eqb_refl. reflexivity.
Qed.

Lemma wf_stream_iff d :
  wf_stream d = true <-> exists us, us <> [] /\ wf_units us = true /\ stream us = d.
Proof.
  split.
  - intros H. exists (unstream d). apply wf_stream_sound. exact H.
  - intros [us [Hne [Hwf Hs]]]. subst d. apply wf_stream_complete; assumption.
Qed.

(* two well-formed unit lists (start-code lengths included) with the same stream are the same list *)
Lemma stream_injective us vs : wf_units us = true -> wf_units vs = true -> stream us = stream vs -> us = vs.
Proof.
  intros Hu Hv E. rewrite <- (unstream_stream us Hu), <- (unstream_stream vs Hv), E. reflexivity.
Qed.

Lemma fit_units_eq us : fit_units us = units_fit us.
Proof. reflexivity. Qed.

Definition stream_claims (d : list N) (us : list (bool * list N)) : Prop :=
  let ns := map snd us in
  get_start_code_positions d = Ok (expected_scs 0 us, min_sc_len (expected_scs 0 us)) /\
  naive_scan d = expected_scs 0 us /\
  (fit_units us = true ->
     to_nalu_sample d = Ok (sample ns) /\
     (do s <- to_nalu_sample d; to_byte_stream s) = Ok (stream4 ns)) /\
  extract_nalus_from_byte_stream d = Ok ns /\
  avc_get_first_video_nalu d = Ok (first_video avc_type avc_is_video ns) /\
  avc_GetParameterSetsFromByteStream d =
    Ok (of_type avc_type 7 (before_video avc_type avc_is_video ns),
        of_type avc_type 8 (before_video avc_type avc_is_video ns)) /\
  (forall want stop, avc_extract_nalus_of_type want stop d =
     Ok (of_type avc_type want (if stop then before_video avc_type avc_is_video ns else ns))) /\
  (hevc_stream_units us = true ->
     hevc_GetParameterSetsFromByteStream d =
       Ok (u_of_type hevc_unit_type 32 (u_before_video hevc_unit_type hevc_vcl ns),
           u_of_type hevc_unit_type 33 (u_before_video hevc_unit_type hevc_vcl ns),
           u_of_type hevc_unit_type 34 (u_before_video hevc_unit_type hevc_vcl ns)) /\
     (forall want stop, hevc_ExtractNalusOfTypeFromByteStream want d stop =
        Ok (u_of_type hevc_unit_type want (if stop then u_before_video hevc_unit_type hevc_vcl ns else ns)))).

Lemma stream_claims_units us : wf_units us = true -> stream_claims (stream us) us.
Proof.
  intros Hwf. unfold stream_claims. cbv zeta.
  destruct (helpers_stream us Hwf) as (Henb & Hgfv & _ & _ & Henot & _).
  split; [apply scan_stream; exact Hwf|].
  split; [rewrite <- nscan_naive; apply nscan_stream; exact Hwf|].
  split; [intros Hfit; split; [apply to_sample_spec|apply roundtrip_spec]; assumption|].
  split; [exact Henb|]. split; [exact Hgfv|].
  split; [apply avc_gpsb_full_stream; exact Hwf|].
  split; [exact Henot|].
  intros Hh. destruct (helpers_hevc_own_stream us Hh) as (_ & Hg & He). split; [exact Hg|exact He].
Qed.

Lemma stream_bytes d : wf_stream d = true ->
  unstream d <> [] /\ wf_units (unstream d) = true /\ stream (unstream d) = d /\
  stream_claims d (unstream d).
Proof.
  intros H. destruct (wf_stream_sound d H) as (Hne & Hwf & Hs).
  split; [exact Hne|]. split; [exact Hwf|]. split; [exact Hs|].
  rewrite <- Hs at 1. apply stream_claims_units. exact Hwf.
Qed.

(* ---------- samples ---------- *)
Lemma unsample_step f n rest : fits32 n = true ->
  unsample_loop (S f) (be32 (lenN n) ++ n ++ rest) =
  match unsample_loop f rest with Some t => Some (n :: t) | None => None end.
Proof.
  intros Hfit.
  assert (Hlt : (lenN n < 4294967296)%N) by (unfold fits32, Zlen in Hfit; unfold lenN; lia).
  pose proof (be32_dec_be32 (lenN n) Hlt) as Hd. unfold be32_dec, be32 in Hd.
  unfold be32. cbn [app unsample_loop]. rewrite Hd.
  assert (Hk : Z.of_N (lenN n) = Zlen n) by (unfold lenN, Zlen; lia).
  rewrite Hk, Zlen_app.
  pose proof (Zlen_nonneg rest).
  replace (Zlen n <=? Zlen n + Zlen rest) with true by lia.
  rewrite to_nat_Zlen, skipn_len_app0, firstn_len_app. reflexivity.
Qed.

Lemma unsample_loop_sample : forall ns fuel, forallb fits32 ns = true -> (length ns < fuel)%nat ->
  unsample_loop fuel (sample ns) = Some ns.
Proof.
  induction ns as [|n t IH]; intros fuel Hfit Hf.
  - destruct fuel; [lia|]. reflexivity.
  - destruct fuel as [|f]; [cbn [length] in Hf; lia|].
    cbn [forallb] in Hfit. apply andb_prop in Hfit. destruct Hfit as [Hn Ht].
    cbn [sample]. rewrite unsample_step by exact Hn.
    rewrite IH by (try assumption; cbn [length] in Hf; lia). reflexivity.
Qed.

Lemma unsample_sample ns : forallb fits32 ns = true -> unsample (sample ns) = Some ns.
Proof.
  intros Hfit. unfold unsample. apply unsample_loop_sample; [exact Hfit|].
  pose proof (length_sample_ge ns). lia.
Qed.

Lemma walkable_fits ns : walkable ns = true -> forallb fits32 ns = true.
Proof.
  unfold walkable. induction ns as [|n t IH]; [reflexivity|]. cbn [forallb]. intros H.
  apply andb_prop in H. destruct H as [H1 H2]. apply andb_prop in H1. destruct H1 as [_ H1].
  rewrite H1, (IH H2). reflexivity.
Qed.

Lemma wf_sample_sound s : wf_sample s = true ->
  unsample s = Some (unsample_units s) /\ unsample_units s <> [] /\
  walkable (unsample_units s) = true /\ sample (unsample_units s) = s.
Proof.
  unfold wf_sample, unsample_units. destruct (unsample s) as [[|n t]|] eqn:E; try discriminate.
  intros H. apply andb_prop in H. destruct H as [H1 H2].
  split; [reflexivity|]. split; [discriminate|]. split; [exact H1|]. apply bytes_eqb_eq. exact H2.
Qed.

Lemma wf_sample_complete ns : ns <> [] -> walkable ns = true -> wf_sample (sample ns) = true.
Proof.
  intros Hne Hw. unfold wf_sample. rewrite unsample_sample by (apply walkable_fits; exact Hw).
  destruct ns as [|n t]; [congruence|]. rewrite Hw, bytes_eqb_refl. reflexivity.
Qed.

Lemma wf_sample_iff s :
  wf_sample s = true <-> exists ns, ns <> [] /\ walkable ns = true /\ sample ns = s.
Proof.
  split.
  - intros H. exists (unsample_units s). destruct (wf_sample_sound s H) as (_ & H1 & H2 & H3). auto.
  - intros [ns [Hne [Hw Hs]]]. subst s. apply wf_sample_complete; assumption.
Qed.

Lemma sample_injective ns ms :
  forallb fits32 ns = true -> forallb fits32 ms = true -> sample ns = sample ms -> ns = ms.
Proof.
  intros Hn Hm E. pose proof (unsample_sample ns Hn) as A. pose proof (unsample_sample ms Hm) as B.
  rewrite E in A. congruence.
Qed.

Definition sample_claims (s : list N) (ns : list (list N)) : Prop :=
  get_nalus_from_sample s = Ok ns /\
  to_byte_stream s = Ok (stream4 ns) /\
  avc_find_nalu_types s = Ok (map (utype avc_type) ns) /\
  avc_find_nalu_types_up_to_video s = Ok (types_upto avc_type avc_is_video ns) /\
  (forall want, avc_contains_nalu_type s want = Ok (has_type avc_type want ns)) /\
  avc_is_idr_sample s = Ok (has_type avc_type 5 ns) /\
  avc_has_parameter_sets s =
    Ok (existsb (fun t => N.eqb t 7) (types_upto avc_type avc_is_video ns)
        && existsb (fun t => N.eqb t 8) (types_upto avc_type avc_is_video ns)) /\
  avc_get_parameter_sets s =
    Ok ([], of_type avc_type 7 (before_video avc_type avc_is_video ns),
            of_type avc_type 8 (before_video avc_type avc_is_video ns)) /\
  (hevc_units ns = true ->
     let ut := hevc_unit_type in
     hevc_FindNaluTypes s = Ok (u_types ut ns) /\
     hevc_FindNaluTypesUpToFirstVideoNalu s = Ok (u_types_upto ut hevc_vcl ns) /\
     (forall want, hevc_ContainsNaluType s want = Ok (u_has ut (fun t => N.eqb t want) ns)) /\
     hevc_IsRAPSample s = Ok (u_has ut hevc_irap ns) /\
     hevc_IsIDRSample s = Ok (u_has ut hevc_idr ns) /\
     hevc_HasParameterSets s =
       Ok (existsb (fun t => N.eqb t 32) (u_types_upto ut hevc_vcl ns)
           && existsb (fun t => N.eqb t 33) (u_types_upto ut hevc_vcl ns)
           && existsb (fun t => N.eqb t 34) (u_types_upto ut hevc_vcl ns)) /\
     hevc_GetParameterSets s =
       Ok (u_of_type ut 32 (u_before_video ut hevc_vcl ns),
           u_of_type ut 33 (u_before_video ut hevc_vcl ns),
           u_of_type ut 34 (u_before_video ut hevc_vcl ns))).

Lemma sample_claims_units ns : ns <> [] -> walkable ns = true -> sample_claims (sample ns) ns.
Proof.
  intros Hne Hw. unfold sample_claims.
  destruct (helpers_avc_sample ns Hw) as (H1 & H2 & H3 & H4 & H5 & H6 & H7).
  split; [apply H1; exact Hne|].
  split; [apply to_stream_spec, walkable_fits; exact Hw|].
  split; [exact H2|]. split; [exact H3|]. split; [exact H4|]. split; [exact H5|]. split; [exact H6|].
  split; [exact H7|].
  intros Hh. destruct (helpers_hevc_own_sample ns Hh) as (_ & G).
  exact G.
Qed.

Lemma sample_bytes s : wf_sample s = true ->
  unsample_units s <> [] /\ walkable (unsample_units s) = true /\ sample (unsample_units s) = s /\
  sample_claims s (unsample_units s).
Proof.
  intros H. destruct (wf_sample_sound s H) as (_ & Hne & Hw & Hs).
  split; [exact Hne|]. split; [exact Hw|]. split; [exact Hs|].
  rewrite <- Hs at 1. apply sample_claims_units; assumption.
Qed.

(* ---------- streams shorter than 4 GiB: every unit fits its length field ---------- *)
Lemma unit_le_stream : forall us u, In u us -> Zlen (snd u) <= Zlen (stream us).
Proof.
  induction us as [|[f n] t IH]; intros u Hin; [destruct Hin|].
  cbn [stream]. rewrite !Zlen_app. pose proof (Zlen_nonneg (start_code f)). pose proof (Zlen_nonneg n).
  pose proof (Zlen_nonneg (stream t)).
  destruct Hin as [<- | Hin]; [cbn [snd]; lia|]. specialize (IH u Hin). lia.
Qed.

Lemma fit_units_short us : Zlen (stream us) < 4294967296 -> fit_units us = true.
Proof.
  intros Hlt. unfold fit_units. apply forallb_forall. intros u Hin. unfold fits32.
  pose proof (unit_le_stream us u Hin). lia.
Qed.

Lemma stream_bytes_short d : wf_stream d = true -> Zlen d < 4294967296 ->
  to_nalu_sample d = Ok (sample (map snd (unstream d))) /\
  (do s <- to_nalu_sample d; to_byte_stream s) = Ok (stream4 (map snd (unstream d))).
Proof.
  intros H Hlt. destruct (stream_bytes d H) as (_ & _ & Hs & _ & _ & Hc & _).
  apply Hc. apply fit_units_short. rewrite Hs. exact Hlt.
Qed.
