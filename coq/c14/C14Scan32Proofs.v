(* C14Scan32Proofs.v — the 32-bit compilation of the scanner (C14Scan32Model.v) returns the byte-by-byte scan
   on every byte string, hence the same start codes as the 64-bit compilation; the zero-byte test on a 4-byte
   word.  The proofs follow C14ScanProofs.v with the word size 4. *)
From V.lib Require Import Base.
From V.c14 Require Import C14Spec C14Model C14Scan32Model C14WordProofs C14ScanProofs.
Local Open Scope Z_scope.

Lemma has_zero_byte32_hz_gen x : has_zero_byte32 x = negb (N.eqb (hz_gen 4 x) 0).
Proof.
  assert (E1 : (256 ^ N.of_nat 4 = two32)%N) by (vm_compute; reflexivity).
  assert (E2 : rep_word 1 4 = magic_left32) by (vm_compute; reflexivity).
  assert (E3 : rep_word 255 4 = N.ones 32) by (vm_compute; reflexivity).
  assert (E4 : rep_word 128 4 = magic_right32) by (vm_compute; reflexivity).
  unfold has_zero_byte32, hz_gen. rewrite E1, E2, E3, E4. reflexivity.
Qed.

Lemma has_zero_byte32_le bs :
  length bs = 4%nat -> bytes_ok bs = true -> has_zero_byte32 (word_le bs) = existsb is0 bs.
Proof.
  intros Hl Hok. rewrite has_zero_byte32_hz_gen, <- Hl, hz_gen_correct by exact Hok.
  apply negb_involutive.
Qed.

Lemma has_zero_byte32_be bs :
  length bs = 4%nat -> bytes_ok bs = true -> has_zero_byte32 (word_be bs) = existsb is0 bs.
Proof.
  intros Hl Hok. unfold word_be. rewrite has_zero_byte32_le.
  - apply existsb_rev.
  - rewrite rev_length. exact Hl.
  - unfold bytes_ok in *. rewrite forallb_forall in *. intros x Hx. apply Hok. apply in_rev. exact Hx.
Qed.

(* ---------- inner loop: the two odd offsets of one word cover its four positions ---------- *)
Lemma inner32_step f l i j st : j < i + 4 -> 1 <= j -> j + 3 < Zlen l ->
  inner_loop32 (S f) l i j st = inner_loop32 f l i (j + 2) (pushes st (scs l (j - 1) ++ scs l j)).
Proof.
  intros Hj H1 H2. cbn [inner_loop32]. replace (j <? i + 4) with true by lia.
  destruct (probe_spec l j st H1 H2) as [r [Hr Hs]]. rewrite Hr. cbn [rbind]. rewrite Hs. reflexivity.
Qed.

Lemma inner32_end f l i j st : i + 4 <= j -> inner_loop32 (S f) l i j st = Ok st.
Proof. intros H. cbn [inner_loop32]. replace (j <? i + 4) with false by lia. reflexivity. Qed.

Lemma zrange4 i : zrange i 4 = [i; i + 1; i + 2; i + 3].
Proof. cbn [zrange]. repeat (f_equal; try lia). Qed.

Lemma inner32_spec l i st : 0 <= i -> i + 6 < Zlen l ->
  inner_loop32 4 l i (i + 1) st = Ok (pushes st (flat_map (scs l) (zrange i 4))).
Proof.
  intros H0 H1.
  rewrite inner32_step by lia. rewrite inner32_step by lia. rewrite inner32_end by lia.
  f_equal. rewrite zrange4. cbn [flat_map]. rewrite app_nil_r.
  rewrite <- !pushes_app. rewrite <- !app_assoc.
  replace (i + 1 - 1) with i by lia.
  replace (i + 1 + 2 - 1) with (i + 2) by lia. replace (i + 1 + 2) with (i + 3) by lia.
  reflexivity.
Qed.

Lemma read_word32_ok l i : 0 <= i -> i + 4 <= Zlen l ->
  read_word32 l i = Ok (word_le (firstn 4 (skipn (Z.to_nat i) l))).
Proof.
  intros H0 H1. unfold read_word32. rewrite getb_ok by lia. cbn [rbind]. unfold slice.
  replace ((0 <=? i) && (i <=? i + 4) && (i + 4 <=? Zlen l)) with true by lia.
  cbn [rbind]. replace (Z.to_nat (i + 4 - i)) with 4%nat by lia. reflexivity.
Qed.

Lemma no_zero_word32_no_sc l i :
  bytes_ok l = true -> 0 <= i -> i + 4 <= Zlen l ->
  has_zero_byte32 (word_le (firstn 4 (skipn (Z.to_nat i) l))) = false ->
  flat_map (scs l) (zrange i 4) = [].
Proof.
  intros Hok H0 H1 Hz.
  set (bs := firstn 4 (skipn (Z.to_nat i) l)) in *.
  assert (Hlen : length bs = 4%nat).
  { unfold bs. rewrite firstn_length, skipn_length. unfold Zlen in H1. lia. }
  rewrite has_zero_byte32_le in Hz by (try exact Hlen; apply bytes_ok_firstn, bytes_ok_skipn, Hok).
  assert (Hp : forall k, (k < 4)%nat -> is0 (zget l (i + Z.of_nat k)) = false).
  { intros k Hk. pose proof (existsb_nth is0 bs 2%N (n := k)) as E.
    rewrite Hlen in E. specialize (E Hk Hz).
    unfold bs in E. rewrite nth_firstn_lt, nth_skipn in E by exact Hk.
    unfold zget. replace (Z.to_nat (i + Z.of_nat k)) with (Z.to_nat i + k)%nat by lia. exact E. }
  apply flat_map_nil. intros p Hp'. rewrite zrange4 in Hp'.
  assert (Hk : exists k, (k < 4)%nat /\ p = i + Z.of_nat k).
  { cbn [In] in Hp'.
    destruct Hp' as [<-|[<-|[<-|[<-|[]]]]];
      [exists 0%nat|exists 1%nat|exists 2%nat|exists 3%nat]; split; lia. }
  destruct Hk as [k [Hk ->]].
  unfold scs, is_sc. rewrite (Hp k Hk). rewrite !andb_false_r. reflexivity.
Qed.

Lemma word32_spec fuel : forall l lim i st,
  bytes_ok l = true -> 0 <= i -> i mod 4 = 0 -> lim mod 4 = 0 -> lim <= Zlen l - 4 ->
  (Z.to_nat (lim - i) < fuel)%nat ->
  word_loop32 fuel l lim i st =
    Ok (Z.max i lim, pushes st (flat_map (scs l) (zrange i (Z.to_nat (Z.max i lim - i))))).
Proof.
  induction fuel as [|f IH]; intros l lim i st Hok H0 Hi Hlim Hle Hf; [lia|].
  cbn [word_loop32]. destruct (Z.ltb_spec i lim) as [Hlt|Hge].
  - assert (H4 : i + 4 <= lim) by lia.
    rewrite read_word32_ok by lia. cbn [rbind].
    assert (Hst : (if has_zero_byte32 (word_le (firstn 4 (skipn (Z.to_nat i) l)))
                   then inner_loop32 4 l i (i + 1) st else Ok st)
                  = Ok (pushes st (flat_map (scs l) (zrange i 4)))).
    { destruct (has_zero_byte32 _) eqn:Hz.
      - apply inner32_spec; lia.
      - rewrite (no_zero_word32_no_sc l i Hok) by (try lia; exact Hz). reflexivity. }
    rewrite Hst. cbn [rbind].
    rewrite IH by (try assumption; lia).
    f_equal. f_equal; [lia|].
    rewrite <- pushes_app, <- flat_map_app. f_equal. f_equal.
    replace (Z.to_nat (Z.max i lim - i)) with (4 + Z.to_nat (Z.max (i + 4) lim - (i + 4)))%nat by lia.
    rewrite zrange_app. f_equal.
  - f_equal. f_equal; [lia|]. replace (Z.to_nat (Z.max i lim - i)) with 0%nat by lia. reflexivity.
Qed.

Lemma scanner32_eq_naive l : bytes_ok l = true ->
  get_start_code_positions32 l = Ok (naive_scan l, min_sc_len (naive_scan l)).
Proof.
  intros Hok. unfold get_start_code_positions32.
  pose proof (Zlen_nonneg l) as Hn.
  rewrite Z.rem_mod_nonneg by lia.
  set (lim := Zlen l - Zlen l mod 4 - 4).
  rewrite (word32_spec _ l lim 0 ([], 4) Hok) by (unfold lim, Zlen; lia).
  cbn [rbind fst snd].
  set (W := Z.max 0 lim).
  rewrite tail_spec by (unfold W, lim, Zlen; lia).
  cbn [rbind].
  rewrite <- pushes_app, <- flat_map_app.
  replace (W - 0) with W by lia.
  set (A := (Z.to_nat W + Z.to_nat (Zlen l - 3 - W))%nat).
  assert (HA : (A <= length l)%nat) by (unfold A, W, lim, Zlen in *; lia).
  assert (Hr : zrange 0 (Z.to_nat W) ++ zrange W (Z.to_nat (Zlen l - 3 - W)) = zrange 0 A).
  { unfold A. rewrite zrange_app. f_equal. f_equal. unfold W. lia. }
  rewrite Hr.
  assert (Hnaive : flat_map (scs l) (zrange 0 A) = naive_scan l).
  { unfold naive_scan. replace (length l) with (A + (length l - A))%nat by lia.
    rewrite zrange_app, flat_map_app, (scs_beyond l (0 + Z.of_nat A)), app_nil_r; [reflexivity|].
    unfold A, W, lim, Zlen in *. lia. }
  rewrite Hnaive. rewrite pushes_spec. cbn [fst snd]. rewrite app_nil_r, rev_involutive.
  reflexivity.
Qed.

(* both compilations of the scanner and of the conversion built on it compute the same *)
Lemma platforms_agree l : bytes_ok l = true ->
  get_start_code_positions32 l = get_start_code_positions l /\ to_nalu_sample32 l = to_nalu_sample l.
Proof.
  intros Hok. assert (E : get_start_code_positions32 l = get_start_code_positions l)
    by (rewrite scanner32_eq_naive, scanner_eq_naive by exact Hok; reflexivity).
  split; [exact E|]. unfold to_nalu_sample32, to_nalu_sample. rewrite E. reflexivity.
Qed.
