(* C14AvcModel.v — avc.GetParameterSetsFromByteStream (avc/annexb.go:185) transcribed to its end, including
   what C14Model.avc_get_parameter_sets_from_byte_stream leaves out: the totSize bookkeeping and the final
   repacking of the parameter sets into one fresh backing array psData.  Definitions only; conventions as in
   C14Model.v / C14HevcModel.v (reversed accumulators for append, views into psData read at the end). *)
From V.lib Require Import Base.
From V.c14 Require Import C14Spec C14Model C14HevcModel.
Local Open Scope Z_scope.

(* avc.go:58  func GetNaluType(naluHeader byte) NaluType { return NaluType(naluHeader & 0x1f) } *)
Definition avc_GetNaluType (naluHeader : N) : N := N.land naluHeader 31.

Definition avc_ps : Type := (list (list N) * list (list N))%type.

(* the scanning loop; inl (currNaluStart, (spss, ppss), totSize) = ran to i = n-3, inr = videoFound, break *)
Fixpoint avc_gpsb_loop (fuel : nat) (data : list N) (n i currNaluStart : Z) (acc : avc_ps) (totSize : Z)
  : res ((Z * avc_ps * Z) + (avc_ps * Z)) :=
  match fuel with
  | O => OutOfFuel
  | S f =>
      if i <? n - 3 then
        do m <- hevc_sc_at data i;      (* data[i] == 0 && data[i+1] == 0 && data[i+2] == 1, same text *)
        if m then
          let '(spss, ppss) := acc in
          do at' <- (if currNaluStart >? 0 then
                       do currNaluEnd <- hevc_nalu_end data currNaluStart i;   (* same trimming loop text *)
                       do h <- getb data currNaluStart;
                       let naluType := avc_GetNaluType h in
                       if N.eqb naluType 7 then
                         do x <- slice data currNaluStart currNaluEnd;
                         Ok ((x :: spss, ppss), totSize + (currNaluEnd - currNaluStart))
                       else if N.eqb naluType 8 then
                         do x <- slice data currNaluStart currNaluEnd;
                         Ok ((spss, x :: ppss), totSize + (currNaluEnd - currNaluStart))
                       else Ok ((spss, ppss), totSize)
                     else Ok ((spss, ppss), totSize));
          let currNaluStart := i + 3 in
          do h <- getb data currNaluStart;
          let nextNaluType := avc_GetNaluType h in
          if (nextNaluType <? 6)%N then Ok (inr at')
          else avc_gpsb_loop f data n (i + 1) currNaluStart (fst at') (snd at')
        else avc_gpsb_loop f data n (i + 1) currNaluStart acc totSize
      else Ok (inl (currNaluStart, acc, totSize))
  end.

(* if currNaluStart > 0 && !videoFound { switch GetNaluType(data[currNaluStart]) { case NALU_SPS: ...; case NALU_PPS: ... } } *)
Definition avc_gpsb_finish (data : list N) (r : (Z * avc_ps * Z) + (avc_ps * Z)) : res (avc_ps * Z) :=
  match r with
  | inr ((spss, ppss), totSize) => Ok ((rev spss, rev ppss), totSize)
  | inl (currNaluStart, (spss, ppss), totSize) =>
      if currNaluStart >? 0 then
        do h <- getb data currNaluStart;
        let naluType := avc_GetNaluType h in
        let n := Zlen data in
        if N.eqb naluType 7 then
          do x <- slice data currNaluStart n; Ok ((rev (x :: spss), rev ppss), totSize + (n - currNaluStart))
        else if N.eqb naluType 8 then
          do x <- slice data currNaluStart n; Ok ((rev spss, rev (x :: ppss)), totSize + (n - currNaluStart))
        else Ok ((rev spss, rev ppss), totSize)
      else Ok ((rev spss, rev ppss), totSize)
  end.

(* psData := make([]byte, totSize); pos := 0; for i := range spss {...}; for i := range ppss {...}
   (the loop body is the text of the hevc one: hevc_repack_loop / hevc_views) *)
Definition avc_repack (ps : avc_ps) (totSize : Z) : res avc_ps :=
  let '(spss, ppss) := ps in
  if totSize <? 0 then Panic
  else
    let psData := repeat 0%N (Z.to_nat totSize) in
    do r1 <- hevc_repack_loop psData 0 spss [];
    do r2 <- hevc_repack_loop (fst (fst r1)) (snd (fst r1)) ppss [];
    let final := fst (fst r2) in
    do s <- hevc_views final (snd r1);
    do p <- hevc_views final (snd r2);
    Ok (s, p).

Definition avc_GetParameterSetsFromByteStream (data : list N) : res avc_ps :=
  do r <- avc_gpsb_loop (S (List.length data)) data (Zlen data) 0 (-1) ([], []) 0;
  do pt <- avc_gpsb_finish data r;
  avc_repack (fst pt) (snd pt).
