(* C14WordProofs.v — the zero-byte word trick equals "some byte is zero".
   Byte-wise borrow-chain induction over the bytes of the word; no sweep over 2^64 values. *)
From V.lib Require Import Base.
From V.c14 Require Import C14Spec C14Model.
Local Open Scope N_scope.

(* ---------- base-256 digit lemmas for the bitwise operations ---------- *)
Lemma testbit_split a x n : a < 256 ->
  N.testbit (a + 256 * x) n = if n <? 8 then N.testbit a n else N.testbit x (n - 8).
Proof.
  intros Ha. change 256 with (2 ^ 8) in *.
  destruct (N.ltb_spec n 8) as [Hn|Hn].
  - rewrite <- (N.mod_pow2_bits_low (a + 2 ^ 8 * x) 8 n) by exact Hn.
    f_equal. rewrite (N.mul_comm (2 ^ 8) x), N.mod_add by discriminate.
    apply N.mod_small. exact Ha.
  - replace n with ((n - 8) + 8) at 1 by lia.
    rewrite <- N.div_pow2_bits. f_equal.
    replace (a + 2 ^ 8 * x) with (x * 2 ^ 8 + a) by lia.
    rewrite N.div_add_l by discriminate. rewrite (N.div_small a) by exact Ha. lia.
Qed.

Lemma small_of_high_bits z : (forall n, 8 <= n -> N.testbit z n = false) -> z < 256.
Proof.
  intros H. assert (E : z mod 2 ^ 8 = z).
  { apply N.bits_inj. intros n. destruct (N.lt_ge_cases n 8) as [Hn|Hn].
    - apply N.mod_pow2_bits_low. exact Hn.
    - rewrite N.mod_pow2_bits_high by exact Hn. symmetry. apply H. exact Hn. }
  rewrite <- E. apply N.mod_lt. discriminate.
Qed.

Lemma high_bits_of_small a n : a < 256 -> 8 <= n -> N.testbit a n = false.
Proof.
  intros Ha Hn. rewrite <- (N.mod_small a (2 ^ 8)) by exact Ha.
  apply N.mod_pow2_bits_high. exact Hn.
Qed.

Lemma land_small a b : a < 256 -> N.land a b < 256.
Proof.
  intros Ha. apply small_of_high_bits. intros n Hn.
  rewrite N.land_spec, (high_bits_of_small a n Ha Hn). reflexivity.
Qed.

Lemma lxor_small a b : a < 256 -> b < 256 -> N.lxor a b < 256.
Proof.
  intros Ha Hb. apply small_of_high_bits. intros n Hn.
  rewrite N.lxor_spec, (high_bits_of_small a n Ha Hn), (high_bits_of_small b n Hb Hn). reflexivity.
Qed.

Lemma land_split a b x y : a < 256 -> b < 256 ->
  N.land (a + 256 * x) (b + 256 * y) = N.land a b + 256 * N.land x y.
Proof.
  intros Ha Hb. apply N.bits_inj. intros n.
  rewrite N.land_spec, !testbit_split by (try assumption; apply land_small; assumption).
  destruct (n <? 8); rewrite N.land_spec; reflexivity.
Qed.

Lemma lxor_split a b x y : a < 256 -> b < 256 ->
  N.lxor (a + 256 * x) (b + 256 * y) = N.lxor a b + 256 * N.lxor x y.
Proof.
  intros Ha Hb. apply N.bits_inj. intros n.
  rewrite N.lxor_spec, !testbit_split by (try assumption; apply lxor_small; assumption).
  destruct (n <? 8); rewrite N.lxor_spec; reflexivity.
Qed.

Lemma mod_split c y W : c < 256 -> 0 < W -> (c + 256 * y) mod (256 * W) = c + 256 * (y mod W).
Proof.
  intros Hc HW. rewrite N.mod_mul_r by lia.
  replace ((c + 256 * y) mod 256) with c by lia.
  replace ((c + 256 * y) / 256) with y by lia. reflexivity.
Qed.

(* ---------- the trick on an n-byte word ---------- *)
(* 0x01..01, 0x80..80, 0xff..ff with n bytes *)
Definition rep_word (v : N) (n : nat) : N := word_le (repeat v n).

Definition hz_gen (n : nat) (x : N) : N :=
  N.land (N.land ((x + 256 ^ N.of_nat n - rep_word 1 n) mod 256 ^ N.of_nat n)
                 (N.lxor x (rep_word 255 n)))
         (rep_word 128 n).

Lemma rep_word_S v n : rep_word v (S n) = v + 256 * rep_word v n.
Proof. reflexivity. Qed.

Lemma pow256_S n : 256 ^ N.of_nat (S n) = 256 * 256 ^ N.of_nat n.
Proof. rewrite Nat2N.inj_succ, N.pow_succ_r'. reflexivity. Qed.

Lemma pow256_pos n : 0 < 256 ^ N.of_nat n.
Proof. apply N.neq_0_lt_0, N.pow_nonzero. discriminate. Qed.

Lemma rep1_lt n : rep_word 1 n < 256 ^ N.of_nat n.
Proof.
  induction n as [|n IH].
  - cbn. lia.
  - rewrite rep_word_S, pow256_S. lia.
Qed.

(* for a non-zero byte b the low byte of (x - 0x01..) & ~x & 0x80.. vanishes *)
Lemma low_byte_clear_all :
  forallb (fun b => N.land (N.land (b - 1) (N.lxor b 255)) 128 =? 0) (map N.of_nat (seq 1 255)) = true.
Proof. vm_compute. reflexivity. Qed.

Lemma low_byte_clear b : 1 <= b -> b < 256 -> N.land (N.land (b - 1) (N.lxor b 255)) 128 = 0.
Proof.
  intros H1 H2. pose proof low_byte_clear_all as H. rewrite forallb_forall in H.
  apply N.eqb_eq. apply H. rewrite <- (N2Nat.id b). apply in_map. apply in_seq. lia.
Qed.

Lemma hz_gen_correct bs :
  bytes_ok bs = true -> (hz_gen (length bs) (word_le bs) =? 0) = negb (existsb is0 bs).
Proof.
  induction bs as [|b t IH]; intros Hok.
  - reflexivity.
  - rewrite bytes_ok_cons in Hok. apply andb_prop in Hok. destruct Hok as [Hb Ht].
    unfold byte_ok in Hb. apply N.ltb_lt in Hb.
    specialize (IH Ht).
    cbn [length existsb word_le]. unfold hz_gen in *.
    rewrite !rep_word_S, pow256_S.
    set (m := length t) in *. set (X := word_le t) in *.
    pose proof (rep1_lt m) as HO. pose proof (pow256_pos m) as HW.
    set (W := 256 ^ N.of_nat m) in *. set (O := rep_word 1 m) in *.
    rewrite lxor_split by (try exact Hb; lia).
    unfold is0 at 1. destruct (N.eqb_spec b 0) as [->|Hb0].
    + (* the lowest zero byte: bit 7 of its byte is set in the result *)
      replace (0 + 256 * X + 256 * W - (1 + 256 * O)) with (255 + 256 * (X + W - O - 1)) by lia.
      rewrite mod_split by lia.
      change (N.lxor 0 255) with 255.
      rewrite land_split by lia. rewrite land_split by (try lia; apply land_small; lia).
      change (N.land (N.land 255 255) 128) with 128.
      cbn [orb negb]. apply N.eqb_neq. lia.
    + (* non-zero byte: no borrow, its own byte contributes nothing *)
      replace (b + 256 * X + 256 * W - (1 + 256 * O)) with ((b - 1) + 256 * (X + W - O)) by lia.
      rewrite mod_split by lia.
      rewrite land_split by (try lia; apply lxor_small; lia).
      rewrite land_split by (try lia; apply land_small; lia).
      rewrite low_byte_clear by lia.
      cbn [orb]. rewrite <- IH.
      set (R := N.land _ (rep_word 128 m)).
      destruct (N.eqb_spec R 0) as [E|E]; [apply N.eqb_eq|apply N.eqb_neq]; lia.
Qed.

Lemma has_zero_byte_hz_gen x : has_zero_byte x = negb (hz_gen 8 x =? 0).
Proof.
  assert (E1 : 256 ^ N.of_nat 8 = two64) by (vm_compute; reflexivity).
  assert (E2 : rep_word 1 8 = magic_left) by (vm_compute; reflexivity).
  assert (E3 : rep_word 255 8 = N.ones 64) by (vm_compute; reflexivity).
  assert (E4 : rep_word 128 8 = magic_right) by (vm_compute; reflexivity).
  unfold has_zero_byte, hz_gen. rewrite E1, E2, E3, E4. reflexivity.
Qed.

(* the Go expression on the uint made of 8 bytes in memory order (little endian) *)
Lemma has_zero_byte_le bs :
  length bs = 8%nat -> bytes_ok bs = true -> has_zero_byte (word_le bs) = existsb is0 bs.
Proof.
  intros Hl Hok. rewrite has_zero_byte_hz_gen, <- Hl, hz_gen_correct by exact Hok.
  apply negb_involutive.
Qed.

Lemma existsb_rev {A} (f : A -> bool) l : existsb f (rev l) = existsb f l.
Proof.
  induction l as [|a t IH]; [reflexivity|].
  cbn [rev existsb]. rewrite existsb_app, IH. cbn [existsb]. rewrite orb_false_r. apply orb_comm.
Qed.

(* ... and for the big-endian load: the test is endianness agnostic *)
Lemma has_zero_byte_be bs :
  length bs = 8%nat -> bytes_ok bs = true -> has_zero_byte (word_be bs) = existsb is0 bs.
Proof.
  intros Hl Hok. unfold word_be. rewrite has_zero_byte_le.
  - apply existsb_rev.
  - rewrite rev_length. exact Hl.
  - unfold bytes_ok in *. rewrite forallb_forall in *. intros x Hx. apply Hok. apply in_rev. exact Hx.
Qed.
