(* C14WalkProofs.v — the length-field walkers of avc and hevc on `sample ns` return the obvious list
   functions of the unit list ns. *)
From V.lib Require Import Base.
From V.c14 Require Import C14Spec C14Model C14WordProofs C14ScanProofs C14ConvProofs.
Local Open Scope Z_scope.

Lemma getb_mid (P R : list N) x : getb (P ++ x :: R) (Zlen P) = Ok x.
Proof.
  pose proof (Zlen_nonneg P). pose proof (Zlen_nonneg R).
  rewrite getb_ok; [rewrite zget_app_0; reflexivity|lia|]. rewrite Zlen_app, Zlen_cons. lia.
Qed.

(* what every walker sees at the start of a unit *)
Lemma wf_len (P : list N) n R : Zlen (P ++ be32 (lenN n) ++ n ++ R) = Zlen P + 4 + Zlen n + Zlen R.
Proof. rewrite !Zlen_app, Zlen_be32. lia. Qed.

Lemma wf_slice_len (P : list N) n R : slice (P ++ be32 (lenN n) ++ n ++ R) (Zlen P) (Zlen P + 4) = Ok (be32 (lenN n)).
Proof. rewrite <- (Zlen_be32 (lenN n)). apply slice_mid. Qed.

Lemma wf_dec n : fits32 n = true -> be32_dec (be32 (lenN n)) = Zlen n.
Proof.
  intros Hfit. rewrite be32_dec_be32 by (unfold fits32, Zlen in Hfit; unfold lenN; lia). unfold lenN, Zlen. lia.
Qed.

Lemma wf_hdr (P : list N) x n' R :
  getb (P ++ be32 (lenN (x :: n')) ++ (x :: n') ++ R) (Zlen P + 4) = Ok x.
Proof.
  replace (P ++ be32 (lenN (x :: n')) ++ (x :: n') ++ R)
    with ((P ++ be32 (lenN (x :: n'))) ++ x :: (n' ++ R)) by (rewrite <- !app_assoc; reflexivity).
  assert (E : Zlen (P ++ be32 (lenN (x :: n'))) = Zlen P + 4) by (rewrite Zlen_app, Zlen_be32; reflexivity).
  rewrite <- E. apply getb_mid.
Qed.

Lemma wf_slice_unit (P : list N) n R :
  slice (P ++ be32 (lenN n) ++ n ++ R) (Zlen P + 4) (Zlen P + 4 + Zlen n) = Ok n.
Proof.
  replace (P ++ be32 (lenN n) ++ n ++ R) with ((P ++ be32 (lenN n)) ++ n ++ R) by (rewrite <- !app_assoc; reflexivity).
  assert (E : Zlen (P ++ be32 (lenN n)) = Zlen P + 4) by (rewrite Zlen_app, Zlen_be32; reflexivity).
  rewrite <- E. apply slice_mid.
Qed.

Lemma walk_facts (P : list N) n t :
  nonempty n && fits32 n = true ->
  (Zlen P <? Zlen (P ++ sample (n :: t)) - 4) = true /\
  slice (P ++ sample (n :: t)) (Zlen P) (Zlen P + 4) = Ok (be32 (lenN n)) /\
  be32_dec (be32 (lenN n)) = Zlen n /\
  getb (P ++ sample (n :: t)) (Zlen P + 4) = Ok (hd0 n) /\
  (Zlen n >? Zlen (P ++ sample (n :: t)) - (Zlen P + 4)) = false /\
  slice (P ++ sample (n :: t)) (Zlen P + 4) (Zlen P + 4 + Zlen n) = Ok n /\
  P ++ sample (n :: t) = (P ++ be32 (lenN n) ++ n) ++ sample t /\
  Zlen (P ++ be32 (lenN n) ++ n) = Zlen P + 4 + Zlen n.
Proof.
  intros H. apply andb_prop in H. destruct H as [Hne Hfit].
  pose proof (Zlen_nonneg P) as HP. pose proof (Zlen_nonneg (sample t)) as Ht.
  destruct n as [|x n']; [discriminate|].
  pose proof (Zlen_nonneg n') as Hn'. pose proof (Zlen_cons x n') as Hn.
  cbn [sample]. pose proof (wf_len P (x :: n') (sample t)) as HL.
  split; [lia|]. split; [apply wf_slice_len|]. split; [apply wf_dec; exact Hfit|].
  split; [apply wf_hdr|]. split; [lia|]. split; [apply wf_slice_unit|].
  split; [rewrite <- !app_assoc; reflexivity|].
  rewrite !Zlen_app, Zlen_be32. lia.
Qed.

Lemma walk_end (P : list N) : (Zlen P <? Zlen (P ++ sample []) - 4) = false.
Proof. cbn [sample]. rewrite app_nil_r. lia. Qed.

(* ---------- avc.GetNalusFromSample ---------- *)
Lemma gnfs_spec : forall ns fuel P acc,
  (length ns < fuel)%nat -> walkable ns = true ->
  gnfs_loop fuel (P ++ sample ns) (Zlen (P ++ sample ns)) (Zlen P) acc = Ok (rev acc ++ ns).
Proof.
  induction ns as [|n t IH]; intros fuel P acc Hf Hw; (destruct fuel as [|f]; [cbn [length] in Hf; lia|]).
  - cbn [gnfs_loop]. rewrite walk_end. rewrite app_nil_r. reflexivity.
  - cbn [walkable forallb] in Hw. apply andb_prop in Hw. destruct Hw as [Hn Hw].
    destruct (walk_facts P n t Hn) as [F1 [F2 [F3 [F4 [F5 [F6 [F7 F8]]]]]]].
    cbn [gnfs_loop]. rewrite F1, F2. cbn [rbind]. rewrite F3, F5, F6. cbn [rbind].
    rewrite <- F8. rewrite F7 at 1 2.
    rewrite IH by (try exact Hw; cbn [length] in Hf; lia).
    cbn [rev]. rewrite <- app_assoc. reflexivity.
Qed.

Lemma sample_len_ge4 n t : nonempty n && fits32 n = true -> (Zlen (sample (n :: t)) <? 4) = false.
Proof.
  intros H. destruct (walk_facts [] n t H) as [F1 _]. cbn [app] in F1.
  change (Zlen (@nil N)) with 0 in F1. lia.
Qed.

Lemma get_nalus_spec ns : ns <> [] -> walkable ns = true -> get_nalus_from_sample (sample ns) = Ok ns.
Proof.
  intros Hne Hw. unfold get_nalus_from_sample. destruct ns as [|n t]; [congruence|].
  assert (Hn : nonempty n && fits32 n = true).
  { cbn [walkable forallb] in Hw. apply andb_prop in Hw. exact (proj1 Hw). }
  rewrite (sample_len_ge4 n t Hn).
  pose proof (length_sample_ge (n :: t)) as Hl.
  exact (gnfs_spec (n :: t) (S (length (sample (n :: t)))) [] [] ltac:(lia) Hw).
Qed.

(* ---------- FindNaluTypes / FindNaluTypesUpToFirstVideoNALU ---------- *)
Definition walk_types (ty : N -> N) (stop : option (N -> bool)) (ns : list (list N)) : list N :=
  match stop with
  | None => map (utype ty) ns
  | Some isv => types_upto ty isv ns
  end.

Lemma walk_spec ty stop : forall ns fuel P acc,
  (length ns < fuel)%nat -> walkable ns = true ->
  walk_loop ty stop fuel (P ++ sample ns) (Zlen (P ++ sample ns)) (Zlen P) acc
  = Ok (rev acc ++ walk_types ty stop ns).
Proof.
  induction ns as [|n t IH]; intros fuel P acc Hf Hw; (destruct fuel as [|f]; [cbn [length] in Hf; lia|]).
  - cbn [walk_loop]. rewrite walk_end. destruct stop; cbn [walk_types map types_upto]; rewrite app_nil_r; reflexivity.
  - cbn [walkable forallb] in Hw. apply andb_prop in Hw. destruct Hw as [Hn Hw].
    destruct (walk_facts P n t Hn) as [F1 [F2 [F3 [F4 [F5 [F6 [F7 F8]]]]]]].
    cbn [walk_loop]. rewrite F1, F2. cbn [rbind]. rewrite F3, F4. cbn [rbind]. rewrite F5.
    fold (utype ty n).
    destruct stop as [isv|]; cbn [walk_types types_upto map].
    + destruct (isv (utype ty n)) eqn:Ev.
      * cbn [rev]. rewrite <- ?app_assoc. reflexivity.
      * rewrite <- F8. rewrite F7 at 1 2.
        rewrite IH by (try exact Hw; cbn [length] in Hf; lia).
        cbn [rev walk_types]. rewrite <- app_assoc. reflexivity.
    + rewrite <- F8. rewrite F7 at 1 2.
      rewrite IH by (try exact Hw; cbn [length] in Hf; lia).
      cbn [rev walk_types]. rewrite <- app_assoc. reflexivity.
Qed.

Lemma find_types_gen ty stop ns : walkable ns = true ->
  (if Zlen (sample ns) <? 4 then Ok [] else walk_loop ty stop (S (length (sample ns))) (sample ns) (Zlen (sample ns)) 0 [])
  = Ok (walk_types ty stop ns).
Proof.
  intros Hw. destruct ns as [|n t].
  - destruct stop; reflexivity.
  - assert (Hn : nonempty n && fits32 n = true).
    { cbn [walkable forallb] in Hw. apply andb_prop in Hw. exact (proj1 Hw). }
    rewrite (sample_len_ge4 n t Hn).
    pose proof (length_sample_ge (n :: t)) as Hl.
    exact (walk_spec ty stop (n :: t) (S (length (sample (n :: t)))) [] [] ltac:(lia) Hw).
Qed.

(* ---------- ContainsNaluType ---------- *)
Lemma contains_spec ty want : forall ns fuel P,
  (length ns < fuel)%nat -> walkable ns = true ->
  contains_loop ty want fuel (P ++ sample ns) (Zlen (P ++ sample ns)) (Zlen P) = Ok (has_type ty want ns).
Proof.
  induction ns as [|n t IH]; intros fuel P Hf Hw; (destruct fuel as [|f]; [cbn [length] in Hf; lia|]).
  - cbn [contains_loop]. rewrite walk_end. reflexivity.
  - cbn [walkable forallb] in Hw. apply andb_prop in Hw. destruct Hw as [Hn Hw].
    destruct (walk_facts P n t Hn) as [F1 [F2 [F3 [F4 [F5 [F6 [F7 F8]]]]]]].
    cbn [contains_loop]. rewrite F1, F2. cbn [rbind]. rewrite F3, F4. cbn [rbind]. rewrite F5.
    fold (utype ty n). cbn [has_type existsb].
    destruct (N.eqb (utype ty n) want); [reflexivity|].
    rewrite <- F8. rewrite F7 at 1 2.
    rewrite IH by (try exact Hw; cbn [length] in Hf; lia). reflexivity.
Qed.

Lemma contains_top ty want ns : walkable ns = true ->
  contains_loop ty want (S (length (sample ns))) (sample ns) (Zlen (sample ns)) 0 = Ok (has_type ty want ns).
Proof.
  intros Hw. pose proof (length_sample_ge ns) as Hl.
  exact (contains_spec ty want ns (S (length (sample ns))) [] ltac:(lia) Hw).
Qed.

Lemma hevc_contains_top want ns : walkable ns = true ->
  hevc_contains_nalu_type (sample ns) want = Ok (has_type hevc_type want ns).
Proof.
  intros Hw. unfold hevc_contains_nalu_type. destruct ns as [|n t]; [reflexivity|].
  assert (Hn : nonempty n && fits32 n = true).
  { cbn [walkable forallb] in Hw. apply andb_prop in Hw. exact (proj1 Hw). }
  rewrite (sample_len_ge4 n t Hn). apply contains_top. exact Hw.
Qed.

(* ---------- GetParameterSets ---------- *)
Fixpoint gps_fold (ty cls : N -> N) (ns : list (list N)) (acc : ps3) : ps3 :=
  match ns with
  | [] => ps_rev acc
  | n :: t =>
      let c := cls (utype ty n) in
      if (c <=? 2)%N then gps_fold ty cls t (ps_add c n acc)
      else if N.eqb c 3 then ps_rev acc
      else gps_fold ty cls t acc
  end.

Lemma gps_spec ty cls : forall ns fuel P acc,
  (length ns < fuel)%nat -> walkable ns = true ->
  gps_loop ty cls fuel (P ++ sample ns) (Zlen (P ++ sample ns)) (Zlen P) acc = Ok (gps_fold ty cls ns acc).
Proof.
  induction ns as [|n t IH]; intros fuel P acc Hf Hw; (destruct fuel as [|f]; [cbn [length] in Hf; lia|]).
  - cbn [gps_loop]. rewrite walk_end. reflexivity.
  - cbn [walkable forallb] in Hw. apply andb_prop in Hw. destruct Hw as [Hn Hw].
    destruct (walk_facts P n t Hn) as [F1 [F2 [F3 [F4 [F5 [F6 [F7 F8]]]]]]].
    cbn [gps_loop]. rewrite F1, F2. cbn [rbind]. rewrite F3, F5, F4. cbn [rbind].
    fold (utype ty n). cbn [gps_fold].
    destruct (cls (utype ty n) <=? 2)%N.
    + rewrite F6. cbn [rbind]. rewrite <- F8. rewrite F7 at 1 2.
      apply IH; [cbn [length] in Hf; lia|exact Hw].
    + destruct (N.eqb (cls (utype ty n)) 3); [reflexivity|].
      rewrite <- F8. rewrite F7 at 1 2.
      apply IH; [cbn [length] in Hf; lia|exact Hw].
Qed.

(* the fold is the filter over the units before the first video unit *)
Lemma gps_fold_avc : forall ns v s p,
  gps_fold avc_type avc_ps_class ns (v, s, p) =
  (rev v,
   rev s ++ of_type avc_type 7 (before_video avc_type avc_is_video ns),
   rev p ++ of_type avc_type 8 (before_video avc_type avc_is_video ns)).
Proof.
  induction ns as [|n t IH]; intros v s p.
  - cbn [gps_fold ps_rev before_video of_type filter]. rewrite !app_nil_r. reflexivity.
  - cbn [gps_fold before_video]. unfold avc_ps_class.
    destruct (N.eqb_spec (utype avc_type n) 7) as [E7|E7].
    + cbn [N.leb N.compare Pos.compare Pos.compare_cont]. change ((1 <=? 2)%N) with true. cbn iota.
      unfold ps_add. change (N.eqb 1 0) with false. change (N.eqb 1 1) with true. cbn iota.
      rewrite IH. rewrite E7. change (avc_is_video 7) with false. cbn iota.
      cbn [of_type filter]. rewrite E7. change (N.eqb 7 7) with true. change (N.eqb 7 8) with false. cbn iota.
      cbn [rev]. rewrite <- app_assoc. reflexivity.
    + destruct (N.eqb_spec (utype avc_type n) 8) as [E8|E8].
      * change ((2 <=? 2)%N) with true. cbn iota.
        unfold ps_add. change (N.eqb 2 0) with false. change (N.eqb 2 1) with false. cbn iota.
        rewrite IH. rewrite E8. change (avc_is_video 8) with false. cbn iota.
        cbn [of_type filter]. rewrite E8. change (N.eqb 8 7) with false. change (N.eqb 8 8) with true. cbn iota.
        cbn [rev]. rewrite <- app_assoc. reflexivity.
      * destruct (avc_is_video (utype avc_type n)) eqn:Ev.
        -- change ((3 <=? 2)%N) with false. change (N.eqb 3 3) with true. cbn iota.
           cbn [ps_rev of_type filter]. rewrite !app_nil_r. reflexivity.
        -- change ((4 <=? 2)%N) with false. change (N.eqb 4 3) with false. cbn iota.
           rewrite IH. cbn [of_type filter].
           apply N.eqb_neq in E7. apply N.eqb_neq in E8. rewrite E7, E8. reflexivity.
Qed.

Lemma gps_fold_hevc : forall ns v s p,
  gps_fold hevc_type hevc_ps_class ns (v, s, p) =
  (rev v ++ of_type hevc_type 32 (before_video hevc_type hevc_is_video ns),
   rev s ++ of_type hevc_type 33 (before_video hevc_type hevc_is_video ns),
   rev p ++ of_type hevc_type 34 (before_video hevc_type hevc_is_video ns)).
Proof.
  induction ns as [|n t IH]; intros v s p.
  - cbn [gps_fold ps_rev before_video of_type filter]. rewrite !app_nil_r. reflexivity.
  - cbn [gps_fold before_video]. unfold hevc_ps_class.
    destruct (N.eqb_spec (utype hevc_type n) 32) as [E2|E2].
    + change ((0 <=? 2)%N) with true. cbn iota. unfold ps_add. change (N.eqb 0 0) with true. cbn iota.
      rewrite IH, E2. change (hevc_is_video 32) with false. cbn iota.
      cbn [of_type filter]. rewrite E2.
      change (N.eqb 32 32) with true. change (N.eqb 32 33) with false. change (N.eqb 32 34) with false. cbn iota.
      cbn [rev]. rewrite <- app_assoc. reflexivity.
    + destruct (N.eqb_spec (utype hevc_type n) 33) as [E3|E3].
      * change ((1 <=? 2)%N) with true. cbn iota. unfold ps_add.
        change (N.eqb 1 0) with false. change (N.eqb 1 1) with true. cbn iota.
        rewrite IH, E3. change (hevc_is_video 33) with false. cbn iota.
        cbn [of_type filter]. rewrite E3.
        change (N.eqb 33 32) with false. change (N.eqb 33 33) with true. change (N.eqb 33 34) with false. cbn iota.
        cbn [rev]. rewrite <- app_assoc. reflexivity.
      * destruct (N.eqb_spec (utype hevc_type n) 34) as [E4|E4].
        -- change ((2 <=? 2)%N) with true. cbn iota. unfold ps_add.
           change (N.eqb 2 0) with false. change (N.eqb 2 1) with false. cbn iota.
           rewrite IH, E4. change (hevc_is_video 34) with false. cbn iota.
           cbn [of_type filter]. rewrite E4.
           change (N.eqb 34 32) with false. change (N.eqb 34 33) with false. change (N.eqb 34 34) with true. cbn iota.
           cbn [rev]. rewrite <- app_assoc. reflexivity.
        -- destruct (hevc_is_video (utype hevc_type n)) eqn:Ev.
           ++ change ((3 <=? 2)%N) with false. change (N.eqb 3 3) with true. cbn iota.
              cbn [ps_rev of_type filter]. rewrite !app_nil_r. reflexivity.
           ++ change ((4 <=? 2)%N) with false. change (N.eqb 4 3) with false. cbn iota.
              rewrite IH. cbn [of_type filter].
              apply N.eqb_neq in E2. apply N.eqb_neq in E3. apply N.eqb_neq in E4. rewrite E2, E3, E4. reflexivity.
Qed.

(* ---------- HasParameterSets flags ---------- *)
Lemma avc_hps_spec : forall tl a b, a && b = false ->
  avc_hps_loop tl a b = (a || existsb (fun t => N.eqb t 7) tl) && (b || existsb (fun t => N.eqb t 8) tl).
Proof.
  induction tl as [|t r IH]; intros a b Hab.
  - cbn [avc_hps_loop existsb]. rewrite !orb_false_r. symmetry. exact Hab.
  - cbn [avc_hps_loop existsb].
    destruct (N.eqb t 7) eqn:E7; destruct (N.eqb t 8) eqn:E8;
      destruct a, b; try discriminate Hab; cbn [andb orb];
      try reflexivity; rewrite IH by reflexivity; cbn [orb andb]; reflexivity.
Qed.

Lemma hevc_hps_spec : forall tl a b c, a && b && c = false ->
  hevc_hps_loop tl a b c =
  (a || existsb (fun t => N.eqb t 32) tl) && (b || existsb (fun t => N.eqb t 33) tl)
  && (c || existsb (fun t => N.eqb t 34) tl).
Proof.
  induction tl as [|t r IH]; intros a b c Habc.
  - cbn [hevc_hps_loop existsb]. rewrite !orb_false_r. symmetry. exact Habc.
  - cbn [hevc_hps_loop existsb].
    destruct (N.eqb t 32) eqn:E2; destruct (N.eqb t 33) eqn:E3; destruct (N.eqb t 34) eqn:E4;
      destruct a, b, c; try discriminate Habc; cbn [andb orb];
      try reflexivity; rewrite IH by reflexivity; cbn [orb andb]; reflexivity.
Qed.

(* ---------- assembled statements ---------- *)
Definition in_range (lo hi : N) (t : N) : bool := (lo <=? t)%N && (t <=? hi)%N.

Lemma helpers_avc_sample ns : walkable ns = true ->
  (ns <> [] -> get_nalus_from_sample (sample ns) = Ok ns) /\
  avc_find_nalu_types (sample ns) = Ok (map (utype avc_type) ns) /\
  avc_find_nalu_types_up_to_video (sample ns) = Ok (types_upto avc_type avc_is_video ns) /\
  (forall want, avc_contains_nalu_type (sample ns) want = Ok (has_type avc_type want ns)) /\
  avc_is_idr_sample (sample ns) = Ok (has_type avc_type 5 ns) /\
  avc_has_parameter_sets (sample ns) =
    Ok (existsb (fun t => N.eqb t 7) (types_upto avc_type avc_is_video ns)
        && existsb (fun t => N.eqb t 8) (types_upto avc_type avc_is_video ns)) /\
  avc_get_parameter_sets (sample ns) =
    Ok ([], of_type avc_type 7 (before_video avc_type avc_is_video ns),
            of_type avc_type 8 (before_video avc_type avc_is_video ns)).
Proof.
  intros Hw. pose proof (length_sample_ge ns) as Hl.
  split; [intros Hne; apply get_nalus_spec; assumption|].
  split; [exact (find_types_gen avc_type None ns Hw)|].
  split; [exact (find_types_gen avc_type (Some avc_is_video) ns Hw)|].
  split; [intros want; apply contains_top; exact Hw|].
  split; [apply contains_top; exact Hw|].
  split.
  - unfold avc_has_parameter_sets, avc_find_nalu_types_up_to_video.
    rewrite (find_types_gen avc_type (Some avc_is_video) ns Hw). cbn [rbind walk_types].
    rewrite avc_hps_spec by reflexivity. reflexivity.
  - unfold avc_get_parameter_sets.
    pose proof (gps_spec avc_type avc_ps_class ns (S (length (sample ns))) [] ([], [], []) ltac:(lia) Hw) as G.
    cbn [app] in G. change (Zlen (@nil N)) with 0 in G. rewrite G.
    rewrite gps_fold_avc. reflexivity.
Qed.

Lemma helpers_hevc_sample ns : walkable ns = true ->
  hevc_find_nalu_types (sample ns) = Ok (map (utype hevc_type) ns) /\
  hevc_find_nalu_types_up_to_video (sample ns) = Ok (types_upto hevc_type hevc_is_video ns) /\
  (forall want, hevc_contains_nalu_type (sample ns) want = Ok (has_type hevc_type want ns)) /\
  hevc_is_rap_sample (sample ns) = Ok (existsb (in_range 16 23) (map (utype hevc_type) ns)) /\
  hevc_is_idr_sample (sample ns) = Ok (existsb (in_range 19 20) (map (utype hevc_type) ns)) /\
  hevc_has_parameter_sets (sample ns) =
    Ok (existsb (fun t => N.eqb t 32) (types_upto hevc_type hevc_is_video ns)
        && existsb (fun t => N.eqb t 33) (types_upto hevc_type hevc_is_video ns)
        && existsb (fun t => N.eqb t 34) (types_upto hevc_type hevc_is_video ns)) /\
  hevc_get_parameter_sets (sample ns) =
    Ok (of_type hevc_type 32 (before_video hevc_type hevc_is_video ns),
        of_type hevc_type 33 (before_video hevc_type hevc_is_video ns),
        of_type hevc_type 34 (before_video hevc_type hevc_is_video ns)).
Proof.
  intros Hw. pose proof (length_sample_ge ns) as Hl.
  split; [exact (find_types_gen hevc_type None ns Hw)|].
  split; [exact (find_types_gen hevc_type (Some hevc_is_video) ns Hw)|].
  split; [intros want; apply hevc_contains_top; exact Hw|].
  split; [unfold hevc_is_rap_sample, hevc_find_nalu_types;
          rewrite (find_types_gen hevc_type None ns Hw); reflexivity|].
  split; [unfold hevc_is_idr_sample, hevc_find_nalu_types;
          rewrite (find_types_gen hevc_type None ns Hw); reflexivity|].
  split.
  - unfold hevc_has_parameter_sets, hevc_find_nalu_types_up_to_video.
    rewrite (find_types_gen hevc_type (Some hevc_is_video) ns Hw). cbn [rbind walk_types].
    rewrite hevc_hps_spec by reflexivity. reflexivity.
  - unfold hevc_get_parameter_sets.
    pose proof (gps_spec hevc_type hevc_ps_class ns (S (length (sample ns))) [] ([], [], []) ltac:(lia) Hw) as G.
    cbn [app] in G. change (Zlen (@nil N)) with 0 in G. rewrite G.
    rewrite gps_fold_hevc. reflexivity.
Qed.
