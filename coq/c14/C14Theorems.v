(* C14Theorems.v — the property theorems of C14 and nothing else.  Each is closed by
   `exact <lemma>` and followed by Print Assumptions (audited by ./check on every run). *)
From V.lib Require Import Base.
From V.c14 Require Import C14Spec C14Model C14WordProofs.

(* the word bit-trick of hasZeroByte is exactly "some byte of the word is zero", for every 8-byte
   word, whichever byte order the load uses *)
Theorem C14_has_zero_byte : forall bs : list N,
  length bs = 8%nat -> bytes_ok bs = true ->
  has_zero_byte (word_le bs) = existsb is0 bs /\ has_zero_byte (word_be bs) = existsb is0 bs.
Proof. exact (fun bs Hl Hok => conj (has_zero_byte_le bs Hl Hok) (has_zero_byte_be bs Hl Hok)). Qed.
Print Assumptions C14_has_zero_byte.

Example C14_has_zero_byte_ex :
  bytes_ok [1;128;255;0;1;127;2;200]%N = true /\
  has_zero_byte (word_le [1;128;255;0;1;127;2;200]%N) = true /\
  has_zero_byte (word_le [1;128;255;1;1;127;2;200]%N) = false.
Proof. vm_compute. auto. Qed.
