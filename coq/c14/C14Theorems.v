(* C14Theorems.v — the property theorems of C14 and nothing else.  Each is closed by
   `exact <lemma>` and followed by Print Assumptions (audited by ./check on every run). *)
From V.lib Require Import Base.
From V.c14 Require Import C14Spec C14Model C14WordProofs C14ScanProofs C14ConvProofs C14WalkProofs C14StreamProofs.
From V.c14 Require Import C14HevcSpec C14HevcModel C14HevcPackProofs C14HevcProofs C14AvcModel C14AvcProofs.
From V.c14 Require Import C14RecogModel C14RecogProofs C14Scan32Model C14Scan32Proofs.

(* the word bit-trick of hasZeroByte is exactly "some byte of the word is zero", for every 8-byte
   word, whichever byte order the load uses *)
Theorem C14_has_zero_byte : forall bs : list N,
  length bs = 8%nat -> bytes_ok bs = true ->
  has_zero_byte (word_le bs) = existsb is0 bs /\ has_zero_byte (word_be bs) = existsb is0 bs.
Proof. exact (fun bs Hl Hok => conj (has_zero_byte_le bs Hl Hok) (has_zero_byte_be bs Hl Hok)). Qed.
Print Assumptions C14_has_zero_byte.

Example C14_has_zero_byte_ex :
  bytes_ok [1;128;255;0;1;127;2;200]%N = true /\
  has_zero_byte (word_le [1;128;255;0;1;127;2;200]%N) = true /\
  has_zero_byte (word_le [1;128;255;1;1;127;2;200]%N) = false.
Proof. vm_compute. auto. Qed.

(* the word-at-a-time scanner (word loop with hasZeroByte + odd-offset probing, then the tail loop)
   returns exactly the byte-by-byte scan -- every position p with l[p..p+2] = 00 00 01 and p+3 < |l|,
   in order, with length 4 iff l[p-1] = 0, and the minimum length -- for EVERY byte string, hence every
   alignment mod 8, every stream length, start codes straddling word boundaries and the word/tail
   hand-over; in particular it never panics and never reads outside the slice *)
Theorem C14_scanner_eq_naive : forall l : list N,
  bytes_ok l = true ->
  get_start_code_positions l = Ok (naive_scan l, min_sc_len (naive_scan l)).
Proof. exact scanner_eq_naive. Qed.
Print Assumptions C14_scanner_eq_naive.

(* the index-based naive scan is the same as the structural byte-by-byte recursion *)
Theorem C14_naive_scan_structural : forall l : list N, nscan false 0 l = naive_scan l.
Proof. exact nscan_naive. Qed.
Print Assumptions C14_naive_scan_structural.

(* a 3-byte start code straddling the first word boundary (bytes 6,7,8) and a 4-byte one in the tail *)
Example C14_scanner_ex :
  let l := [9;9;9;9;9;9;0;0;1;7;7;7;7;7;7;7;7;7;7;7;0;0;0;1;5]%N in
  bytes_ok l = true /\ get_start_code_positions l = Ok ([(3, 9); (4, 24)]%Z, 3%Z) /\
  naive_scan l = [(3, 9); (4, 24)]%Z.
Proof. vm_compute. auto. Qed.

(* on every stream built from well-formed units (non-empty, last byte non-zero, no 00 00 01 inside) with
   ANY mix of 3- and 4-byte start codes, the scanner reports exactly the generating start codes *)
Theorem C14_scan_stream : forall us : list (bool * list N),
  wf_units us = true ->
  get_start_code_positions (stream us) = Ok (expected_scs 0 us, min_sc_len (expected_scs 0 us)).
Proof. exact scan_stream. Qed.
Print Assumptions C14_scan_stream.

(* ConvertByteStreamToNaluSample yields exactly the units behind 4-byte big-endian length fields,
   in the in-place branch (all start codes 4 bytes) and in the copying branch (any mix) *)
Theorem C14_to_sample : forall us : list (bool * list N),
  wf_units us = true -> units_fit us = true ->
  to_nalu_sample (stream us) = Ok (sample (map snd us)).
Proof. exact to_sample_spec. Qed.
Print Assumptions C14_to_sample.

(* ConvertSampleToByteStream yields the same units behind 4-byte start codes (units may even be empty) *)
Theorem C14_to_stream : forall ns : list (list N),
  forallb fits32 ns = true -> to_byte_stream (sample ns) = Ok (stream4 ns).
Proof. exact to_stream_spec. Qed.
Print Assumptions C14_to_stream.

Theorem C14_roundtrip : forall us : list (bool * list N),
  wf_units us = true -> units_fit us = true ->
  (do s <- to_nalu_sample (stream us); to_byte_stream s) = Ok (stream4 (map snd us)).
Proof. exact roundtrip_spec. Qed.
Print Assumptions C14_roundtrip.

(* hypotheses are satisfiable: a mixed 3/4-byte stream whose second start code straddles a word boundary,
   and an all-4-byte stream (in-place branch) *)
Example C14_conv_ex :
  let us := [(false, [103;66;0;3;1]); (true, [104;206;0;0;3;2;128]); (false, [101])]%N in
  let us4 := [(true, [103;66]); (true, [101;136;132;0;255])]%N in
  wf_units us = true /\ units_fit us = true /\ wf_units us4 = true /\
  to_nalu_sample (stream us) = Ok (sample (map snd us)) /\
  to_nalu_sample (stream us4) = Ok (sample (map snd us4)) /\
  min_sc_len (expected_scs 0 us) = 3%Z /\ min_sc_len (expected_scs 0 us4) = 4%Z.
Proof. vm_compute. repeat split; reflexivity. Qed.

(* AVC helpers that walk a sample: on `sample ns` (units non-empty, each shorter than 2^32) they return
   the obvious functions of the unit list ns *)
Theorem C14_helpers_avc_sample : forall ns : list (list N), walkable ns = true ->
  (ns <> [] -> get_nalus_from_sample (sample ns) = Ok ns) /\
  avc_find_nalu_types (sample ns) = Ok (map (utype avc_type) ns) /\
  avc_find_nalu_types_up_to_video (sample ns) = Ok (types_upto avc_type avc_is_video ns) /\
  (forall want, avc_contains_nalu_type (sample ns) want = Ok (has_type avc_type want ns)) /\
  avc_is_idr_sample (sample ns) = Ok (has_type avc_type 5 ns) /\
  avc_has_parameter_sets (sample ns) =
    Ok (existsb (fun t => N.eqb t 7) (types_upto avc_type avc_is_video ns)
        && existsb (fun t => N.eqb t 8) (types_upto avc_type avc_is_video ns)) /\
  avc_get_parameter_sets (sample ns) =
    Ok ([], of_type avc_type 7 (before_video avc_type avc_is_video ns),
            of_type avc_type 8 (before_video avc_type avc_is_video ns)).
Proof. exact helpers_avc_sample. Qed.
Print Assumptions C14_helpers_avc_sample.

Theorem C14_helpers_hevc_sample : forall ns : list (list N), walkable ns = true ->
  hevc_find_nalu_types (sample ns) = Ok (map (utype hevc_type) ns) /\
  hevc_find_nalu_types_up_to_video (sample ns) = Ok (types_upto hevc_type hevc_is_video ns) /\
  (forall want, hevc_contains_nalu_type (sample ns) want = Ok (has_type hevc_type want ns)) /\
  hevc_is_rap_sample (sample ns) = Ok (existsb (in_range 16 23) (map (utype hevc_type) ns)) /\
  hevc_is_idr_sample (sample ns) = Ok (existsb (in_range 19 20) (map (utype hevc_type) ns)) /\
  hevc_has_parameter_sets (sample ns) =
    Ok (existsb (fun t => N.eqb t 32) (types_upto hevc_type hevc_is_video ns)
        && existsb (fun t => N.eqb t 33) (types_upto hevc_type hevc_is_video ns)
        && existsb (fun t => N.eqb t 34) (types_upto hevc_type hevc_is_video ns)) /\
  hevc_get_parameter_sets (sample ns) =
    Ok (of_type hevc_type 32 (before_video hevc_type hevc_is_video ns),
        of_type hevc_type 33 (before_video hevc_type hevc_is_video ns),
        of_type hevc_type 34 (before_video hevc_type hevc_is_video ns)).
Proof. exact helpers_hevc_sample. Qed.
Print Assumptions C14_helpers_hevc_sample.

Example C14_helpers_ex :
  let ns := [[9;16]; [103;66;0]; [104;206]; [101;136;132]; [104;1]]%N in
  walkable ns = true /\
  avc_find_nalu_types (sample ns) = Ok [9;7;8;5;8]%N /\
  avc_find_nalu_types_up_to_video (sample ns) = Ok [9;7;8;5]%N /\
  avc_get_parameter_sets (sample ns) = Ok ([], [[103;66;0]], [[104;206]])%N /\
  hevc_is_rap_sample (sample [[64;1;12]; [38;1;175]]%N) = Ok true.
Proof. vm_compute. repeat split; reflexivity. Qed.

(* the byte-stream loop skeleton shared by the four Annex B helpers visits, on ANY byte string, exactly
   the start-code positions of the naive scan (in order) *)
Theorem C14_byte_stream_loop_events :
  forall (St R : Type) (body : Z -> St -> res (St + R)) (d : list N) (st : St),
  bs_loop body (S (length d)) d (Zlen d) 0 st =
  bs_events body (filter (is_sc d) (zrange 0 (Z.to_nat (Zlen d - 3 - 0)))) st.
Proof. exact (fun St R body d st => bs_loop_events body d (S (length d)) 0%Z st (Z.le_refl 0) ltac:(unfold Zlen; lia)). Qed.
Print Assumptions C14_byte_stream_loop_events.

(* helpers that walk an Annex B byte stream (AVC and HEVC): on `stream us` (well-formed units, any
   start-code mix) they return the obvious functions of the unit list *)
Theorem C14_helpers_stream : forall us : list (bool * list N), wf_units us = true ->
  let ns := map snd us in
  extract_nalus_from_byte_stream (stream us) = Ok ns /\
  avc_get_first_video_nalu (stream us) = Ok (first_video avc_type avc_is_video ns) /\
  avc_get_parameter_sets_from_byte_stream (stream us) =
    Ok ([], of_type avc_type 7 (before_video avc_type avc_is_video ns),
            of_type avc_type 8 (before_video avc_type avc_is_video ns)) /\
  hevc_get_parameter_sets_from_byte_stream (stream us) =
    Ok (of_type hevc_type 32 (before_video hevc_type hevc_is_video ns),
        of_type hevc_type 33 (before_video hevc_type hevc_is_video ns),
        of_type hevc_type 34 (before_video hevc_type hevc_is_video ns)) /\
  (forall want stop, avc_extract_nalus_of_type want stop (stream us) =
     Ok (of_type avc_type want (if stop then before_video avc_type avc_is_video ns else ns))) /\
  (forall want stop, hevc_extract_nalus_of_type want stop (stream us) =
     Ok (of_type hevc_type want (if stop then before_video hevc_type hevc_is_video ns else ns))).
Proof. exact helpers_stream. Qed.
Print Assumptions C14_helpers_stream.

(* SPS, PPS with nothing after them: the last parameter set is returned (it was lost before the fix) *)
Example C14_helpers_stream_ex :
  let us := [(true, [103;170]); (false, [104;187])]%N in
  wf_units us = true /\
  avc_get_parameter_sets_from_byte_stream (stream us) = Ok ([], [[103;170]], [[104;187]])%N /\
  extract_nalus_from_byte_stream (stream us) = Ok [[103;170]; [104;187]]%N /\
  avc_extract_nalus_of_type 0 true (stream [(true, [160])]%N) = Ok [].
Proof. vm_compute. repeat split; reflexivity. Qed.

(* ------------------------------------------------------------------ HEVC helpers, own transcription *)
(* C14HevcModel.v transcribes every HEVC helper from the text of hevc/hevc.go and hevc/annexb.go (it is the
   model the correspondence check runs against the hevc package).  On EVERY input -- well-formed or not --
   it computes what the shared loop transcriptions of C14Model.v compute when instantiated with the HEVC
   type function, so the two independent hand transcriptions of the hevc code agree. *)
Theorem C14_hevc_transcriptions_agree : forall s : list N,
  hevc_FindNaluTypes s = hevc_find_nalu_types s /\
  hevc_FindNaluTypesUpToFirstVideoNalu s = hevc_find_nalu_types_up_to_video s /\
  (forall want, hevc_ContainsNaluType s want = hevc_contains_nalu_type s want) /\
  hevc_IsRAPSample s = hevc_is_rap_sample s /\
  hevc_IsIDRSample s = hevc_is_idr_sample s /\
  hevc_HasParameterSets s = hevc_has_parameter_sets s /\
  hevc_GetParameterSets s = hevc_get_parameter_sets s /\
  hevc_GetParameterSetsFromByteStream s = hevc_get_parameter_sets_from_byte_stream s /\
  (forall want stop, hevc_ExtractNalusOfTypeFromByteStream want s stop = hevc_extract_nalus_of_type want stop s).
Proof. exact hevc_transcriptions_agree. Qed.
Print Assumptions C14_hevc_transcriptions_agree.

(* the tail of hevc.GetParameterSetsFromByteStream -- psData := make([]byte, totSize), three copy loops sharing
   psData and pos, every set replaced by a sub-slice of psData -- returns exactly the sets when totSize is
   their total length (that the scanning loop maintains totSize = total length, on every input, is part of
   the proof of C14_hevc_transcriptions_agree) *)
Theorem C14_hevc_repack_exact : forall v s p : list (list N),
  hevc_repack (v, s, p) (sum3 (v, s, p)) = Ok (v, s, p).
Proof. exact repack_exact. Qed.
Print Assumptions C14_hevc_repack_exact.

(* a totSize that is one short is not harmless: the last set cannot be re-sliced from psData *)
Example C14_hevc_repack_ex :
  hevc_repack ([[64;1;12]], [[66;1;1]; [66;1;2;3]], [[68;1]])%N 12 = Ok ([[64;1;12]], [[66;1;1]; [66;1;2;3]], [[68;1]])%N /\
  hevc_repack ([[64;1;12]], [[66;1;1]; [66;1;2;3]], [[68;1]])%N 11 = Panic.
Proof. vm_compute. split; reflexivity. Qed.

(* nal_unit_type, bits 14..9 of the two-byte HEVC NAL unit header, is what hevc.GetNaluType computes from the
   first header byte alone *)
Theorem C14_hevc_header_type : forall n : list N,
  hevc_hdr_ok n = true -> hevc_unit_type n = hevc_GetNaluType (hd0 n).
Proof. exact hevc_unit_type_first_byte. Qed.
Print Assumptions C14_hevc_header_type.

(* every HEVC helper that walks a SAMPLE (and the codec-agnostic unit lister), on the sample built from ANY
   list of units that carry a two-byte header and fit the length field: the obvious functions of the unit
   list, the type of a unit being the nal_unit_type field of its header *)
Theorem C14_helpers_hevc_units_sample : forall ns : list (list N), hevc_units ns = true ->
  let ut := hevc_unit_type in
  (ns <> [] -> get_nalus_from_sample (sample ns) = Ok ns) /\
  hevc_FindNaluTypes (sample ns) = Ok (u_types ut ns) /\
  hevc_FindNaluTypesUpToFirstVideoNalu (sample ns) = Ok (u_types_upto ut hevc_vcl ns) /\
  (forall want, hevc_ContainsNaluType (sample ns) want = Ok (u_has ut (fun t => N.eqb t want) ns)) /\
  hevc_IsRAPSample (sample ns) = Ok (u_has ut hevc_irap ns) /\
  hevc_IsIDRSample (sample ns) = Ok (u_has ut hevc_idr ns) /\
  hevc_HasParameterSets (sample ns) =
    Ok (existsb (fun t => N.eqb t 32) (u_types_upto ut hevc_vcl ns)
        && existsb (fun t => N.eqb t 33) (u_types_upto ut hevc_vcl ns)
        && existsb (fun t => N.eqb t 34) (u_types_upto ut hevc_vcl ns)) /\
  hevc_GetParameterSets (sample ns) =
    Ok (u_of_type ut 32 (u_before_video ut hevc_vcl ns),
        u_of_type ut 33 (u_before_video ut hevc_vcl ns),
        u_of_type ut 34 (u_before_video ut hevc_vcl ns)).
Proof. exact helpers_hevc_own_sample. Qed.
Print Assumptions C14_helpers_hevc_units_sample.

(* every HEVC helper that walks an Annex B BYTE STREAM (and the codec-agnostic unit lister), on the stream
   built from ANY list of well-formed units with a two-byte header behind any mix of 3- and 4-byte start codes *)
Theorem C14_helpers_hevc_units_stream : forall us : list (bool * list N), hevc_stream_units us = true ->
  let ut := hevc_unit_type in
  let ns := map snd us in
  extract_nalus_from_byte_stream (stream us) = Ok ns /\
  hevc_GetParameterSetsFromByteStream (stream us) =
    Ok (u_of_type ut 32 (u_before_video ut hevc_vcl ns),
        u_of_type ut 33 (u_before_video ut hevc_vcl ns),
        u_of_type ut 34 (u_before_video ut hevc_vcl ns)) /\
  (forall want stop, hevc_ExtractNalusOfTypeFromByteStream want (stream us) stop =
     Ok (u_of_type ut want (if stop then u_before_video ut hevc_vcl ns else ns))).
Proof. exact helpers_hevc_own_stream. Qed.
Print Assumptions C14_helpers_hevc_units_stream.

(* hypotheses are satisfiable: AUD(35) VPS(32) SPS(33) PPS(34) VPS(32, a duplicate) SEI(39) IDR_W_RADL(19) PPS(34);
   the second header byte carries nuh_layer_id / temporal id and does not influence the type *)
Example C14_helpers_hevc_units_ex :
  let us := [(true, [70;1;80]); (true, [64;1;12;1]); (false, [66;1;1;96]); (false, [68;1;193]);
             (true, [64;9;13]); (false, [78;1;5;128]); (true, [38;1;175;6]); (false, [68;1;200])]%N in
  let ns := map snd us in
  hevc_units ns = true /\ hevc_stream_units us = true /\
  u_types hevc_unit_type ns = [35;32;33;34;32;39;19;34]%N /\
  hevc_FindNaluTypesUpToFirstVideoNalu (sample ns) = Ok [35;32;33;34;32;39;19]%N /\
  hevc_IsRAPSample (sample ns) = Ok true /\ hevc_IsIDRSample (sample ns) = Ok true /\
  hevc_HasParameterSets (sample ns) = Ok true /\
  hevc_GetParameterSets (sample ns) = Ok ([[64;1;12;1]; [64;9;13]], [[66;1;1;96]], [[68;1;193]])%N /\
  hevc_GetParameterSetsFromByteStream (stream us) = Ok ([[64;1;12;1]; [64;9;13]], [[66;1;1;96]], [[68;1;193]])%N /\
  hevc_ExtractNalusOfTypeFromByteStream 34 (stream us) false = Ok [[68;1;193]; [68;1;200]]%N /\
  hevc_ExtractNalusOfTypeFromByteStream 34 (stream us) true = Ok [[68;1;193]]%N.
Proof. vm_compute. repeat split; reflexivity. Qed.

(* ------------------------------------------------------------------ avc.GetParameterSetsFromByteStream to its end *)
(* C14AvcModel.v transcribes the function including totSize and the repacking into psData (this is the model
   the correspondence runs against avc.GetParameterSetsFromByteStream); on EVERY input it returns the sets of
   the shorter transcription, which has no VPS list *)
Theorem C14_avc_gpsb_full : forall s : list N,
  avc_get_parameter_sets_from_byte_stream s
  = (do a <- avc_GetParameterSetsFromByteStream s; Ok ([], fst a, snd a)).
Proof. exact avc_gpsb_full. Qed.
Print Assumptions C14_avc_gpsb_full.

Theorem C14_avc_gpsb_stream : forall us : list (bool * list N), wf_units us = true ->
  avc_GetParameterSetsFromByteStream (stream us)
  = Ok (of_type avc_type 7 (before_video avc_type avc_is_video (map snd us)),
        of_type avc_type 8 (before_video avc_type avc_is_video (map snd us))).
Proof. exact avc_gpsb_full_stream. Qed.
Print Assumptions C14_avc_gpsb_stream.

(* AUD, SPS, PPS, a second PPS, IDR slice, a PPS behind the video unit *)
Example C14_avc_gpsb_ex :
  let us := [(true, [9;16]); (true, [103;66;0;30]); (false, [104;206;60;128]); (false, [104;1]);
             (true, [101;136;132]); (false, [104;2])]%N in
  wf_units us = true /\
  avc_GetParameterSetsFromByteStream (stream us) = Ok ([[103;66;0;30]], [[104;206;60;128]; [104;1]])%N.
Proof. vm_compute. split; reflexivity. Qed.

(* ------------------------------------------------------------------ the property over BYTE STRINGS *)
(* C14RecogModel.v makes the property's quantifier ("every well-formed Annex B stream") executable: unstream d
   cuts d at the start codes of the byte-by-byte scan, wf_stream d checks that there is at least one unit, that
   every unit is well formed and that d is nothing but those units behind their start codes.  The recogniser is
   EXACT: it accepts precisely the streams of non-empty lists of well-formed units, reads back the generating
   list (start-code lengths included), so that list -- "the NAL units between the start codes" -- is unique. *)
Theorem C14_stream_recogniser_exact :
  (forall d : list N, wf_stream d = true <-> exists us, us <> [] /\ wf_units us = true /\ stream us = d) /\
  (forall us, wf_units us = true -> unstream (stream us) = us) /\
  (forall us vs, wf_units us = true -> wf_units vs = true -> stream us = stream vs -> us = vs).
Proof. exact (conj wf_stream_iff (conj unstream_stream stream_injective)). Qed.
Print Assumptions C14_stream_recogniser_exact.

(* every clause of the property about Annex B streams, for EVERY byte string the recogniser accepts, in terms
   of the units read from the bytes (no generating list in the statement) *)
Theorem C14_stream_bytes : forall d : list N, wf_stream d = true ->
  let us := unstream d in
  let ns := map snd us in
  us <> [] /\ wf_units us = true /\ stream us = d /\
  get_start_code_positions d = Ok (expected_scs 0 us, min_sc_len (expected_scs 0 us)) /\
  naive_scan d = expected_scs 0 us /\
  (fit_units us = true ->
     to_nalu_sample d = Ok (sample ns) /\
     (do s <- to_nalu_sample d; to_byte_stream s) = Ok (stream4 ns)) /\
  extract_nalus_from_byte_stream d = Ok ns /\
  avc_get_first_video_nalu d = Ok (first_video avc_type avc_is_video ns) /\
  avc_GetParameterSetsFromByteStream d =
    Ok (of_type avc_type 7 (before_video avc_type avc_is_video ns),
        of_type avc_type 8 (before_video avc_type avc_is_video ns)) /\
  (forall want stop, avc_extract_nalus_of_type want stop d =
     Ok (of_type avc_type want (if stop then before_video avc_type avc_is_video ns else ns))) /\
  (hevc_stream_units us = true ->
     hevc_GetParameterSetsFromByteStream d =
       Ok (u_of_type hevc_unit_type 32 (u_before_video hevc_unit_type hevc_vcl ns),
           u_of_type hevc_unit_type 33 (u_before_video hevc_unit_type hevc_vcl ns),
           u_of_type hevc_unit_type 34 (u_before_video hevc_unit_type hevc_vcl ns)) /\
     (forall want stop, hevc_ExtractNalusOfTypeFromByteStream want d stop =
        Ok (u_of_type hevc_unit_type want (if stop then u_before_video hevc_unit_type hevc_vcl ns else ns)))).
Proof. exact stream_bytes. Qed.
Print Assumptions C14_stream_bytes.

(* a stream shorter than 4 GiB needs no hypothesis on the unit sizes: every unit fits its 4-byte length field *)
Theorem C14_stream_bytes_short : forall d : list N, wf_stream d = true -> (Zlen d < 4294967296)%Z ->
  to_nalu_sample d = Ok (sample (map snd (unstream d))) /\
  (do s <- to_nalu_sample d; to_byte_stream s) = Ok (stream4 (map snd (unstream d))).
Proof. exact stream_bytes_short. Qed.
Print Assumptions C14_stream_bytes_short.

(* accepted: a mixed 3/4-byte stream, and 67 00 | 00 00 01 read as the unit 67 behind a 4-byte start code (one
   zero byte in front of 00 00 01 always belongs to the start code); rejected: a byte in front of the first
   start code, a unit that would end in 00, an empty unit between two start codes, no start code at all *)
Example C14_stream_bytes_ex :
  let d := [0;0;0;1;103;66;0;3;1; 0;0;1;104;206;0;0;3;2;128; 0;0;0;1;101]%N in
  wf_stream d = true /\
  unstream d = [(true, [103;66;0;3;1]); (false, [104;206;0;0;3;2;128]); (true, [101])]%N /\
  fit_units (unstream d) = true /\
  wf_stream (9 :: d)%N = false /\
  unstream [0;0;1;103;0; 0;0;1;104]%N = [(false, [103]); (true, [104])]%N /\
  wf_stream [0;0;1;103;0; 0;0;1;104]%N = true /\
  wf_stream [0;0;1;103;0;0; 0;0;1;104]%N = false /\
  wf_stream [0;0;1; 0;0;1;104]%N = false /\
  wf_stream [1;2;3;4;5]%N = false /\ wf_stream [] = false.
Proof. vm_compute. repeat split; reflexivity. Qed.

(* the same for length-prefixed samples: unsample follows the 4-byte big-endian length fields, wf_sample accepts
   precisely the samples of non-empty lists of non-empty units shorter than 2^32, and the unit list is unique *)
Theorem C14_sample_recogniser_exact :
  (forall s : list N, wf_sample s = true <-> exists ns, ns <> [] /\ walkable ns = true /\ sample ns = s) /\
  (forall ns, forallb fits32 ns = true -> unsample (sample ns) = Some ns) /\
  (forall ns ms, forallb fits32 ns = true -> forallb fits32 ms = true -> sample ns = sample ms -> ns = ms).
Proof. exact (conj wf_sample_iff (conj unsample_sample sample_injective)). Qed.
Print Assumptions C14_sample_recogniser_exact.

Theorem C14_sample_bytes : forall s : list N, wf_sample s = true ->
  let ns := unsample_units s in
  ns <> [] /\ walkable ns = true /\ sample ns = s /\
  get_nalus_from_sample s = Ok ns /\
  to_byte_stream s = Ok (stream4 ns) /\
  avc_find_nalu_types s = Ok (map (utype avc_type) ns) /\
  avc_find_nalu_types_up_to_video s = Ok (types_upto avc_type avc_is_video ns) /\
  (forall want, avc_contains_nalu_type s want = Ok (has_type avc_type want ns)) /\
  avc_is_idr_sample s = Ok (has_type avc_type 5 ns) /\
  avc_has_parameter_sets s =
    Ok (existsb (fun t => N.eqb t 7) (types_upto avc_type avc_is_video ns)
        && existsb (fun t => N.eqb t 8) (types_upto avc_type avc_is_video ns)) /\
  avc_get_parameter_sets s =
    Ok ([], of_type avc_type 7 (before_video avc_type avc_is_video ns),
            of_type avc_type 8 (before_video avc_type avc_is_video ns)) /\
  (hevc_units ns = true ->
     let ut := hevc_unit_type in
     hevc_FindNaluTypes s = Ok (u_types ut ns) /\
     hevc_FindNaluTypesUpToFirstVideoNalu s = Ok (u_types_upto ut hevc_vcl ns) /\
     (forall want, hevc_ContainsNaluType s want = Ok (u_has ut (fun t => N.eqb t want) ns)) /\
     hevc_IsRAPSample s = Ok (u_has ut hevc_irap ns) /\
     hevc_IsIDRSample s = Ok (u_has ut hevc_idr ns) /\
     hevc_HasParameterSets s =
       Ok (existsb (fun t => N.eqb t 32) (u_types_upto ut hevc_vcl ns)
           && existsb (fun t => N.eqb t 33) (u_types_upto ut hevc_vcl ns)
           && existsb (fun t => N.eqb t 34) (u_types_upto ut hevc_vcl ns)) /\
     hevc_GetParameterSets s =
       Ok (u_of_type ut 32 (u_before_video ut hevc_vcl ns),
           u_of_type ut 33 (u_before_video ut hevc_vcl ns),
           u_of_type ut 34 (u_before_video ut hevc_vcl ns))).
Proof. exact sample_bytes. Qed.
Print Assumptions C14_sample_bytes.

(* accepted: VPS SPS PPS IDR (HEVC headers); rejected: a length field one too large, a zero length field,
   three stray bytes behind the last unit *)
Example C14_sample_bytes_ex :
  let s := [0;0;0;3;64;1;12; 0;0;0;4;66;1;1;96; 0;0;0;3;68;1;193; 0;0;0;4;38;1;175;6]%N in
  wf_sample s = true /\
  unsample_units s = [[64;1;12]; [66;1;1;96]; [68;1;193]; [38;1;175;6]]%N /\
  hevc_units (unsample_units s) = true /\
  wf_sample [0;0;0;3;64;1]%N = false /\
  wf_sample [0;0;0;0; 0;0;0;1;9]%N = false /\
  wf_sample [0;0;0;1;9; 1;2;3]%N = false /\ wf_sample [] = false.
Proof. vm_compute. repeat split; reflexivity. Qed.

(* ------------------------------------------------------------------ the 32-bit compilation of the scanner *)
(* avc/annexb.go sizes everything by uintSize = unsafe.Sizeof(uint(0)): on a 32-bit platform the word loop loads
   4 bytes, the magic constants are 0x01010101 / 0x80808080, two odd offsets are probed per word and the tail loop
   starts at len - len%4 - 4.  C14Scan32Model.v transcribes that compilation (checks/c14.py runs it against a
   GOARCH=386 build of the real code).  The word trick is right for 4-byte words (either byte order), the scanner
   returns the byte-by-byte scan on EVERY byte string, so both platforms find the same start codes and convert
   alike: every C14 theorem about streams holds for the 32-bit compilation as well. *)
Theorem C14_has_zero_byte32 : forall bs : list N,
  length bs = 4%nat -> bytes_ok bs = true ->
  has_zero_byte32 (word_le bs) = existsb is0 bs /\ has_zero_byte32 (word_be bs) = existsb is0 bs.
Proof. exact (fun bs Hl Hok => conj (has_zero_byte32_le bs Hl Hok) (has_zero_byte32_be bs Hl Hok)). Qed.
Print Assumptions C14_has_zero_byte32.

Theorem C14_scanner32_eq_naive : forall l : list N,
  bytes_ok l = true ->
  get_start_code_positions32 l = Ok (naive_scan l, min_sc_len (naive_scan l)) /\
  get_start_code_positions32 l = get_start_code_positions l /\
  to_nalu_sample32 l = to_nalu_sample l.
Proof. exact (fun l Hok => conj (scanner32_eq_naive l Hok) (platforms_agree l Hok)). Qed.
Print Assumptions C14_scanner32_eq_naive.

(* a 3-byte start code straddling the first 4-byte word boundary (bytes 2,3,4), one straddling the word/tail
   hand-over and a 4-byte one in the tail; the zero-byte test on 4-byte words *)
Example C14_scanner32_ex :
  let l := [9;9;0;0;1;7;7;7;7;7;0;0;1;7;7;0;0;0;1;5]%N in
  bytes_ok l = true /\ get_start_code_positions32 l = Ok ([(3, 5); (3, 13); (4, 19)]%Z, 3%Z) /\
  naive_scan l = [(3, 5); (3, 13); (4, 19)]%Z /\
  has_zero_byte32 (word_le [1;128;0;255]%N) = true /\ has_zero_byte32 (word_le [1;128;255;1]%N) = false.
Proof. vm_compute. repeat split; reflexivity. Qed.
