(* C14Theorems.v — the property theorems of C14 and nothing else.  Each is closed by
   `exact <lemma>` and followed by Print Assumptions (audited by ./check on every run). *)
From V.lib Require Import Base.
From V.c14 Require Import C14Spec C14Model C14WordProofs C14ScanProofs.

(* the word bit-trick of hasZeroByte is exactly "some byte of the word is zero", for every 8-byte
   word, whichever byte order the load uses *)
Theorem C14_has_zero_byte : forall bs : list N,
  length bs = 8%nat -> bytes_ok bs = true ->
  has_zero_byte (word_le bs) = existsb is0 bs /\ has_zero_byte (word_be bs) = existsb is0 bs.
Proof. exact (fun bs Hl Hok => conj (has_zero_byte_le bs Hl Hok) (has_zero_byte_be bs Hl Hok)). Qed.
Print Assumptions C14_has_zero_byte.

Example C14_has_zero_byte_ex :
  bytes_ok [1;128;255;0;1;127;2;200]%N = true /\
  has_zero_byte (word_le [1;128;255;0;1;127;2;200]%N) = true /\
  has_zero_byte (word_le [1;128;255;1;1;127;2;200]%N) = false.
Proof. vm_compute. auto. Qed.

(* the word-at-a-time scanner (word loop with hasZeroByte + odd-offset probing, then the tail loop)
   returns exactly the byte-by-byte scan -- every position p with l[p..p+2] = 00 00 01 and p+3 < |l|,
   in order, with length 4 iff l[p-1] = 0, and the minimum length -- for EVERY byte string, hence every
   alignment mod 8, every stream length, start codes straddling word boundaries and the word/tail
   hand-over; in particular it never panics and never reads outside the slice *)
Theorem C14_scanner_eq_naive : forall l : list N,
  bytes_ok l = true ->
  get_start_code_positions l = Ok (naive_scan l, min_sc_len (naive_scan l)).
Proof. exact scanner_eq_naive. Qed.
Print Assumptions C14_scanner_eq_naive.

(* the index-based naive scan is the same as the structural byte-by-byte recursion *)
Theorem C14_naive_scan_structural : forall l : list N, nscan false 0 l = naive_scan l.
Proof. exact nscan_naive. Qed.
Print Assumptions C14_naive_scan_structural.

(* a 3-byte start code straddling the first word boundary (bytes 6,7,8) and a 4-byte one in the tail *)
Example C14_scanner_ex :
  let l := [9;9;9;9;9;9;0;0;1;7;7;7;7;7;7;7;7;7;7;7;0;0;0;1;5]%N in
  bytes_ok l = true /\ get_start_code_positions l = Ok ([(3, 9); (4, 24)]%Z, 3%Z) /\
  naive_scan l = [(3, 9); (4, 24)]%Z.
Proof. vm_compute. auto. Qed.
