(* Extraction of the C14 models for the correspondence check. ExtrOcamlBasic only. *)
From V.lib Require Import Base.
From V.c14 Require Import C14Spec C14Model.
Require Import ExtrOcamlBasic.
Separate Extraction
  has_zero_byte word_le get_start_code_positions to_nalu_sample to_byte_stream
  get_nalus_from_sample extract_nalus_from_byte_stream
  avc_find_nalu_types avc_find_nalu_types_up_to_video avc_contains_nalu_type avc_is_idr_sample
  avc_has_parameter_sets avc_get_parameter_sets avc_get_parameter_sets_from_byte_stream
  avc_extract_nalus_of_type avc_get_first_video_nalu
  hevc_find_nalu_types hevc_find_nalu_types_up_to_video hevc_contains_nalu_type
  hevc_is_rap_sample hevc_is_idr_sample hevc_has_parameter_sets hevc_get_parameter_sets
  hevc_get_parameter_sets_from_byte_stream hevc_extract_nalus_of_type
  naive_scan min_sc_len.
