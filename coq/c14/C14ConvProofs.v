(* C14ConvProofs.v — on every stream built from well-formed units (any 3/4-byte start-code mix) the
   scanner finds exactly the generating start codes; ConvertByteStreamToNaluSample yields the
   length-prefixed unit list (in-place and copying branch); ConvertSampleToByteStream yields the
   units behind 4-byte start codes; round trip. *)
From V.lib Require Import Base.
From V.c14 Require Import C14Spec C14Model C14WordProofs C14ScanProofs.
Local Open Scope Z_scope.

(* ---------- structural scan: local rewriting rules ---------- *)
Lemma nscan_skip1 prev pos b t : is0 b = false -> nscan prev pos (b :: t) = nscan false (pos + 1) t.
Proof.
  intros H. cbn [nscan]. rewrite H. destruct t as [|? [|? [|? ?]]]; reflexivity.
Qed.

Lemma nscan_skip2 prev pos b c t : is0 c = false ->
  nscan prev pos (b :: c :: t) = nscan (is0 b) (pos + 1) (c :: t).
Proof.
  intros H. cbn [nscan]. rewrite H, andb_false_r. destruct t as [|? [|? ?]]; reflexivity.
Qed.

Lemma nscan_skip3 prev pos b c d t : is0 b && is0 c && is1 d = false ->
  nscan prev pos (b :: c :: d :: t) = nscan (is0 b) (pos + 1) (c :: d :: t).
Proof.
  intros H. cbn [nscan]. rewrite H. destruct t as [|? ?]; reflexivity.
Qed.

Lemma nscan_hit prev pos x t :
  nscan prev pos (0 :: 0 :: 1 :: x :: t)%N =
  (if prev then 4 else 3, pos + 3) :: nscan true (pos + 1) (0 :: 1 :: x :: t)%N.
Proof. reflexivity. Qed.

Lemma last_cons2 {A} (a b : A) t d : last (a :: b :: t) d = last (b :: t) d.
Proof. reflexivity. Qed.

(* no start code begins inside a well-formed unit, whatever follows it *)
Lemma nscan_unit : forall n prev pos rest,
  n <> [] -> last_nonzero n = true -> no_sc3 n = true ->
  nscan prev pos (n ++ rest) = nscan false (pos + Zlen n) rest.
Proof.
  induction n as [|b n' IH]; intros prev pos rest Hne Hl Hs; [congruence|].
  destruct n' as [|c n''].
  - (* last byte *)
    unfold last_nonzero in Hl. cbn [last] in Hl. apply negb_true_iff in Hl.
    cbn [app]. rewrite nscan_skip1 by exact Hl. reflexivity.
  - assert (Hl' : last_nonzero (c :: n'') = true) by exact Hl.
    assert (Hs' : no_sc3 (c :: n'') = true).
    { cbn [no_sc3] in Hs. destruct n'' as [|d n3]; [reflexivity|].
      apply andb_prop in Hs. exact (proj2 Hs). }
    rewrite Zlen_cons. replace (pos + (1 + Zlen (c :: n''))) with (pos + 1 + Zlen (c :: n'')) by lia.
    rewrite <- (IH (is0 b) (pos + 1) rest) by (try assumption; discriminate).
    cbn [app]. destruct n'' as [|d n3].
    + (* c is the last byte: non-zero *)
      unfold last_nonzero in Hl. cbn [last] in Hl. apply negb_true_iff in Hl.
      cbn [app]. apply nscan_skip2. exact Hl.
    + cbn [app]. apply nscan_skip3.
      cbn [no_sc3] in Hs. apply andb_prop in Hs. apply negb_true_iff. exact (proj1 Hs).
Qed.

Lemma wf_nalu_parts n : wf_nalu n = true ->
  n <> [] /\ last_nonzero n = true /\ no_sc3 n = true /\ bytes_ok n = true.
Proof.
  unfold wf_nalu. intros H. repeat (apply andb_prop in H; destruct H as [H ?]).
  repeat split; try assumption. destruct n; [discriminate|discriminate].
Qed.

(* the scan of a well-formed stream is the generating start-code list *)
Lemma nscan_stream : forall us base,
  wf_units us = true -> nscan false base (stream us) = expected_scs base us.
Proof.
  induction us as [|[f n] t IH]; intros base Hwf; [reflexivity|].
  cbn [wf_units forallb snd] in Hwf. apply andb_prop in Hwf. destruct Hwf as [Hn Ht].
  destruct (wf_nalu_parts n Hn) as [Hne [Hl [Hs _]]].
  cbn [stream expected_scs]. destruct n as [|x n']; [congruence|].
  destruct f; cbn [start_code sclen app].
  - (* 00 00 00 01 *)
    rewrite nscan_skip3 by reflexivity.
    change (is0 0%N) with true. rewrite nscan_hit. f_equal; [f_equal; lia|].
    rewrite nscan_skip2 by reflexivity. rewrite nscan_skip1 by reflexivity.
    change (x :: n' ++ stream t) with ((x :: n') ++ stream t).
    rewrite nscan_unit by assumption.
    replace (base + 1 + 1 + 1 + 1 + Zlen (x :: n')) with (base + 4 + Zlen (x :: n')) by lia.
    apply IH. exact Ht.
  - (* 00 00 01 *)
    rewrite nscan_hit. f_equal.
    rewrite nscan_skip2 by reflexivity. rewrite nscan_skip1 by reflexivity.
    change (x :: n' ++ stream t) with ((x :: n') ++ stream t).
    rewrite nscan_unit by assumption.
    replace (base + 1 + 1 + 1 + Zlen (x :: n')) with (base + 3 + Zlen (x :: n')) by lia.
    apply IH. exact Ht.
Qed.

Lemma bytes_ok_stream us : wf_units us = true -> bytes_ok (stream us) = true.
Proof.
  induction us as [|[f n] t IH]; intros Hwf; [reflexivity|].
  cbn [wf_units forallb snd] in Hwf. apply andb_prop in Hwf. destruct Hwf as [Hn Ht].
  destruct (wf_nalu_parts n Hn) as [_ [_ [_ Hb]]].
  cbn [stream]. rewrite !bytes_ok_app, Hb, (IH Ht). destruct f; reflexivity.
Qed.

Lemma scan_stream us : wf_units us = true ->
  get_start_code_positions (stream us) = Ok (expected_scs 0 us, min_sc_len (expected_scs 0 us)).
Proof.
  intros Hwf. rewrite scanner_eq_naive by (apply bytes_ok_stream; exact Hwf).
  rewrite <- nscan_naive, nscan_stream by exact Hwf. reflexivity.
Qed.

(* ---------- list surgery ---------- *)
Lemma firstn_len_app {A} (a b : list A) : firstn (length a) (a ++ b) = a.
Proof. induction a as [|x a IH]; [destruct b; reflexivity|]. cbn [length firstn app]. f_equal. exact IH. Qed.

Lemma skipn_len_app {A} (a b : list A) k : skipn (length a + k) (a ++ b) = skipn k b.
Proof. induction a as [|x a IH]; [reflexivity|]. cbn [length plus skipn app]. exact IH. Qed.

Lemma skipn_len_app0 {A} (a b : list A) : skipn (length a) (a ++ b) = b.
Proof. rewrite <- (Nat.add_0_r (length a)), skipn_len_app. reflexivity. Qed.

Lemma to_nat_Zlen {A} (l : list A) : Z.to_nat (Zlen l) = length l.
Proof. unfold Zlen. lia. Qed.

Lemma slice_mid (P X R : list N) :
  slice (P ++ X ++ R) (Zlen P) (Zlen P + Zlen X) = Ok X.
Proof.
  unfold slice. pose proof (Zlen_nonneg P). pose proof (Zlen_nonneg X). pose proof (Zlen_nonneg R).
  rewrite !Zlen_app.
  replace ((0 <=? Zlen P) && (Zlen P <=? Zlen P + Zlen X) && (Zlen P + Zlen X <=? Zlen P + (Zlen X + Zlen R)))
    with true by lia.
  replace (Zlen P + Zlen X - Zlen P) with (Zlen X) by lia.
  rewrite !to_nat_Zlen, skipn_len_app0, firstn_len_app. reflexivity.
Qed.

Lemma copy_into_mid (P X Y R : list N) : length X = length Y ->
  copy_into (P ++ X ++ R) (Zlen P) (Zlen P + Zlen X) Y = Ok (P ++ Y ++ R).
Proof.
  intros Hxy. unfold copy_into.
  pose proof (Zlen_nonneg P). pose proof (Zlen_nonneg X). pose proof (Zlen_nonneg R).
  rewrite !Zlen_app.
  replace ((0 <=? Zlen P) && (Zlen P <=? Zlen P + Zlen X) && (Zlen P + Zlen X <=? Zlen P + (Zlen X + Zlen R)))
    with true by lia.
  replace (Zlen P + Zlen X - Zlen P) with (Zlen X) by lia.
  assert (HZ : Zlen X = Zlen Y) by (unfold Zlen; lia).
  rewrite HZ, Z.min_id, !to_nat_Zlen.
  rewrite firstn_len_app. rewrite firstn_all.
  rewrite skipn_len_app. rewrite <- Hxy, skipn_len_app0. reflexivity.
Qed.

(* ---------- be32 ---------- *)
Lemma be32_dec_be32 k : (k < 4294967296)%N -> be32_dec (be32 k) = Z.of_N k.
Proof.
  intros Hk. unfold be32_dec, be32. cbn [fold_left]. f_equal. lia.
Qed.

Lemma put_be32_len n : fits32 n = true -> put_be32 (Zlen n) = be32 (lenN n).
Proof.
  unfold fits32, put_be32, u32z, lenN, Zlen. intros H. f_equal.
  rewrite Z.mod_small by lia. lia.
Qed.

Lemma length_be32 k : length (be32 k) = 4%nat.
Proof. reflexivity. Qed.

Lemma Zlen_be32 k : Zlen (be32 k) = 4.
Proof. reflexivity. Qed.

Lemma Zlen_nil : Zlen (@nil N) = 0.
Proof. reflexivity. Qed.

Ltac zlen := repeat (rewrite Zlen_app || rewrite Zlen_cons || rewrite Zlen_be32 || rewrite Zlen_nil).
Ltac zlen_in H := repeat (rewrite Zlen_app in H || rewrite Zlen_cons in H || rewrite Zlen_be32 in H || rewrite Zlen_nil in H).

(* ---------- ConvertByteStreamToNaluSample ---------- *)
Definition units_fit (us : list (bool * list N)) : bool := forallb (fun u => fits32 (snd u)) us.
Definition all_four (us : list (bool * list N)) : bool := forallb fst us.

Lemma sample_app_unit P n t : (P ++ be32 (lenN n) ++ n) ++ sample t = P ++ sample (n :: t).
Proof. cbn [sample]. rewrite <- !app_assoc. reflexivity. Qed.

(* in-place branch: all start codes have 4 bytes *)
Lemma inplace_spec : forall us P L,
  all_four us = true -> units_fit us = true -> L = Zlen P + Zlen (stream us) ->
  inplace_loop (P ++ stream us) L (expected_scs (Zlen P) us) = Ok (P ++ sample (map snd us)).
Proof.
  induction us as [|[f n] t IH]; intros P L H4 Hfit HL; [reflexivity|].
  cbn [all_four forallb fst] in H4. apply andb_prop in H4. destruct H4 as [Hf H4]. subst f.
  cbn [units_fit forallb snd] in Hfit. apply andb_prop in Hfit. destruct Hfit as [Hn Hfit].
  cbn [expected_scs inplace_loop sclen snd fst stream start_code map].
  set (nl := match expected_scs (Zlen P + 4 + Zlen n) t with
             | nx :: _ => snd nx - (Zlen P + 4) - 4
             | [] => L - (Zlen P + 4)
             end).
  assert (Hnl : nl = Zlen n).
  { unfold nl. destruct t as [|[f' n'] t'].
    - cbn [expected_scs]. subst L. cbn [stream start_code]. zlen. lia.
    - cbn [all_four forallb fst] in H4. apply andb_prop in H4. destruct H4 as [Hf' _]. subst f'.
      cbn [expected_scs sclen snd]. lia. }
  rewrite Hnl, put_be32_len by exact Hn.
  replace (Zlen P + 4 - 4) with (Zlen P) by lia.
  change ([0; 0; 0; 1]%N ++ n ++ stream t) with ([0; 0; 0; 1]%N ++ (n ++ stream t)).
  replace (Zlen P + 4) with (Zlen P + Zlen [0; 0; 0; 1]%N) by reflexivity.
  rewrite copy_into_mid by reflexivity. cbn [rbind].
  replace (P ++ be32 (lenN n) ++ n ++ stream t) with ((P ++ be32 (lenN n) ++ n) ++ stream t)
    by (rewrite <- !app_assoc; reflexivity).
  replace (Zlen P + Zlen [0; 0; 0; 1]%N + Zlen n) with (Zlen (P ++ be32 (lenN n) ++ n))
    by (zlen; lia).
  rewrite IH; [rewrite sample_app_unit; reflexivity|exact H4|exact Hfit|].
  subst L. cbn [stream start_code]. zlen. lia.
Qed.

(* copying branch: any mix *)
Lemma copy_spec : forall us P l,
  units_fit us = true -> l = P ++ stream us ->
  copy_loop l (Zlen l) (expected_scs (Zlen P) us) = Ok (sample (map snd us)).
Proof.
  induction us as [|[f n] t IH]; intros P l Hfit Hl; [reflexivity|].
  cbn [units_fit forallb snd] in Hfit. apply andb_prop in Hfit. destruct Hfit as [Hn Hfit].
  cbn [expected_scs copy_loop snd fst map sample].
  set (nl := match expected_scs (Zlen P + sclen f + Zlen n) t with
             | nx :: _ => snd nx - (Zlen P + sclen f) - fst nx
             | [] => Zlen l - (Zlen P + sclen f)
             end).
  assert (Hsc : Zlen (start_code f) = sclen f) by (destruct f; reflexivity).
  assert (Hnl : nl = Zlen n).
  { unfold nl. destruct t as [|[f' n'] t'].
    - cbn [expected_scs]. subst l. cbn [stream]. rewrite !Zlen_app, Hsc, Zlen_nil. lia.
    - cbn [expected_scs snd fst]. lia. }
  rewrite Hnl, put_be32_len by exact Hn.
  assert (Hl' : l = (P ++ start_code f) ++ n ++ stream t).
  { subst l. cbn [stream]. rewrite <- !app_assoc. reflexivity. }
  assert (HP' : Zlen (P ++ start_code f) = Zlen P + sclen f) by (rewrite Zlen_app, Hsc; reflexivity).
  rewrite <- HP'. rewrite Hl' at 1. rewrite slice_mid. cbn [rbind].
  specialize (IH ((P ++ start_code f) ++ n) l Hfit).
  rewrite Zlen_app in IH. rewrite IH; [reflexivity|].
  rewrite Hl'. rewrite <- !app_assoc. reflexivity.
Qed.

Lemma min_fold_le (xs : list (Z * Z)) : forall m, fold_left (fun m e => Z.min m (fst e)) xs m <= m.
Proof.
  induction xs as [|e t IH]; intros m; cbn [fold_left]; [lia|].
  specialize (IH (Z.min m (fst e))). lia.
Qed.

Lemma min4_all_four : forall us base m,
  fold_left (fun m e => Z.min m (fst e)) (expected_scs base us) m = 4 -> all_four us = true.
Proof.
  induction us as [|[f n] t IH]; intros base m H; [reflexivity|].
  cbn [expected_scs fold_left fst] in H. cbn [all_four forallb fst].
  pose proof (min_fold_le (expected_scs (base + sclen f + Zlen n) t) (Z.min m (sclen f))) as Hle.
  rewrite H in Hle. destruct f; [|cbn [sclen] in Hle; lia].
  cbn [andb]. exact (IH _ _ H).
Qed.

Lemma to_sample_spec us :
  wf_units us = true -> units_fit us = true ->
  to_nalu_sample (stream us) = Ok (sample (map snd us)).
Proof.
  intros Hwf Hfit. unfold to_nalu_sample. rewrite scan_stream by exact Hwf. cbn [rbind fst snd].
  destruct (Z.eqb_spec (min_sc_len (expected_scs 0 us)) 4) as [E|E].
  - apply min4_all_four in E.
    exact (inplace_spec us [] (Zlen (stream us)) E Hfit eq_refl).
  - exact (copy_spec us [] (stream us) Hfit eq_refl).
Qed.

(* ---------- ConvertSampleToByteStream ---------- *)
Lemma stream4_cons n t : stream4 (n :: t) = [0; 0; 0; 1]%N ++ n ++ stream4 t.
Proof. reflexivity. Qed.

Lemma s2b_spec : forall ns fuel P L,
  (length ns < fuel)%nat -> forallb fits32 ns = true -> L = Zlen P + Zlen (sample ns) ->
  s2b_loop fuel (P ++ sample ns) L (Zlen P) = Ok (P ++ stream4 ns).
Proof.
  induction ns as [|n t IH]; intros fuel P L Hf Hfit HL.
  - destruct fuel as [|f]; [cbn [length] in Hf; lia|]. cbn [s2b_loop sample stream4 stream map].
    subst L. cbn [sample]. rewrite Zlen_nil. replace (Zlen P <=? Zlen P + 0 - 4) with false by lia.
    reflexivity.
  - destruct fuel as [|f]; [lia|]. cbn [length] in Hf.
    cbn [forallb] in Hfit. apply andb_prop in Hfit. destruct Hfit as [Hn Hfit].
    cbn [s2b_loop sample].
    pose proof (Zlen_nonneg n) as Hn0. pose proof (Zlen_nonneg (sample t)) as Ht0.
    assert (HLv : L = Zlen P + 4 + Zlen n + Zlen (sample t)).
    { subst L. cbn [sample]. zlen. lia. }
    replace (Zlen P <=? L - 4) with true by lia.
    replace (Zlen P + 4) with (Zlen P + Zlen (be32 (lenN n))) by (rewrite Zlen_be32; reflexivity).
    rewrite slice_mid. cbn [rbind].
    rewrite be32_dec_be32 by (unfold fits32, Zlen in Hn; unfold lenN; lia).
    rewrite copy_into_mid by reflexivity. cbn [rbind].
    rewrite Zlen_be32.
    replace (Z.of_N (lenN n)) with (Zlen n) by (unfold lenN, Zlen; lia).
    replace (Zlen n >? L - (Zlen P + 4)) with false by lia.
    replace (P ++ [0; 0; 0; 1]%N ++ n ++ sample t) with ((P ++ [0; 0; 0; 1]%N ++ n) ++ sample t)
      by (rewrite <- !app_assoc; reflexivity).
    replace (Zlen P + 4 + Zlen n) with (Zlen (P ++ [0; 0; 0; 1]%N ++ n))
      by (zlen; lia).
    rewrite IH; [|lia|exact Hfit|].
    + rewrite stream4_cons, <- !app_assoc. reflexivity.
    + zlen. lia.
Qed.

Lemma length_sample_ge ns : (length ns <= length (sample ns))%nat.
Proof.
  induction ns as [|n t IH]; [cbn; lia|].
  cbn [sample length]. rewrite !app_length, length_be32. lia.
Qed.

Lemma to_stream_spec ns :
  forallb fits32 ns = true -> to_byte_stream (sample ns) = Ok (stream4 ns).
Proof.
  intros Hfit. unfold to_byte_stream.
  pose proof (length_sample_ge ns) as Hle.
  exact (s2b_spec ns (S (length (sample ns))) [] (Zlen (sample ns)) ltac:(lia) Hfit eq_refl).
Qed.

Lemma units_fit_map us : units_fit us = true -> forallb fits32 (map snd us) = true.
Proof. unfold units_fit. induction us as [|u t IH]; [reflexivity|]. cbn [forallb map]. intros H. apply andb_prop in H. destruct H as [H1 H2]. rewrite H1, (IH H2). reflexivity. Qed.

Lemma roundtrip_spec us :
  wf_units us = true -> units_fit us = true ->
  (do s <- to_nalu_sample (stream us); to_byte_stream s) = Ok (stream4 (map snd us)).
Proof.
  intros Hwf Hfit. rewrite to_sample_spec by assumption. cbn [rbind].
  apply to_stream_spec, units_fit_map, Hfit.
Qed.
