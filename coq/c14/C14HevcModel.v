(* C14HevcModel.v — executable Gallina transcription of the HEVC helpers, written from the Go text of
   /repo/hevc/hevc.go and /repo/hevc/annexb.go (CURRENT tree), function by function, NOT by instantiating the
   avc transcriptions of C14Model.v.  Only the Go slice primitives (getb / slice / be32_dec / res) are shared.
   Definitions only.  Conventions as in C14Model.v: byte slice = list N with cap = len, Go int = Z,
   out-of-range index / slice expression = Panic, loops on fuel.
   `append(xs, x)` on a result list is `x :: xs` on a reversed accumulator, reversed once at the end.
   GetParameterSetsFromByteStream's final repacking of the sets into one fresh backing array (totSize,
   psData, the three copy loops, the returned sub-slices of psData) IS modelled: the returned sets are
   read from the final psData, so a wrong totSize shows as a Panic or as wrong bytes. *)
From V.lib Require Import Base.
From V.c14 Require Import C14Spec C14Model.
Local Open Scope Z_scope.

(* hevc.go:89   func GetNaluType(naluHeaderStart byte) NaluType { return NaluType((naluHeaderStart >> 1) & 0x3f) } *)
Definition hevc_GetNaluType (naluHeaderStart : N) : N := N.land (N.shiftr naluHeaderStart 1) 63.

(* hevc.go:139  func IsVideoNaluType(naluType NaluType) bool { return naluType <= highestVideoNaluType }  (= 31) *)
Definition hevc_IsVideoNaluType (naluType : N) : bool := (naluType <=? 31)%N.

(* hevc.go:94   FindNaluTypes
     for pos < length-4 {
        naluLength := binary.BigEndian.Uint32(sample[pos : pos+4]); pos += 4
        naluType := GetNaluType(sample[pos]); naluList = append(naluList, naluType)
        if int64(naluLength) > int64(length-pos) { break }
        pos += int(naluLength) } *)
Fixpoint hevc_fnt_loop (fuel : nat) (sample : list N) (length pos : Z) (naluList : list N) : res (list N) :=
  match fuel with
  | O => OutOfFuel
  | S f =>
      if pos <? length - 4 then
        do lf <- slice sample pos (pos + 4);
        let naluLength := be32_dec lf in
        let pos := pos + 4 in
        do h <- getb sample pos;
        let naluType := hevc_GetNaluType h in
        let naluList := naluType :: naluList in
        if naluLength >? length - pos then Ok (rev naluList)
        else hevc_fnt_loop f sample length (pos + naluLength) naluList
      else Ok (rev naluList)
  end.
(* naluList := make([]NaluType, 0); if length < 4 { return naluList } *)
Definition hevc_FindNaluTypes (sample : list N) : res (list N) :=
  let length := Zlen sample in
  if length <? 4 then Ok [] else hevc_fnt_loop (S (List.length sample)) sample length 0 [].

(* hevc.go:115  FindNaluTypesUpToFirstVideoNalu: the same loop with, after `pos += int(naluLength)`,
     if IsVideoNaluType(naluType) { break } *)
Fixpoint hevc_fntv_loop (fuel : nat) (sample : list N) (length pos : Z) (naluList : list N) : res (list N) :=
  match fuel with
  | O => OutOfFuel
  | S f =>
      if pos <? length - 4 then
        do lf <- slice sample pos (pos + 4);
        let naluLength := be32_dec lf in
        let pos := pos + 4 in
        do h <- getb sample pos;
        let naluType := hevc_GetNaluType h in
        let naluList := naluType :: naluList in
        if naluLength >? length - pos then Ok (rev naluList)
        else
          let pos := pos + naluLength in
          if hevc_IsVideoNaluType naluType then Ok (rev naluList)
          else hevc_fntv_loop f sample length pos naluList
      else Ok (rev naluList)
  end.
Definition hevc_FindNaluTypesUpToFirstVideoNalu (sample : list N) : res (list N) :=
  let length := Zlen sample in
  if length <? 4 then Ok [] else hevc_fntv_loop (S (List.length sample)) sample length 0 [].

(* hevc.go:144  ContainsNaluType: pos := 0; length := len(sample); if length < 4 { return false }
     for pos < length-4 { naluLength := ...; pos += 4; naluType := GetNaluType(sample[pos])
        if naluType == specificNaluType { return true }
        if int64(naluLength) > int64(length-pos) { break }
        pos += int(naluLength) }
     return false *)
Fixpoint hevc_cnt_loop (fuel : nat) (sample : list N) (specificNaluType : N) (length pos : Z) : res bool :=
  match fuel with
  | O => OutOfFuel
  | S f =>
      if pos <? length - 4 then
        do lf <- slice sample pos (pos + 4);
        let naluLength := be32_dec lf in
        let pos := pos + 4 in
        do h <- getb sample pos;
        let naluType := hevc_GetNaluType h in
        if N.eqb naluType specificNaluType then Ok true
        else if naluLength >? length - pos then Ok false
        else hevc_cnt_loop f sample specificNaluType length (pos + naluLength)
      else Ok false
  end.
Definition hevc_ContainsNaluType (sample : list N) (specificNaluType : N) : res bool :=
  let length := Zlen sample in
  if length <? 4 then Ok false else hevc_cnt_loop (S (List.length sample)) sample specificNaluType length 0.

(* hevc.go:166  IsRAPSample: for _, naluType := range FindNaluTypes(sample) { if 16 <= naluType && naluType <= 23 { return true } }; return false *)
Fixpoint hevc_rap_range (l : list N) : bool :=
  match l with
  | [] => false
  | naluType :: r => if (16 <=? naluType)%N && (naluType <=? 23)%N then true else hevc_rap_range r
  end.
Definition hevc_IsRAPSample (sample : list N) : res bool :=
  do l <- hevc_FindNaluTypes sample; Ok (hevc_rap_range l).

(* hevc.go:176  IsIDRSample: ... if 19 <= naluType && naluType <= 20 { return true } *)
Fixpoint hevc_idr_range (l : list N) : bool :=
  match l with
  | [] => false
  | naluType :: r => if (19 <=? naluType)%N && (naluType <=? 20)%N then true else hevc_idr_range r
  end.
Definition hevc_IsIDRSample (sample : list N) : res bool :=
  do l <- hevc_FindNaluTypes sample; Ok (hevc_idr_range l).

(* hevc.go:186  HasParameterSets: naluTypeList := FindNaluTypesUpToFirstVideoNalu(b); var hasVPS, hasSPS, hasPPS bool
     for _, naluType := range naluTypeList {
        switch naluType { case NALU_VPS: hasVPS = true; case NALU_SPS: hasSPS = true; case NALU_PPS: hasPPS = true }
        if hasVPS && hasSPS && hasPPS { return true } }
     return false *)
Fixpoint hevc_hps_range (l : list N) (hasVPS hasSPS hasPPS : bool) : bool :=
  match l with
  | [] => false
  | naluType :: r =>
      let '(hasVPS, hasSPS, hasPPS) :=
        if N.eqb naluType 32 then (true, hasSPS, hasPPS)
        else if N.eqb naluType 33 then (hasVPS, true, hasPPS)
        else if N.eqb naluType 34 then (hasVPS, hasSPS, true)
        else (hasVPS, hasSPS, hasPPS) in
      if hasVPS && hasSPS && hasPPS then true else hevc_hps_range r hasVPS hasSPS hasPPS
  end.
Definition hevc_HasParameterSets (b : list N) : res bool :=
  do l <- hevc_FindNaluTypesUpToFirstVideoNalu b; Ok (hevc_hps_range l false false false).

(* hevc.go:207  GetParameterSets
     length := len(sample); pos := 0
     for pos < length-4 {
        naluLength := binary.BigEndian.Uint32(sample[pos : pos+4]); pos += 4
        if int64(naluLength) > int64(length-pos) { break }
        end := pos + int(naluLength)
        switch naluType := GetNaluType(sample[pos]); {
        case naluType == NALU_VPS: vps = append(vps, sample[pos:end])
        case naluType == NALU_SPS: sps = append(sps, sample[pos:end])
        case naluType == NALU_PPS: pps = append(pps, sample[pos:end])
        case naluType <= highestVideoNaluType: break naluLoop }
        pos = end }
   state: (vps, sps, pps) reversed *)
Fixpoint hevc_gps_loop (fuel : nat) (sample : list N) (length pos : Z) (vps sps pps : list (list N))
  : res (list (list N) * list (list N) * list (list N)) :=
  match fuel with
  | O => OutOfFuel
  | S f =>
      if pos <? length - 4 then
        do lf <- slice sample pos (pos + 4);
        let naluLength := be32_dec lf in
        let pos := pos + 4 in
        if naluLength >? length - pos then Ok (rev vps, rev sps, rev pps)
        else
          let endp := pos + naluLength in
          do h <- getb sample pos;
          let naluType := hevc_GetNaluType h in
          if N.eqb naluType 32 then
            do x <- slice sample pos endp; hevc_gps_loop f sample length endp (x :: vps) sps pps
          else if N.eqb naluType 33 then
            do x <- slice sample pos endp; hevc_gps_loop f sample length endp vps (x :: sps) pps
          else if N.eqb naluType 34 then
            do x <- slice sample pos endp; hevc_gps_loop f sample length endp vps sps (x :: pps)
          else if (naluType <=? 31)%N then Ok (rev vps, rev sps, rev pps)
          else hevc_gps_loop f sample length endp vps sps pps
      else Ok (rev vps, rev sps, rev pps)
  end.
Definition hevc_GetParameterSets (sample : list N) : res (list (list N) * list (list N) * list (list N)) :=
  hevc_gps_loop (S (List.length sample)) sample (Zlen sample) 0 [] [] [].

(* ------------------------------------------------------------------ hevc/annexb.go *)
(* data[i] == 0 && data[i+1] == 0 && data[i+2] == 1, left to right with short-circuit *)
Definition hevc_sc_at (data : list N) (i : Z) : res bool :=
  do a <- getb data i;
  if is0 a then
    do b <- getb data (i + 1);
    if is0 b then do c <- getb data (i + 2); Ok (is1 c) else Ok false
  else Ok false.

(* currNaluEnd := i; for j := i - 1; j > currNaluStart; j-- { if data[j] == 0 { currNaluEnd = j } else { break } } *)
Fixpoint hevc_trim_loop (fuel : nat) (data : list N) (currNaluStart j currNaluEnd : Z) : res Z :=
  match fuel with
  | O => OutOfFuel
  | S f =>
      if j >? currNaluStart then
        do b <- getb data j;
        if is0 b then hevc_trim_loop f data currNaluStart (j - 1) j else Ok currNaluEnd
      else Ok currNaluEnd
  end.
Definition hevc_nalu_end (data : list N) (currNaluStart i : Z) : res Z :=
  hevc_trim_loop (S (List.length data)) data currNaluStart (i - 1) i.

Definition hevc_ps : Type := (list (list N) * list (list N) * list (list N))%type.

(* annexb.go:4  GetParameterSetsFromByteStream, the scanning loop (state: currNaluStart, the three lists, totSize).
   Result: inl (currNaluStart, sets, totSize) = the loop ran to i = n-3 (videoFound still false);
           inr (sets, totSize)                = `videoFound = true; break`.  The sets are reversed accumulators. *)
Fixpoint hevc_gpsb_loop (fuel : nat) (data : list N) (n i currNaluStart : Z) (acc : hevc_ps) (totSize : Z)
  : res ((Z * hevc_ps * Z) + (hevc_ps * Z)) :=
  match fuel with
  | O => OutOfFuel
  | S f =>
      if i <? n - 3 then
        do m <- hevc_sc_at data i;
        if m then
          let '(vpss, spss, ppss) := acc in
          do at' <- (if currNaluStart >? 0 then
                       do currNaluEnd <- hevc_nalu_end data currNaluStart i;
                       do h <- getb data currNaluStart;
                       let naluType := hevc_GetNaluType h in
                       if N.eqb naluType 32 then
                         do x <- slice data currNaluStart currNaluEnd;
                         Ok ((x :: vpss, spss, ppss), totSize + (currNaluEnd - currNaluStart))
                       else if N.eqb naluType 33 then
                         do x <- slice data currNaluStart currNaluEnd;
                         Ok ((vpss, x :: spss, ppss), totSize + (currNaluEnd - currNaluStart))
                       else if N.eqb naluType 34 then
                         do x <- slice data currNaluStart currNaluEnd;
                         Ok ((vpss, spss, x :: ppss), totSize + (currNaluEnd - currNaluStart))
                       else Ok ((vpss, spss, ppss), totSize)
                     else Ok ((vpss, spss, ppss), totSize));
          let currNaluStart := i + 3 in
          do h <- getb data currNaluStart;
          let nextNaluType := hevc_GetNaluType h in
          if (nextNaluType <? 32)%N then Ok (inr at')
          else hevc_gpsb_loop f data n (i + 1) currNaluStart (fst at') (snd at')
        else hevc_gpsb_loop f data n (i + 1) currNaluStart acc totSize
      else Ok (inl (currNaluStart, acc, totSize))
  end.

(* if currNaluStart > 0 && !videoFound { switch GetNaluType(data[currNaluStart]) {
     case NALU_VPS: vpss = append(vpss, data[currNaluStart:n]); totSize += n - currNaluStart ... } }
   result: the three lists in order, totSize *)
Definition hevc_gpsb_finish (data : list N) (r : (Z * hevc_ps * Z) + (hevc_ps * Z)) : res (hevc_ps * Z) :=
  match r with
  | inr ((vpss, spss, ppss), totSize) => Ok ((rev vpss, rev spss, rev ppss), totSize)
  | inl (currNaluStart, (vpss, spss, ppss), totSize) =>
      if currNaluStart >? 0 then
        do h <- getb data currNaluStart;
        let naluType := hevc_GetNaluType h in
        let n := Zlen data in
        if N.eqb naluType 32 then
          do x <- slice data currNaluStart n; Ok ((rev (x :: vpss), rev spss, rev ppss), totSize + (n - currNaluStart))
        else if N.eqb naluType 33 then
          do x <- slice data currNaluStart n; Ok ((rev vpss, rev (x :: spss), rev ppss), totSize + (n - currNaluStart))
        else if N.eqb naluType 34 then
          do x <- slice data currNaluStart n; Ok ((rev vpss, rev spss, rev (x :: ppss)), totSize + (n - currNaluStart))
        else Ok ((rev vpss, rev spss, rev ppss), totSize)
      else Ok ((rev vpss, rev spss, rev ppss), totSize)
  end.

(* pos := 0; for i := range xs { copy(psData[pos:], xs[i]); xs[i] = psData[pos : pos+len(xs[i])]; pos += len(xs[i]) }
   The new xs[i] alias psData: they are kept as (low, high) index pairs and read from the FINAL psData below.
   psData[pos:] panics when pos > len(psData); psData[pos:pos+len] panics beyond cap (= len for make). *)
Fixpoint hevc_repack_loop (psData : list N) (pos : Z) (xs : list (list N)) (views : list (Z * Z))
  : res (list N * Z * list (Z * Z)) :=
  match xs with
  | [] => Ok (psData, pos, rev views)
  | x :: r =>
      do psData' <- copy_into psData pos (Zlen psData) x;
      do _ <- slice psData' pos (pos + Zlen x);
      hevc_repack_loop psData' (pos + Zlen x) r ((pos, pos + Zlen x) :: views)
  end.

Fixpoint hevc_views (psData : list N) (vs : list (Z * Z)) : res (list (list N)) :=
  match vs with
  | [] => Ok []
  | (a, b) :: r => do x <- slice psData a b; do t <- hevc_views psData r; Ok (x :: t)
  end.

(* psData := make([]byte, totSize) (a negative size panics); the three copy loops share psData and pos *)
Definition hevc_repack (ps : hevc_ps) (totSize : Z) : res hevc_ps :=
  let '(vpss, spss, ppss) := ps in
  if totSize <? 0 then Panic
  else
    let psData := repeat 0%N (Z.to_nat totSize) in
    do r1 <- hevc_repack_loop psData 0 vpss [];
    do r2 <- hevc_repack_loop (fst (fst r1)) (snd (fst r1)) spss [];
    do r3 <- hevc_repack_loop (fst (fst r2)) (snd (fst r2)) ppss [];
    let final := fst (fst r3) in
    do v <- hevc_views final (snd r1);
    do s <- hevc_views final (snd r2);
    do p <- hevc_views final (snd r3);
    Ok (v, s, p).

Definition hevc_GetParameterSetsFromByteStream (data : list N) : res hevc_ps :=
  do r <- hevc_gpsb_loop (S (List.length data)) data (Zlen data) 0 (-1) ([], [], []) 0;
  do pt <- hevc_gpsb_finish data r;
  hevc_repack (fst pt) (snd pt).

(* annexb.go:77  ExtractNalusOfTypeFromByteStream(nType, data, stopAtVideo), the scanning loop.
   Result: inl (currNaluStart, nalus) = loop ran to the end; inr nalus = `return nalus` inside the loop. *)
Fixpoint hevc_enot_loop (fuel : nat) (nType : N) (stopAtVideo : bool) (data : list N) (n i currNaluStart : Z)
         (nalus : list (list N)) : res ((Z * list (list N)) + list (list N)) :=
  match fuel with
  | O => OutOfFuel
  | S f =>
      if i <? n - 3 then
        do m <- hevc_sc_at data i;
        if m then
          do nalus' <- (if currNaluStart >? 0 then
                          do currNaluEnd <- hevc_nalu_end data currNaluStart i;
                          do h <- getb data currNaluStart;
                          let naluType := hevc_GetNaluType h in
                          if N.eqb naluType nType then
                            do x <- slice data currNaluStart currNaluEnd; Ok (x :: nalus)
                          else Ok nalus
                        else Ok nalus);
          let currNaluStart := i + 3 in
          do ret <- (if currNaluStart <? n then
                       do h <- getb data currNaluStart;
                       let nextNaluType := hevc_GetNaluType h in
                       Ok (stopAtVideo && (nextNaluType <? 32)%N)
                     else Ok false);
          if ret then Ok (inr nalus')
          else hevc_enot_loop f nType stopAtVideo data n (i + 1) currNaluStart nalus'
        else hevc_enot_loop f nType stopAtVideo data n (i + 1) currNaluStart nalus
      else Ok (inl (currNaluStart, nalus))
  end.

(* if currNaluStart < 0 { return nil }; if GetNaluType(data[currNaluStart]) == nType { nalus = append(nalus, extractSlice(data, currNaluStart, n)) } *)
Definition hevc_enot_finish (nType : N) (data : list N) (r : (Z * list (list N)) + list (list N))
  : res (list (list N)) :=
  match r with
  | inr nalus => Ok (rev nalus)
  | inl (currNaluStart, nalus) =>
      if currNaluStart <? 0 then Ok []
      else
        do h <- getb data currNaluStart;
        if N.eqb (hevc_GetNaluType h) nType then
          do x <- slice data currNaluStart (Zlen data); Ok (rev (x :: nalus))
        else Ok (rev nalus)
  end.
Definition hevc_ExtractNalusOfTypeFromByteStream (nType : N) (data : list N) (stopAtVideo : bool)
  : res (list (list N)) :=
  do r <- hevc_enot_loop (S (List.length data)) nType stopAtVideo data (Zlen data) 0 (-1) [];
  hevc_enot_finish nType data r.
