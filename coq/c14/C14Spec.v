(* C14Spec.v — naive specifications for C14: byte-by-byte start-code scan, Annex B stream and
   length-prefixed sample built from a NAL unit list, well-formedness of units.  Definitions only.
   Bytes are N (< 256), Go `int` values (positions, lengths) are Z. *)
From V.lib Require Import Base.
Local Open Scope Z_scope.

Definition Zlen {A} (l : list A) : Z := Z.of_nat (length l).

Definition is0 (b : N) : bool := N.eqb b 0%N.
Definition is1 (b : N) : bool := N.eqb b 1%N.

(* total read used by the SPECIFICATION only (always under an explicit range guard);
   the default 2 is neither of the two byte values a start code is made of *)
Definition zget (l : list N) (i : Z) : N := nth (Z.to_nat i) l 2%N.

Fixpoint zrange (s : Z) (n : nat) : list Z :=
  match n with O => [] | S k => s :: zrange (s + 1) k end.

(* a start code 00 00 01 begins at p and at least one byte follows it *)
Definition is_sc (l : list N) (p : Z) : bool :=
  (0 <=? p) && (p + 3 <? Zlen l) && is0 (zget l p) && is0 (zget l (p + 1)) && is1 (zget l (p + 2)).
(* it is a 4-byte start code iff the byte before is zero *)
Definition sc_len (l : list N) (p : Z) : Z :=
  if (1 <=? p) && is0 (zget l (p - 1)) then 4 else 3.
(* (startCodeLength, startPos) as the Go scanner reports them *)
Definition scs (l : list N) (p : Z) : list (Z * Z) :=
  if is_sc l p then [(sc_len l p, p + 3)] else [].

Definition naive_scan (l : list N) : list (Z * Z) := flat_map (scs l) (zrange 0 (length l)).
Definition min_sc_len (x : list (Z * Z)) : Z := fold_left (fun m e => Z.min m (fst e)) x 4.

(* the same scan written as a structural recursion over the byte list (prev0 = previous byte is 0) *)
Fixpoint nscan (prev0 : bool) (pos : Z) (l : list N) : list (Z * Z) :=
  match l with
  | [] => []
  | b :: t =>
      (match t with
       | c :: d :: _ :: _ => if is0 b && is0 c && is1 d then [(if prev0 then 4 else 3, pos + 3)] else []
       | _ => []
       end) ++ nscan (is0 b) (pos + 1) t
  end.

(* ---------- streams and samples built from a unit list ---------- *)
Definition start_code (four : bool) : list N := if four then [0;0;0;1]%N else [0;0;1]%N.

(* every unit comes with the length of the start code in front of it *)
Fixpoint stream (us : list (bool * list N)) : list N :=
  match us with
  | [] => []
  | (four, n) :: t => start_code four ++ n ++ stream t
  end.

Definition be32 (k : N) : list N :=
  [(k / 16777216) mod 256; (k / 65536) mod 256; (k / 256) mod 256; k mod 256]%N.

Fixpoint sample (ns : list (list N)) : list N :=
  match ns with
  | [] => []
  | n :: t => be32 (lenN n) ++ n ++ sample t
  end.

Definition stream4 (ns : list (list N)) : list N := stream (map (fun n => (true, n)) ns).

(* ---------- well-formed units ---------- *)
(* no 00 00 01 anywhere inside *)
Fixpoint no_sc3 (l : list N) : bool :=
  match l with
  | a :: t =>
      match t with
      | b :: c :: _ => negb (is0 a && is0 b && is1 c) && no_sc3 t
      | _ => true
      end
  | [] => true
  end.

Definition last_nonzero (n : list N) : bool := negb (is0 (last n 0%N)).

Definition wf_nalu (n : list N) : bool :=
  match n with [] => false | _ => true end && last_nonzero n && no_sc3 n && bytes_ok n.

(* the unit length fits the 4-byte length field *)
Definition fits32 (n : list N) : bool := Zlen n <? 4294967296.

Definition sclen (four : bool) : Z := if four then 4 else 3.
(* the (startCodeLength, startPos) list of `stream us` laid out from offset base *)
Fixpoint expected_scs (base : Z) (us : list (bool * list N)) : list (Z * Z) :=
  match us with
  | [] => []
  | (f, n) :: t => (sclen f, base + sclen f) :: expected_scs (base + sclen f + Zlen n) t
  end.

Definition wf_units (us : list (bool * list N)) : bool := forallb (fun u => wf_nalu (snd u)) us.
Definition wf_nalus (ns : list (list N)) : bool := forallb wf_nalu ns.

(* ---------- NAL unit types ---------- *)
Definition avc_type (hdr : N) : N := N.land hdr 31.
Definition hevc_type (hdr : N) : N := N.land (N.shiftr hdr 1) 63.
Definition hd0 (n : list N) : N := hd 0%N n.   (* units are non-empty under wf_nalu *)

(* ---------- the "obvious list functions" the helpers are compared with ---------- *)
Definition nonempty (n : list N) : bool := match n with [] => false | _ => true end.
Definition walkable (ns : list (list N)) : bool := forallb (fun n => nonempty n && fits32 n) ns.

Definition utype (ty : N -> N) (n : list N) : N := ty (hd0 n).
(* types up to and including the first video unit *)
Fixpoint types_upto (ty : N -> N) (isv : N -> bool) (ns : list (list N)) : list N :=
  match ns with
  | [] => []
  | n :: t => utype ty n :: (if isv (utype ty n) then [] else types_upto ty isv t)
  end.
(* units strictly before the first video unit *)
Fixpoint before_video (ty : N -> N) (isv : N -> bool) (ns : list (list N)) : list (list N) :=
  match ns with
  | [] => []
  | n :: t => if isv (utype ty n) then [] else n :: before_video ty isv t
  end.
Definition of_type (ty : N -> N) (want : N) (ns : list (list N)) : list (list N) :=
  filter (fun n => N.eqb (utype ty n) want) ns.
Definition has_type (ty : N -> N) (want : N) (ns : list (list N)) : bool :=
  existsb (fun n => N.eqb (utype ty n) want) ns.
(* first video unit, [] when there is none *)
Fixpoint first_video (ty : N -> N) (isv : N -> bool) (ns : list (list N)) : list N :=
  match ns with
  | [] => []
  | n :: t => if isv (utype ty n) then n else first_video ty isv t
  end.
