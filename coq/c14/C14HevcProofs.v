(* C14HevcProofs.v — the HEVC helpers transcribed from the hevc Go text (C14HevcModel.v):
   1. on EVERY input (any byte string, any fuel) they compute what the shared loop transcriptions of
      C14Model.v instantiated with the HEVC type function compute (so the two hand transcriptions agree);
   2. on samples / streams built from HEVC NAL units with a two-byte header they return the obvious list
      functions of the unit list, the unit type being bits 14..9 of the 16-bit header (C14HevcSpec.v). *)
From V.lib Require Import Base.
From V.c14 Require Import C14Spec C14Model C14HevcSpec C14HevcModel.
From V.c14 Require Import C14WordProofs C14ScanProofs C14ConvProofs C14WalkProofs C14StreamProofs C14HevcPackProofs.
Local Open Scope Z_scope.

(* ------------------------------------------------------------------ 1. agreement of the two transcriptions *)
Lemma hevc_GetNaluType_eq h : hevc_GetNaluType h = hevc_type h.
Proof. reflexivity. Qed.

Lemma hevc_IsVideo_eq t : hevc_IsVideoNaluType t = hevc_is_video t.
Proof. reflexivity. Qed.

Lemma hevc_fnt_loop_eq : forall fuel s len pos acc,
  hevc_fnt_loop fuel s len pos acc = walk_loop hevc_type None fuel s len pos acc.
Proof.
  induction fuel as [|f IH]; intros s len pos acc; [reflexivity|].
  cbn [hevc_fnt_loop walk_loop].
  destruct (pos <? len - 4); [|reflexivity].
  destruct (slice s pos (pos + 4)) as [lf| | |]; cbn [rbind]; try reflexivity.
  destruct (getb s (pos + 4)) as [h| | |]; cbn [rbind]; try reflexivity.
  rewrite hevc_GetNaluType_eq.
  destruct (be32_dec lf >? len - (pos + 4)); [reflexivity|]. apply IH.
Qed.

Lemma hevc_fntv_loop_eq : forall fuel s len pos acc,
  hevc_fntv_loop fuel s len pos acc = walk_loop hevc_type (Some hevc_is_video) fuel s len pos acc.
Proof.
  induction fuel as [|f IH]; intros s len pos acc; [reflexivity|].
  cbn [hevc_fntv_loop walk_loop].
  destruct (pos <? len - 4); [|reflexivity].
  destruct (slice s pos (pos + 4)) as [lf| | |]; cbn [rbind]; try reflexivity.
  destruct (getb s (pos + 4)) as [h| | |]; cbn [rbind]; try reflexivity.
  rewrite hevc_GetNaluType_eq, hevc_IsVideo_eq.
  destruct (be32_dec lf >? len - (pos + 4)); [reflexivity|].
  destruct (hevc_is_video (hevc_type h)); [reflexivity|]. apply IH.
Qed.

Lemma hevc_cnt_loop_eq : forall fuel s want len pos,
  hevc_cnt_loop fuel s want len pos = contains_loop hevc_type want fuel s len pos.
Proof.
  induction fuel as [|f IH]; intros s want len pos; [reflexivity|].
  cbn [hevc_cnt_loop contains_loop].
  destruct (pos <? len - 4); [|reflexivity].
  destruct (slice s pos (pos + 4)) as [lf| | |]; cbn [rbind]; try reflexivity.
  destruct (getb s (pos + 4)) as [h| | |]; cbn [rbind]; try reflexivity.
  rewrite hevc_GetNaluType_eq.
  destruct (N.eqb (hevc_type h) want); [reflexivity|].
  destruct (be32_dec lf >? len - (pos + 4)); [reflexivity|]. apply IH.
Qed.

Lemma hevc_rap_range_eq l : hevc_rap_range l = existsb (fun t => (16 <=? t)%N && (t <=? 23)%N) l.
Proof.
  induction l as [|t r IH]; [reflexivity|]. cbn [hevc_rap_range existsb].
  destruct ((16 <=? t)%N && (t <=? 23)%N); [reflexivity|exact IH].
Qed.

Lemma hevc_idr_range_eq l : hevc_idr_range l = existsb (fun t => (19 <=? t)%N && (t <=? 20)%N) l.
Proof.
  induction l as [|t r IH]; [reflexivity|]. cbn [hevc_idr_range existsb].
  destruct ((19 <=? t)%N && (t <=? 20)%N); [reflexivity|exact IH].
Qed.

Lemma hevc_hps_range_eq : forall l a b c, hevc_hps_range l a b c = hevc_hps_loop l a b c.
Proof.
  induction l as [|t r IH]; intros a b c; [reflexivity|].
  cbn [hevc_hps_range hevc_hps_loop].
  destruct (N.eqb_spec t 32) as [E32|E32].
  - subst t. cbn [N.eqb Pos.eqb]. destruct (true && b && c); [reflexivity|apply IH].
  - destruct (N.eqb_spec t 33) as [E33|E33].
    + subst t. cbn [N.eqb Pos.eqb]. destruct (a && true && c); [reflexivity|apply IH].
    + destruct (N.eqb_spec t 34) as [E34|E34].
      * destruct (a && b && true); [reflexivity|apply IH].
      * destruct (a && b && c); [reflexivity|apply IH].
Qed.

Lemma hevc_ps_class_32 : hevc_ps_class 32 = 0%N. Proof. reflexivity. Qed.
Lemma hevc_ps_class_33 : hevc_ps_class 33 = 1%N. Proof. reflexivity. Qed.
Lemma hevc_ps_class_34 : hevc_ps_class 34 = 2%N. Proof. reflexivity. Qed.
Lemma hevc_ps_class_other t : t <> 32%N -> t <> 33%N -> t <> 34%N ->
  hevc_ps_class t = if (t <=? 31)%N then 3%N else 4%N.
Proof.
  intros A B C. unfold hevc_ps_class, hevc_is_video.
  destruct (N.eqb_spec t 32); [contradiction|]. destruct (N.eqb_spec t 33); [contradiction|].
  destruct (N.eqb_spec t 34); [contradiction|]. reflexivity.
Qed.

Lemma hevc_gps_loop_eq : forall fuel s len pos v sp p,
  hevc_gps_loop fuel s len pos v sp p = gps_loop hevc_type hevc_ps_class fuel s len pos (v, sp, p).
Proof.
  induction fuel as [|f IH]; intros s len pos v sp p; [reflexivity|].
  cbn [hevc_gps_loop gps_loop].
  destruct (pos <? len - 4); [|reflexivity].
  destruct (slice s pos (pos + 4)) as [lf| | |]; cbn [rbind]; try reflexivity.
  destruct (be32_dec lf >? len - (pos + 4)); [reflexivity|].
  destruct (getb s (pos + 4)) as [h| | |]; cbn [rbind]; try reflexivity.
  rewrite hevc_GetNaluType_eq.
  destruct (N.eqb_spec (hevc_type h) 32) as [E32|E32].
  { rewrite E32, hevc_ps_class_32. cbn [N.leb N.compare].
    destruct (slice s (pos + 4) (pos + 4 + be32_dec lf)) as [x| | |]; cbn [rbind]; try reflexivity.
    rewrite IH. reflexivity. }
  destruct (N.eqb_spec (hevc_type h) 33) as [E33|E33].
  { rewrite E33, hevc_ps_class_33. cbn [N.leb N.compare Pos.compare Pos.compare_cont].
    destruct (slice s (pos + 4) (pos + 4 + be32_dec lf)) as [x| | |]; cbn [rbind]; try reflexivity.
    rewrite IH. reflexivity. }
  destruct (N.eqb_spec (hevc_type h) 34) as [E34|E34].
  { rewrite E34, hevc_ps_class_34. cbn [N.leb N.compare Pos.compare Pos.compare_cont].
    destruct (slice s (pos + 4) (pos + 4 + be32_dec lf)) as [x| | |]; cbn [rbind]; try reflexivity.
    rewrite IH. reflexivity. }
  rewrite (hevc_ps_class_other _ E32 E33 E34).
  destruct (hevc_type h <=? 31)%N; cbn [N.leb N.compare Pos.compare Pos.compare_cont N.eqb Pos.eqb].
  - reflexivity.
  - apply IH.
Qed.

Lemma hevc_trim_loop_eq : forall fuel d start j e, hevc_trim_loop fuel d start j e = trim_loop fuel d start j e.
Proof.
  induction fuel as [|f IH]; intros d start j e; [reflexivity|].
  cbn [hevc_trim_loop trim_loop]. destruct (j >? start); [|reflexivity].
  destruct (getb d j) as [b| | |]; cbn [rbind]; try reflexivity.
  all: try (destruct (is0 b); [apply IH|reflexivity]).
Qed.

Lemma hevc_nalu_end_eq d start i : hevc_nalu_end d start i = trim_end d start i.
Proof. apply hevc_trim_loop_eq. Qed.

Lemma hevc_sc_at_eq d i : hevc_sc_at d i = sc_at d i.
Proof. reflexivity. Qed.

Lemma rbind_ext {A B} (r : res A) (f g : A -> res B) : (forall x, f x = g x) -> rbind r f = rbind r g.
Proof. intros H. destruct r; cbn [rbind]; [apply H|reflexivity|reflexivity|reflexivity]. Qed.

Lemma rbind_assoc {A B C} (r : res A) (f : A -> res B) (g : B -> res C) :
  rbind (rbind r f) g = rbind r (fun x => rbind (f x) g).
Proof. destruct r; reflexivity. Qed.

(* the scanning loop of GetParameterSetsFromByteStream: the sets are those of the shared loop, and totSize
   grows by exactly the lengths of the sets appended *)
Definition attach (tot0 : Z) (r : (Z * ps3) + ps3) : (Z * hevc_ps * Z) + (hevc_ps * Z) :=
  match r with
  | inl (c, a) => inl (c, a, tot0 + sum3 a)
  | inr a => inr (a, tot0 + sum3 a)
  end.

Lemma hevc_gpsb_loop_eq d tot0 : forall fuel n i cur acc,
  hevc_gpsb_loop fuel d n i cur acc (tot0 + sum3 acc) =
  (do r <- bs_loop (gpsb_body hevc_type hevc_ps_class 32 d) fuel d n i (cur, acc); Ok (attach tot0 r)).
Proof.
  induction fuel as [|f IH]; intros n i cur acc; [reflexivity|].
  cbn [hevc_gpsb_loop bs_loop].
  destruct (i <? n - 3); [|reflexivity].
  rewrite hevc_sc_at_eq. destruct (sc_at d i) as [m| | |]; cbn [rbind]; try reflexivity.
  destruct m; [|apply IH].
  assert (Hnext : forall acc' : hevc_ps,
    (do h0 <- getb d (i + 3);
     if (hevc_GetNaluType h0 <? 32)%N then Ok (inr (acc', tot0 + sum3 acc'))
     else hevc_gpsb_loop f d n (i + 1) (i + 3) acc' (tot0 + sum3 acc'))
    = (do r <- (do r0 <- (do h0 <- getb d (i + 3);
                          if (hevc_type h0 <? 32)%N then Ok (inr acc') else Ok (inl (i + 3, acc')));
                match r0 with
                | inl st' => bs_loop (gpsb_body hevc_type hevc_ps_class 32 d) f d n (i + 1) st'
                | inr x => Ok (inr x)
                end);
       Ok (attach tot0 r))).
  { intros acc'. destruct (getb d (i + 3)) as [h0| | |]; cbn [rbind]; try reflexivity.
    rewrite hevc_GetNaluType_eq. destruct (hevc_type h0 <? 32)%N; cbn [rbind attach]; [reflexivity|apply IH]. }
  destruct acc as [[v sp] p]. unfold gpsb_body.
  destruct (cur >? 0).
  - rewrite hevc_nalu_end_eq. destruct (trim_end d cur i) as [e| | |]; cbn [rbind]; try reflexivity.
    destruct (getb d cur) as [h| | |]; cbn [rbind]; try reflexivity.
    rewrite hevc_GetNaluType_eq.
    destruct (N.eqb_spec (hevc_type h) 32) as [E32|E32].
    { rewrite E32, hevc_ps_class_32. cbn [N.leb N.compare].
      destruct (slice d cur e) as [x| | |] eqn:Hsl; cbn [rbind fst snd]; try reflexivity.
      replace (tot0 + sum3 (v, sp, p) + (e - cur)) with (tot0 + sum3 (x :: v, sp, p))
        by (cbn [sum3]; rewrite sum_len_cons, (slice_Zlen _ _ _ _ Hsl); lia).
      apply Hnext. }
    destruct (N.eqb_spec (hevc_type h) 33) as [E33|E33].
    { rewrite E33, hevc_ps_class_33. cbn [N.leb N.compare Pos.compare Pos.compare_cont].
      destruct (slice d cur e) as [x| | |] eqn:Hsl; cbn [rbind fst snd]; try reflexivity.
      replace (tot0 + sum3 (v, sp, p) + (e - cur)) with (tot0 + sum3 (v, x :: sp, p))
        by (cbn [sum3]; rewrite sum_len_cons, (slice_Zlen _ _ _ _ Hsl); lia).
      apply Hnext. }
    destruct (N.eqb_spec (hevc_type h) 34) as [E34|E34].
    { rewrite E34, hevc_ps_class_34. cbn [N.leb N.compare Pos.compare Pos.compare_cont].
      destruct (slice d cur e) as [x| | |] eqn:Hsl; cbn [rbind fst snd]; try reflexivity.
      replace (tot0 + sum3 (v, sp, p) + (e - cur)) with (tot0 + sum3 (v, sp, x :: p))
        by (cbn [sum3]; rewrite sum_len_cons, (slice_Zlen _ _ _ _ Hsl); lia).
      apply Hnext. }
    rewrite (hevc_ps_class_other _ E32 E33 E34).
    destruct (hevc_type h <=? 31)%N; cbn [N.leb N.compare Pos.compare Pos.compare_cont rbind fst snd]; apply Hnext.
  - cbn [rbind fst snd]. apply Hnext.
Qed.

(* the part after the loop: last unit, then the order reversal; totSize stays the total length *)
Lemma hevc_gpsb_finish_eq d tot0 r :
  hevc_gpsb_finish d (attach tot0 r) =
  (do a <- gpsb_finish hevc_type hevc_ps_class d r; Ok (a, tot0 + sum3 a)).
Proof.
  assert (Hrev : forall v sp p, sum3 (rev v, rev sp, rev p) = sum3 (v, sp, p))
    by (intros; cbn [sum3]; rewrite !sum_len_rev; reflexivity).
  destruct r as [[cur [[v sp] p]]|[[v sp] p]]; cbn [attach hevc_gpsb_finish gpsb_finish ps_rev rbind].
  2:{ rewrite Hrev. reflexivity. }
  destruct (cur >? 0); cbn [rbind ps_rev]; [|rewrite Hrev; reflexivity].
  destruct (getb d cur) as [h| | |]; cbn [rbind ps_rev]; try reflexivity.
  rewrite hevc_GetNaluType_eq.
  destruct (N.eqb_spec (hevc_type h) 32) as [E32|E32].
  { rewrite E32, hevc_ps_class_32. cbn [N.leb N.compare].
    destruct (slice d cur (Zlen d)) as [x| | |] eqn:Hsl; cbn [rbind ps_add N.eqb ps_rev]; try reflexivity.
    rewrite Hrev. cbn [sum3]. rewrite sum_len_cons, (slice_Zlen _ _ _ _ Hsl). apply f_equal. apply f_equal. lia. }
  destruct (N.eqb_spec (hevc_type h) 33) as [E33|E33].
  { rewrite E33, hevc_ps_class_33. cbn [N.leb N.compare Pos.compare Pos.compare_cont].
    destruct (slice d cur (Zlen d)) as [x| | |] eqn:Hsl; cbn [rbind ps_add N.eqb Pos.eqb ps_rev]; try reflexivity.
    rewrite Hrev. cbn [sum3]. rewrite sum_len_cons, (slice_Zlen _ _ _ _ Hsl). apply f_equal. apply f_equal. lia. }
  destruct (N.eqb_spec (hevc_type h) 34) as [E34|E34].
  { rewrite E34, hevc_ps_class_34. cbn [N.leb N.compare Pos.compare Pos.compare_cont].
    destruct (slice d cur (Zlen d)) as [x| | |] eqn:Hsl; cbn [rbind ps_add N.eqb Pos.eqb ps_rev]; try reflexivity.
    rewrite Hrev. cbn [sum3]. rewrite sum_len_cons, (slice_Zlen _ _ _ _ Hsl). apply f_equal. apply f_equal. lia. }
  rewrite (hevc_ps_class_other _ E32 E33 E34).
  destruct (hevc_type h <=? 31)%N; cbn [N.leb N.compare Pos.compare Pos.compare_cont rbind ps_rev]; rewrite Hrev; reflexivity.
Qed.

(* the whole function: scanning loop, last unit, repacking into psData -- equal to the shared transcription
   (which returns the sub-slices of data directly), on every input *)
Lemma hevc_gpsb_eq s : hevc_GetParameterSetsFromByteStream s = hevc_get_parameter_sets_from_byte_stream s.
Proof.
  unfold hevc_GetParameterSetsFromByteStream, hevc_get_parameter_sets_from_byte_stream,
    get_parameter_sets_from_byte_stream.
  pose proof (hevc_gpsb_loop_eq s 0 (S (length s)) (Zlen s) 0 (-1) ([], [], [])) as HL.
  change (0 + sum3 ([], [], [])) with 0 in HL. rewrite HL. clear HL.
  rewrite rbind_assoc. apply rbind_ext. intros r. cbn [rbind].
  rewrite hevc_gpsb_finish_eq.
  destruct (gpsb_finish hevc_type hevc_ps_class s r) as [[[v sp] p]| | |]; cbn [rbind fst snd]; try reflexivity.
  rewrite Z.add_0_l. apply repack_exact.
Qed.

Lemma hevc_enot_loop_eq want stop d : forall fuel n i cur acc, n = Zlen d ->
  hevc_enot_loop fuel want stop d n i cur acc = bs_loop (enot_body hevc_type 32 want stop d) fuel d n i (cur, acc).
Proof.
  induction fuel as [|f IH]; intros n i cur acc Hn; [reflexivity|].
  cbn [hevc_enot_loop bs_loop].
  destruct (i <? n - 3); [|reflexivity].
  rewrite hevc_sc_at_eq. destruct (sc_at d i) as [m| | |]; cbn [rbind]; try reflexivity.
  destruct m; [|apply IH; exact Hn].
  unfold enot_body. subst n.
  assert (Hnext : forall acc' : list (list N),
    (do ret <- (if i + 3 <? Zlen d then do h <- getb d (i + 3); Ok (stop && (hevc_GetNaluType h <? 32)%N) else Ok false);
     if ret then Ok (inr acc') else hevc_enot_loop f want stop d (Zlen d) (i + 1) (i + 3) acc')
    = (do r <- (do ret <- (if i + 3 <? Zlen d then do h <- getb d (i + 3); Ok (stop && (hevc_type h <? 32)%N) else Ok false);
                if ret then Ok (inr acc') else Ok (inl (i + 3, acc')));
       match r with
       | inl st' => bs_loop (enot_body hevc_type 32 want stop d) f d (Zlen d) (i + 1) st'
       | inr x => Ok (inr x)
       end)).
  { intros acc'. destruct (i + 3 <? Zlen d).
    - destruct (getb d (i + 3)) as [h| | |]; cbn [rbind]; try reflexivity.
      rewrite hevc_GetNaluType_eq. destruct (stop && (hevc_type h <? 32)%N); cbn [rbind]; [reflexivity|apply IH; reflexivity].
    - cbn [rbind]. apply IH; reflexivity. }
  destruct (cur >? 0).
  - rewrite hevc_nalu_end_eq. destruct (trim_end d cur i) as [e| | |]; cbn [rbind]; try reflexivity.
    destruct (getb d cur) as [h| | |]; cbn [rbind]; try reflexivity.
    rewrite hevc_GetNaluType_eq.
    destruct (N.eqb (hevc_type h) want).
    + destruct (slice d cur e) as [x| | |]; cbn [rbind]; try reflexivity. apply Hnext.
    + cbn [rbind]. apply Hnext.
  - cbn [rbind]. apply Hnext.
Qed.

Lemma hevc_enot_finish_eq want d r : hevc_enot_finish want d r = enot_finish hevc_type want d r.
Proof. destruct r as [[cur acc]|acc]; reflexivity. Qed.

(* the nine HEVC entry points: own transcription = shared-loop instantiation, on every input *)
Lemma hevc_transcriptions_agree : forall s : list N,
  hevc_FindNaluTypes s = hevc_find_nalu_types s /\
  hevc_FindNaluTypesUpToFirstVideoNalu s = hevc_find_nalu_types_up_to_video s /\
  (forall want, hevc_ContainsNaluType s want = hevc_contains_nalu_type s want) /\
  hevc_IsRAPSample s = hevc_is_rap_sample s /\
  hevc_IsIDRSample s = hevc_is_idr_sample s /\
  hevc_HasParameterSets s = hevc_has_parameter_sets s /\
  hevc_GetParameterSets s = hevc_get_parameter_sets s /\
  hevc_GetParameterSetsFromByteStream s = hevc_get_parameter_sets_from_byte_stream s /\
  (forall want stop, hevc_ExtractNalusOfTypeFromByteStream want s stop = hevc_extract_nalus_of_type want stop s).
Proof.
  intros s.
  assert (H1 : hevc_FindNaluTypes s = hevc_find_nalu_types s).
  { unfold hevc_FindNaluTypes, hevc_find_nalu_types. destruct (Zlen s <? 4); [reflexivity|apply hevc_fnt_loop_eq]. }
  assert (H2 : hevc_FindNaluTypesUpToFirstVideoNalu s = hevc_find_nalu_types_up_to_video s).
  { unfold hevc_FindNaluTypesUpToFirstVideoNalu, hevc_find_nalu_types_up_to_video.
    destruct (Zlen s <? 4); [reflexivity|apply hevc_fntv_loop_eq]. }
  split; [exact H1|]. split; [exact H2|].
  split.
  { intros want. unfold hevc_ContainsNaluType, hevc_contains_nalu_type.
    destruct (Zlen s <? 4); [reflexivity|apply hevc_cnt_loop_eq]. }
  split.
  { unfold hevc_IsRAPSample, hevc_is_rap_sample. rewrite H1.
    destruct (hevc_find_nalu_types s); cbn [rbind]; try reflexivity; rewrite hevc_rap_range_eq; reflexivity. }
  split.
  { unfold hevc_IsIDRSample, hevc_is_idr_sample. rewrite H1.
    destruct (hevc_find_nalu_types s); cbn [rbind]; try reflexivity; rewrite hevc_idr_range_eq; reflexivity. }
  split.
  { unfold hevc_HasParameterSets, hevc_has_parameter_sets. rewrite H2.
    destruct (hevc_find_nalu_types_up_to_video s); cbn [rbind]; try reflexivity;
    rewrite hevc_hps_range_eq; reflexivity. }
  split.
  { unfold hevc_GetParameterSets, hevc_get_parameter_sets. apply hevc_gps_loop_eq. }
  split.
  { apply hevc_gpsb_eq. }
  intros want stop.
  unfold hevc_ExtractNalusOfTypeFromByteStream, hevc_extract_nalus_of_type, extract_nalus_of_type.
  rewrite hevc_enot_loop_eq by reflexivity. apply rbind_ext. intros r. apply hevc_enot_finish_eq.
Qed.

(* ------------------------------------------------------------------ 2. the two-byte header specification *)
Lemma hevc_type_two_bytes b0 b1 : (b0 < 256)%N -> (b1 < 256)%N ->
  (((b0 * 256 + b1) / 512) mod 64)%N = hevc_type b0.
Proof.
  intros H0 H1. unfold hevc_type. rewrite shiftr_div. change 63%N with (mask 6). rewrite mask_mod.
  change (2 ^ 1)%N with 2%N. change (2 ^ 6)%N with 64%N.
  f_equal. lia.
Qed.

(* the type field of the 16-bit header is what GetNaluType computes from the FIRST header byte alone *)
Lemma hevc_unit_type_first_byte n : hevc_hdr_ok n = true -> hevc_unit_type n = utype hevc_type n.
Proof.
  unfold hevc_hdr_ok. intros H. apply andb_prop in H. destruct H as [Hl Hb].
  destruct n as [|b0 [|b1 r]]; [discriminate|discriminate|].
  rewrite !bytes_ok_cons in Hb. apply andb_prop in Hb. destruct Hb as [Hb0 Hb]. apply andb_prop in Hb. destruct Hb as [Hb1 _].
  unfold byte_ok in Hb0, Hb1.
  unfold hevc_unit_type, hevc_hdr16, utype, hd0. cbn [hd].
  apply hevc_type_two_bytes; lia.
Qed.

Definition hdrs_ok (ns : list (list N)) : bool := forallb hevc_hdr_ok ns.

Lemma hdrs_ok_cons n t : hdrs_ok (n :: t) = true -> hevc_hdr_ok n = true /\ hdrs_ok t = true.
Proof. unfold hdrs_ok. cbn [forallb]. intros H. apply andb_prop in H. exact H. Qed.

Lemma hevc_units_hdrs_ok ns : hevc_units ns = true -> hdrs_ok ns = true.
Proof.
  unfold hevc_units, hdrs_ok. intros H. rewrite forallb_forall in *. intros n Hn. specialize (H n Hn).
  unfold hevc_unit in H. apply andb_prop in H. exact (proj1 H).
Qed.

Lemma hevc_units_walkable ns : hevc_units ns = true -> walkable ns = true.
Proof.
  unfold hevc_units, walkable. intros H. rewrite forallb_forall in *. intros n Hn. specialize (H n Hn).
  unfold hevc_unit, hevc_hdr_ok in H. apply andb_prop in H. destruct H as [H Hf]. apply andb_prop in H. destruct H as [Hl _].
  rewrite Hf. destruct n; [discriminate|reflexivity].
Qed.

Lemma u_types_bridge ns : hdrs_ok ns = true -> u_types hevc_unit_type ns = map (utype hevc_type) ns.
Proof.
  induction ns as [|n t IH]; intros H; [reflexivity|].
  destruct (hdrs_ok_cons n t H) as [Hn Ht]. unfold u_types in *. cbn [map].
  rewrite (hevc_unit_type_first_byte n Hn), (IH Ht). reflexivity.
Qed.

Lemma u_types_upto_bridge ns : hdrs_ok ns = true ->
  u_types_upto hevc_unit_type hevc_vcl ns = types_upto hevc_type hevc_is_video ns.
Proof.
  induction ns as [|n t IH]; intros H; [reflexivity|].
  destruct (hdrs_ok_cons n t H) as [Hn Ht]. cbn [u_types_upto types_upto].
  rewrite (hevc_unit_type_first_byte n Hn), (IH Ht). reflexivity.
Qed.

Lemma u_before_video_bridge ns : hdrs_ok ns = true ->
  u_before_video hevc_unit_type hevc_vcl ns = before_video hevc_type hevc_is_video ns.
Proof.
  induction ns as [|n t IH]; intros H; [reflexivity|].
  destruct (hdrs_ok_cons n t H) as [Hn Ht]. cbn [u_before_video before_video].
  rewrite (hevc_unit_type_first_byte n Hn), (IH Ht). reflexivity.
Qed.

Lemma u_of_type_bridge want ns : hdrs_ok ns = true ->
  u_of_type hevc_unit_type want ns = of_type hevc_type want ns.
Proof.
  induction ns as [|n t IH]; intros H; [reflexivity|].
  destruct (hdrs_ok_cons n t H) as [Hn Ht]. unfold u_of_type, of_type in *. cbn [filter].
  rewrite (hevc_unit_type_first_byte n Hn), (IH Ht). reflexivity.
Qed.

Lemma u_has_bridge (p : N -> bool) ns : hdrs_ok ns = true ->
  u_has hevc_unit_type p ns = existsb p (map (utype hevc_type) ns).
Proof.
  induction ns as [|n t IH]; intros H; [reflexivity|].
  destruct (hdrs_ok_cons n t H) as [Hn Ht]. unfold u_has in *. cbn [existsb map].
  rewrite (hevc_unit_type_first_byte n Hn), (IH Ht). reflexivity.
Qed.

Lemma has_type_existsb ty want ns : has_type ty want ns = existsb (fun t => N.eqb t want) (map (utype ty) ns).
Proof. unfold has_type. induction ns as [|n t IH]; [reflexivity|]. cbn [existsb map]. rewrite IH. reflexivity. Qed.

Lemma before_video_hdrs_ok ns : hdrs_ok ns = true -> hdrs_ok (before_video hevc_type hevc_is_video ns) = true.
Proof.
  induction ns as [|n t IH]; intros H; [reflexivity|].
  destruct (hdrs_ok_cons n t H) as [Hn Ht]. cbn [before_video].
  destruct (hevc_is_video (utype hevc_type n)); [reflexivity|].
  unfold hdrs_ok. cbn [forallb]. rewrite Hn. exact (IH Ht).
Qed.

(* ---------- samples ---------- *)
(* HEVC helpers on a sample built from units with a two-byte NAL unit header *)
Lemma helpers_hevc_own_sample ns : hevc_units ns = true ->
  let ut := hevc_unit_type in
  (ns <> [] -> get_nalus_from_sample (sample ns) = Ok ns) /\
  hevc_FindNaluTypes (sample ns) = Ok (u_types ut ns) /\
  hevc_FindNaluTypesUpToFirstVideoNalu (sample ns) = Ok (u_types_upto ut hevc_vcl ns) /\
  (forall want, hevc_ContainsNaluType (sample ns) want = Ok (u_has ut (fun t => N.eqb t want) ns)) /\
  hevc_IsRAPSample (sample ns) = Ok (u_has ut hevc_irap ns) /\
  hevc_IsIDRSample (sample ns) = Ok (u_has ut hevc_idr ns) /\
  hevc_HasParameterSets (sample ns) =
    Ok (existsb (fun t => N.eqb t 32) (u_types_upto ut hevc_vcl ns)
        && existsb (fun t => N.eqb t 33) (u_types_upto ut hevc_vcl ns)
        && existsb (fun t => N.eqb t 34) (u_types_upto ut hevc_vcl ns)) /\
  hevc_GetParameterSets (sample ns) =
    Ok (u_of_type ut 32 (u_before_video ut hevc_vcl ns),
        u_of_type ut 33 (u_before_video ut hevc_vcl ns),
        u_of_type ut 34 (u_before_video ut hevc_vcl ns)).
Proof.
  intros Hu ut. subst ut.
  pose proof (hevc_units_walkable ns Hu) as Hw. pose proof (hevc_units_hdrs_ok ns Hu) as Hh.
  destruct (hevc_transcriptions_agree (sample ns)) as [A1 [A2 [A3 [A4 [A5 [A6 [A7 _]]]]]]].
  destruct (helpers_hevc_sample ns Hw) as [B1 [B2 [B3 [B4 [B5 [B6 B7]]]]]].
  pose proof (before_video_hdrs_ok ns Hh) as Hbv.
  split; [intros Hne; exact (get_nalus_spec ns Hne Hw)|].
  split; [rewrite A1, B1, u_types_bridge by exact Hh; reflexivity|].
  split; [rewrite A2, B2, u_types_upto_bridge by exact Hh; reflexivity|].
  split.
  { intros want. rewrite A3, B3, u_has_bridge by exact Hh. rewrite has_type_existsb. reflexivity. }
  split; [rewrite A4, B4, u_has_bridge by exact Hh; reflexivity|].
  split; [rewrite A5, B5, u_has_bridge by exact Hh; reflexivity|].
  split; [rewrite A6, B6, u_types_upto_bridge by exact Hh; reflexivity|].
  rewrite A7, B7, u_before_video_bridge by exact Hh.
  rewrite !u_of_type_bridge by exact Hbv. reflexivity.
Qed.

(* ---------- byte streams ---------- *)
Lemma hevc_stream_units_parts us : hevc_stream_units us = true ->
  wf_units us = true /\ hdrs_ok (map snd us) = true.
Proof.
  unfold hevc_stream_units, wf_units, hdrs_ok. induction us as [|u t IH]; intros H; [split; reflexivity|].
  cbn [forallb map] in *. apply andb_prop in H. destruct H as [Hu Ht]. apply andb_prop in Hu. destruct Hu as [Hh Hw].
  destruct (IH Ht) as [I1 I2]. rewrite Hh, Hw, I1, I2. split; reflexivity.
Qed.

(* HEVC byte-stream helpers on an Annex B stream of units with a two-byte header, any 3/4-byte start-code mix *)
Lemma helpers_hevc_own_stream us : hevc_stream_units us = true ->
  let ut := hevc_unit_type in
  let ns := map snd us in
  extract_nalus_from_byte_stream (stream us) = Ok ns /\
  hevc_GetParameterSetsFromByteStream (stream us) =
    Ok (u_of_type ut 32 (u_before_video ut hevc_vcl ns),
        u_of_type ut 33 (u_before_video ut hevc_vcl ns),
        u_of_type ut 34 (u_before_video ut hevc_vcl ns)) /\
  (forall want stop, hevc_ExtractNalusOfTypeFromByteStream want (stream us) stop =
     Ok (u_of_type ut want (if stop then u_before_video ut hevc_vcl ns else ns))).
Proof.
  intros Hu ut ns. subst ut ns.
  destruct (hevc_stream_units_parts us Hu) as [Hw Hh].
  destruct (hevc_transcriptions_agree (stream us)) as [_ [_ [_ [_ [_ [_ [_ [A8 A9]]]]]]]].
  destruct (helpers_stream us Hw) as [B1 [_ [_ [B4 [_ B6]]]]].
  pose proof (before_video_hdrs_ok _ Hh) as Hbv.
  split; [exact B1|].
  split.
  { rewrite A8, B4, u_before_video_bridge by exact Hh. rewrite !u_of_type_bridge by exact Hbv. reflexivity. }
  intros want stop. rewrite A9, B6, u_before_video_bridge by exact Hh.
  destruct stop; rewrite u_of_type_bridge by assumption; reflexivity.
Qed.
