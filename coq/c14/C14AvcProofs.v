(* C14AvcProofs.v — avc.GetParameterSetsFromByteStream transcribed to its end (C14AvcModel.v: totSize, psData
   repacking) returns, on EVERY input, the sets the shorter transcription of C14Model.v returns. *)
From V.lib Require Import Base.
From V.c14 Require Import C14Spec C14Model C14HevcModel C14AvcModel.
From V.c14 Require Import C14ScanProofs C14ConvProofs C14HevcPackProofs C14HevcProofs.
Local Open Scope Z_scope.

Definition sum2 (a : avc_ps) : Z := sum_len (fst a) + sum_len (snd a).

Definition strip (r : (Z * avc_ps * Z) + (avc_ps * Z)) : (Z * ps3) + ps3 :=
  match r with
  | inl (c, (sp, p), _) => inl (c, ([], sp, p))
  | inr ((sp, p), _) => inr ([], sp, p)
  end.
Definition tot_of (r : (Z * avc_ps * Z) + (avc_ps * Z)) : Z :=
  match r with inl (_, _, t) => t | inr (_, t) => t end.
Definition acc_of (r : (Z * avc_ps * Z) + (avc_ps * Z)) : avc_ps :=
  match r with inl (_, a, _) => a | inr (a, _) => a end.

Lemma avc_ps_class_7 : avc_ps_class 7 = 1%N. Proof. reflexivity. Qed.
Lemma avc_ps_class_8 : avc_ps_class 8 = 2%N. Proof. reflexivity. Qed.
Lemma avc_ps_class_other t : t <> 7%N -> t <> 8%N -> avc_ps_class t = if (t <=? 5)%N then 3%N else 4%N.
Proof.
  intros A B. unfold avc_ps_class, avc_is_video.
  destruct (N.eqb_spec t 7); [contradiction|]. destruct (N.eqb_spec t 8); [contradiction|]. reflexivity.
Qed.

(* L1: the sets of the shared loop are those of the own loop (whatever totSize does) *)
Lemma avc_gpsb_loop_strip d : forall fuel n i cur sp p tot,
  bs_loop (gpsb_body avc_type avc_ps_class 6 d) fuel d n i (cur, ([], sp, p))
  = (do r <- avc_gpsb_loop fuel d n i cur (sp, p) tot; Ok (strip r)).
Proof.
  induction fuel as [|f IH]; intros n i cur sp p tot; [reflexivity|].
  cbn [avc_gpsb_loop bs_loop].
  destruct (i <? n - 3); [|reflexivity].
  change (hevc_sc_at d i) with (sc_at d i). destruct (sc_at d i) as [m| | |]; cbn [rbind]; try reflexivity.
  destruct m; [|apply IH].
  assert (Hnext : forall sp' p' tot',
    (do r <- (do h0 <- getb d (i + 3);
              if (avc_type h0 <? 6)%N then Ok (inr ([], sp', p')) else Ok (inl (i + 3, ([], sp', p'))));
     match r with
     | inl st' => bs_loop (gpsb_body avc_type avc_ps_class 6 d) f d n (i + 1) st'
     | inr x => Ok (inr x)
     end)
    = (do r <- (do h0 <- getb d (i + 3);
                if (avc_GetNaluType h0 <? 6)%N then Ok (inr ((sp', p'), tot'))
                else avc_gpsb_loop f d n (i + 1) (i + 3) (sp', p') tot');
       Ok (strip r))).
  { intros sp' p' tot'. destruct (getb d (i + 3)) as [h0| | |]; cbn [rbind]; try reflexivity.
    change (avc_GetNaluType h0) with (avc_type h0).
    destruct (avc_type h0 <? 6)%N; cbn [rbind strip]; [reflexivity|apply IH]. }
  unfold gpsb_body.
  destruct (cur >? 0).
  - change (hevc_nalu_end d cur i) with (trim_end d cur i). destruct (trim_end d cur i) as [e| | |]; cbn [rbind]; try reflexivity.
    destruct (getb d cur) as [h| | |]; cbn [rbind]; try reflexivity.
    change (avc_GetNaluType h) with (avc_type h).
    destruct (N.eqb_spec (avc_type h) 7) as [E7|E7].
    { rewrite E7, avc_ps_class_7. cbn [N.leb N.compare Pos.compare Pos.compare_cont].
      destruct (slice d cur e) as [x| | |]; cbn [rbind fst snd ps_add N.eqb Pos.eqb]; try reflexivity. apply Hnext. }
    destruct (N.eqb_spec (avc_type h) 8) as [E8|E8].
    { rewrite E8, avc_ps_class_8. cbn [N.leb N.compare Pos.compare Pos.compare_cont].
      destruct (slice d cur e) as [x| | |]; cbn [rbind fst snd ps_add N.eqb Pos.eqb]; try reflexivity. apply Hnext. }
    rewrite (avc_ps_class_other _ E7 E8).
    destruct (avc_type h <=? 5)%N; cbn [N.leb N.compare Pos.compare Pos.compare_cont rbind fst snd]; apply Hnext.
  - cbn [rbind fst snd]. apply Hnext.
Qed.

(* L2: totSize grows by exactly the lengths of the sets appended *)
Lemma avc_gpsb_loop_tot d tot0 : forall fuel n i cur acc,
  match avc_gpsb_loop fuel d n i cur acc (tot0 + sum2 acc) with
  | Ok r => tot_of r = tot0 + sum2 (acc_of r)
  | _ => True
  end.
Proof.
  induction fuel as [|f IH]; intros n i cur acc; [exact I|].
  cbn [avc_gpsb_loop].
  destruct (i <? n - 3); [|reflexivity].
  destruct (hevc_sc_at d i) as [m| | |]; cbn [rbind]; try exact I.
  destruct m; [|apply IH].
  destruct acc as [sp p].
  assert (Hnext : forall acc' : avc_ps,
    match (do h <- getb d (i + 3);
           if (avc_GetNaluType h <? 6)%N then Ok (inr (acc', tot0 + sum2 acc'))
           else avc_gpsb_loop f d n (i + 1) (i + 3) acc' (tot0 + sum2 acc')) with
    | Ok r => tot_of r = tot0 + sum2 (acc_of r)
    | _ => True
    end).
  { intros acc'. destruct (getb d (i + 3)) as [h| | |]; cbn [rbind]; try exact I.
    destruct (avc_GetNaluType h <? 6)%N; [reflexivity|apply IH]. }
  destruct (cur >? 0).
  - destruct (hevc_nalu_end d cur i) as [e| | |]; cbn [rbind]; try exact I.
    destruct (getb d cur) as [h| | |]; cbn [rbind]; try exact I.
    destruct (N.eqb (avc_GetNaluType h) 7).
    { destruct (slice d cur e) as [x| | |] eqn:Hsl; cbn [rbind fst snd]; try exact I.
      replace (tot0 + sum2 (sp, p) + (e - cur)) with (tot0 + sum2 (x :: sp, p))
        by (unfold sum2; cbn [fst snd]; rewrite sum_len_cons, (slice_Zlen _ _ _ _ Hsl); lia).
      apply Hnext. }
    destruct (N.eqb (avc_GetNaluType h) 8).
    { destruct (slice d cur e) as [x| | |] eqn:Hsl; cbn [rbind fst snd]; try exact I.
      replace (tot0 + sum2 (sp, p) + (e - cur)) with (tot0 + sum2 (sp, x :: p))
        by (unfold sum2; cbn [fst snd]; rewrite sum_len_cons, (slice_Zlen _ _ _ _ Hsl); lia).
      apply Hnext. }
    cbn [rbind fst snd]. apply Hnext.
  - cbn [rbind fst snd]. apply Hnext.
Qed.

(* L3 / L4: the part after the loop *)
Lemma avc_gpsb_finish_strip d r :
  gpsb_finish avc_type avc_ps_class d (strip r)
  = (do a <- avc_gpsb_finish d r; Ok ([], fst (fst a), snd (fst a))).
Proof.
  destruct r as [[[cur [sp p]] tot]|[[sp p] tot]]; cbn [strip gpsb_finish avc_gpsb_finish ps_rev rbind fst snd rev];
    [|reflexivity].
  destruct (cur >? 0); cbn [rbind ps_rev fst snd rev]; [|reflexivity].
  destruct (getb d cur) as [h| | |]; cbn [rbind]; try reflexivity.
  change (avc_GetNaluType h) with (avc_type h).
  destruct (N.eqb_spec (avc_type h) 7) as [E7|E7].
  { rewrite E7, avc_ps_class_7. cbn [N.leb N.compare Pos.compare Pos.compare_cont].
    destruct (slice d cur (Zlen d)) as [x| | |]; cbn [rbind ps_add N.eqb Pos.eqb ps_rev fst snd rev]; reflexivity. }
  destruct (N.eqb_spec (avc_type h) 8) as [E8|E8].
  { rewrite E8, avc_ps_class_8. cbn [N.leb N.compare Pos.compare Pos.compare_cont].
    destruct (slice d cur (Zlen d)) as [x| | |]; cbn [rbind ps_add N.eqb Pos.eqb ps_rev fst snd rev]; reflexivity. }
  rewrite (avc_ps_class_other _ E7 E8).
  destruct (avc_type h <=? 5)%N; reflexivity.
Qed.

Lemma avc_gpsb_finish_tot d tot0 r : tot_of r = tot0 + sum2 (acc_of r) ->
  match avc_gpsb_finish d r with
  | Ok a => snd a = tot0 + sum2 (fst a)
  | _ => True
  end.
Proof.
  assert (Hrev : forall sp p, sum2 (rev sp, rev p) = sum2 (sp, p))
    by (intros; unfold sum2; cbn [fst snd]; rewrite !sum_len_rev; reflexivity).
  destruct r as [[[cur [sp p]] tot]|[[sp p] tot]]; cbn [tot_of acc_of avc_gpsb_finish]; intros Ht.
  2:{ cbn [fst snd]. rewrite Hrev. exact Ht. }
  destruct (cur >? 0); [|cbn [fst snd]; rewrite Hrev; exact Ht].
  destruct (getb d cur) as [h| | |]; cbn [rbind]; try exact I.
  destruct (N.eqb (avc_GetNaluType h) 7).
  { destruct (slice d cur (Zlen d)) as [x| | |] eqn:Hsl; cbn [rbind fst snd]; try exact I.
    rewrite Hrev. unfold sum2 in *. cbn [fst snd] in *. rewrite sum_len_cons, (slice_Zlen _ _ _ _ Hsl). lia. }
  destruct (N.eqb (avc_GetNaluType h) 8).
  { destruct (slice d cur (Zlen d)) as [x| | |] eqn:Hsl; cbn [rbind fst snd]; try exact I.
    rewrite Hrev. unfold sum2 in *. cbn [fst snd] in *. rewrite sum_len_cons, (slice_Zlen _ _ _ _ Hsl). lia. }
  cbn [fst snd]. rewrite Hrev. exact Ht.
Qed.

(* the repacking with the right totSize *)
Lemma avc_repack_exact s p : avc_repack (s, p) (sum2 (s, p)) = Ok (s, p).
Proof.
  unfold avc_repack, sum2. cbn [fst snd].
  pose proof (sum_len_nonneg s) as Hs. pose proof (sum_len_nonneg p) as Hp.
  replace (sum_len s + sum_len p <? 0) with false by lia.
  set (T0 := repeat 0%N (Z.to_nat (sum_len s + sum_len p))).
  assert (HT0 : Zlen T0 = sum_len s + sum_len p) by (unfold T0; rewrite Zlen_repeat; lia).
  change T0 with ([] ++ T0). change 0 with (Zlen (@nil N)) at 1.
  rewrite repack_loop_spec by lia. cbn [rbind fst snd app rev].
  set (T1 := skipn (Z.to_nat (sum_len s)) T0).
  assert (HT1 : Zlen T1 = sum_len p) by (unfold T1; rewrite Zlen_skipn; unfold Zlen in *; lia).
  change (Zlen (@nil N)) with 0. rewrite Z.add_0_l.
  rewrite <- (Zlen_concat s).
  rewrite repack_loop_spec by lia. cbn [rbind fst snd app rev].
  set (T2 := skipn (Z.to_nat (sum_len p)) T1).
  replace (concat s ++ concat p ++ T2) with ([] ++ concat s ++ (concat p ++ T2)) by reflexivity.
  change 0 with (Zlen (@nil N)). rewrite views_spec. cbn [rbind app].
  rewrite views_spec. reflexivity.
Qed.

(* the whole function *)
Lemma avc_gpsb_full s :
  avc_get_parameter_sets_from_byte_stream s
  = (do a <- avc_GetParameterSetsFromByteStream s; Ok ([], fst a, snd a)).
Proof.
  unfold avc_get_parameter_sets_from_byte_stream, get_parameter_sets_from_byte_stream, avc_GetParameterSetsFromByteStream.
  rewrite (avc_gpsb_loop_strip s (S (length s)) (Zlen s) 0 (-1) [] [] 0).
  pose proof (avc_gpsb_loop_tot s 0 (S (length s)) (Zlen s) 0 (-1) ([], [])) as HT.
  change (0 + sum2 ([], [])) with 0 in HT.
  destruct (avc_gpsb_loop (S (length s)) s (Zlen s) 0 (-1) ([], []) 0) as [r| | |]; cbn [rbind]; try reflexivity.
  rewrite avc_gpsb_finish_strip.
  pose proof (avc_gpsb_finish_tot s 0 r HT) as HF.
  destruct (avc_gpsb_finish s r) as [[[sp p] t]| | |]; cbn [rbind fst snd] in *; try reflexivity.
  subst t. rewrite Z.add_0_l. rewrite avc_repack_exact. reflexivity.
Qed.

(* on an Annex B stream of well-formed units: the SPS and PPS units before the first video unit *)
Lemma avc_gpsb_full_stream us : wf_units us = true ->
  avc_GetParameterSetsFromByteStream (stream us)
  = Ok (of_type avc_type 7 (before_video avc_type avc_is_video (map snd us)),
        of_type avc_type 8 (before_video avc_type avc_is_video (map snd us))).
Proof.
  intros Hw. destruct (C14StreamProofs.helpers_stream us Hw) as [_ [_ [H _]]].
  rewrite avc_gpsb_full in H.
  destruct (avc_GetParameterSetsFromByteStream (stream us)) as [[sp p]| | |]; cbn [rbind fst snd] in H; try discriminate.
  injection H as <- <-. reflexivity.
Qed.
