(* C14Model.v — executable Gallina transcription of the NAL unit framing code of /repo
   (avc/annexb.go, avc/nalus.go, avc/avc.go, hevc/annexb.go, hevc/hevc.go) at the CURRENT tree
   (after the `fix:` commits to the length-field walkers and ConvertSampleToByteStream).
   Definitions only: this file must keep running when a proof breaks.
   Conventions: a byte slice is a `list N` with cap = len (the harness always passes exact-capacity
   slices); Go `int` is Z (64 bit, lengths far below 2^62 so no wrap is modelled for int); uint32 values
   are Z reduced with `u32z`; indexing / slicing out of range is `Panic`; loops run on fuel and
   `OutOfFuel` is excluded by the theorems. *)
From V.lib Require Import Base.
From V.c14 Require Import C14Spec.
Local Open Scope Z_scope.

(* ------------------------------------------------------------------ Go slice primitives *)
(* s[i] *)
Definition getb (l : list N) (i : Z) : res N :=
  if (0 <=? i) && (i <? Zlen l)
  then match nth_error l (Z.to_nat i) with Some b => Ok b | None => Panic end
  else Panic.

(* s[a:b] (cap = len) *)
Definition slice (l : list N) (a b : Z) : res (list N) :=
  if (0 <=? a) && (a <=? b) && (b <=? Zlen l)
  then Ok (firstn (Z.to_nat (b - a)) (skipn (Z.to_nat a) l))
  else Panic.

(* copy(s[a:b], src): the slice expression may panic, copy moves min(b-a, len src) bytes *)
Definition copy_into (l : list N) (a b : Z) (src : list N) : res (list N) :=
  if (0 <=? a) && (a <=? b) && (b <=? Zlen l)
  then let n := Z.to_nat (Z.min (b - a) (Zlen src)) in
       Ok (firstn (Z.to_nat a) l ++ firstn n src ++ skipn (Z.to_nat a + n) l)
  else Panic.

Definition u32z (z : Z) : Z := z mod 4294967296.

(* binary.BigEndian.Uint32 of a 4-byte slice *)
Definition be32_dec (l : list N) : Z :=
  Z.of_N (fold_left (fun acc b => (acc * 256 + b)%N) l 0%N).
(* binary.BigEndian.PutUint32(lengthField, uint32(v)) *)
Definition put_be32 (v : Z) : list N := be32 (Z.to_N (u32z v)).

(* ------------------------------------------------------------------ hasZeroByte *)
(* magicLeft / magicRight for 64-bit uint *)
Definition magic_left : N := 72340172838076673%N.       (* 0x0101010101010101 *)
Definition magic_right : N := 9259542123273814144%N.    (* 0x8080808080808080 *)
Definition two64 : N := 18446744073709551616%N.

(* ((x - magicLeft) & (^x) & magicRight) != 0 on a 64-bit uint x *)
Definition has_zero_byte (x : N) : bool :=
  negb (N.eqb (N.land (N.land ((x + two64 - magic_left) mod two64) (N.lxor x (N.ones 64))) magic_right) 0%N).

(* value of a machine word read from bytes in memory order, little endian (amd64/arm64) *)
Fixpoint word_le (bs : list N) : N :=
  match bs with [] => 0%N | b :: t => (b + 256 * word_le t)%N end.
(* big endian, for the endianness-agnostic statement *)
Definition word_be (bs : list N) : N := word_le (rev bs).

(* the uint load through unsafe.Pointer(&stream[i]): &stream[i] is bounds-checked, the 8-byte load is not;
   a load reaching beyond the slice is reported as Panic (memory-unsafe read) *)
Definition read_word (l : list N) (i : Z) : res N :=
  do _ <- getb l i;
  do bs <- slice l i (i + 8);
  Ok (word_le bs).

(* ------------------------------------------------------------------ getStartCodePositions *)
(* scanner state: scNalus in REVERSE order (startCodeLength, startPos), minStartCodeLength *)
Definition scst : Type := (list (Z * Z) * Z)%type.
Definition push (st : scst) (e : Z * Z) : scst :=
  (e :: fst st, if fst e <? snd st then fst e else snd st).

(* body of `if stream[j] == 0 { ... }` inside the inner loop, with Go's short-circuit evaluation *)
Definition probe (l : list N) (j : Z) : res (option (Z * Z)) :=
  do bj <- getb l j;
  if is0 bj then
    do bm1 <- getb l (j - 1);
    do c1 <- (if is0 bm1 then do bp1 <- getb l (j + 1); Ok (is1 bp1) else Ok false);
    if c1 then
      do c <- (if 0 <=? j - 2 then do b <- getb l (j - 2); Ok (is0 b) else Ok false);
      Ok (Some (if c then 4 else 3, j + 2))
    else
      do bp1 <- getb l (j + 1);
      do c2 <- (if is0 bp1 then do bp2 <- getb l (j + 2); Ok (is1 bp2) else Ok false);
      if c2 then
        do c <- (if 0 <=? j - 1 then do b <- getb l (j - 1); Ok (is0 b) else Ok false);
        Ok (Some (if c then 4 else 3, j + 3))
      else Ok None
  else Ok None.

(* for j := i + 1; j < i+uintSize; j += 2 *)
Fixpoint inner_loop (fuel : nat) (l : list N) (i j : Z) (st : scst) : res scst :=
  match fuel with
  | O => OutOfFuel
  | S f =>
      if j <? i + 8 then
        do r <- probe l j;
        inner_loop f l i (j + 2) (match r with Some e => push st e | None => st end)
      else Ok st
  end.

(* for ; i < streamLenLim; i += uintSize *)
Fixpoint word_loop (fuel : nat) (l : list N) (lim i : Z) (st : scst) : res (Z * scst) :=
  match fuel with
  | O => OutOfFuel
  | S f =>
      if i <? lim then
        do w <- read_word l i;
        do st' <- (if has_zero_byte w then inner_loop 8 l i (i + 1) st else Ok st);
        word_loop f l lim (i + 8) st'
      else Ok (i, st)
  end.

(* for ; i < streamLen-3; i++ *)
Fixpoint tail_loop (fuel : nat) (l : list N) (i : Z) (st : scst) : res scst :=
  match fuel with
  | O => OutOfFuel
  | S f =>
      if i <? Zlen l - 3 then
        do a <- getb l i;
        do m <- (if is0 a then
                   do b <- getb l (i + 1);
                   if is0 b then do c <- getb l (i + 2); Ok (is1 c) else Ok false
                 else Ok false);
        if m then
          do c <- (if 0 <=? i - 1 then do b <- getb l (i - 1); Ok (is0 b) else Ok false);
          tail_loop f l (i + 1) (push st (if c then 4 else 3, i + 3))
        else tail_loop f l (i + 1) st
      else Ok st
  end.

Definition get_start_code_positions (l : list N) : res (list (Z * Z) * Z) :=
  let streamLen := Zlen l in
  let lim := streamLen - Z.rem streamLen 8 - 8 in
  do r <- word_loop (S (length l)) l lim 0 ([], 4);
  do st <- tail_loop (S (length l)) l (fst r) (snd r);
  Ok (rev (fst st), snd st).

(* ------------------------------------------------------------------ ConvertByteStreamToNaluSample *)
(* in-place branch: for i, s := range scNalus *)
Fixpoint inplace_loop (l : list N) (streamLen : Z) (scn : list (Z * Z)) : res (list N) :=
  match scn with
  | [] => Ok l
  | s :: rest =>
      let naluLength := match rest with
                        | nx :: _ => snd nx - snd s - 4
                        | [] => streamLen - snd s
                        end in
      do l' <- copy_into l (snd s - 4) (snd s) (put_be32 naluLength);
      inplace_loop l' streamLen rest
  end.

(* copying branch; `stream` is not modified, the output is appended to *)
Fixpoint copy_loop (l : list N) (streamLen : Z) (scn : list (Z * Z)) : res (list N) :=
  match scn with
  | [] => Ok []
  | s :: rest =>
      let naluLength := match rest with
                        | nx :: _ => snd nx - snd s - fst nx
                        | [] => streamLen - snd s
                        end in
      do nal <- slice l (snd s) (snd s + naluLength);
      do r <- copy_loop l streamLen rest;
      Ok (put_be32 naluLength ++ nal ++ r)
  end.

Definition to_nalu_sample (l : list N) : res (list N) :=
  do r <- get_start_code_positions l;
  if snd r =? 4 then inplace_loop l (Zlen l) (fst r) else copy_loop l (Zlen l) (fst r).

(* ------------------------------------------------------------------ ConvertSampleToByteStream *)
Fixpoint s2b_loop (fuel : nat) (s : list N) (length pos : Z) : res (list N) :=
  match fuel with
  | O => OutOfFuel
  | S f =>
      if pos <=? length - 4 then
        do lf <- slice s pos (pos + 4);
        let nl := be32_dec lf in
        do s' <- copy_into s pos (pos + 4) [0;0;0;1]%N;
        let pos1 := pos + 4 in
        if nl >? length - pos1 then Ok s' else s2b_loop f s' length (pos1 + nl)
      else Ok s
  end.

Definition to_byte_stream (s : list N) : res (list N) :=
  s2b_loop (S (length s)) s (Zlen s) 0.

(* ------------------------------------------------------------------ avc.GetNalusFromSample *)
(* current text (after `fix: avc.GetNalusFromSample compares the NALU length without 32-bit wrap`):
   int position, `for pos < length-4`, error when the length field exceeds the remaining bytes *)
Fixpoint gnfs_loop (fuel : nat) (s : list N) (length pos : Z) (acc : list (list N)) : res (list (list N)) :=
  match fuel with
  | O => OutOfFuel
  | S f =>
      if pos <? length - 4 then
        do lf <- slice s pos (pos + 4);
        let nl := be32_dec lf in
        let pos1 := pos + 4 in
        if nl >? length - pos1 then Err
        else
          do nal <- slice s pos1 (pos1 + nl);
          gnfs_loop f s length (pos1 + nl) (nal :: acc)
      else Ok (rev acc)
  end.

Definition get_nalus_from_sample (s : list N) : res (list (list N)) :=
  if Zlen s <? 4 then Err else gnfs_loop (S (length s)) s (Zlen s) 0 [].

(* ------------------------------------------------------------------ length-field walkers (avc.go / hevc.go) *)
(* FindNaluTypes / FindNaluTypesUpToFirstVideoNALU / ContainsNaluType share one loop shape:
     for pos < length-4 { naluLength := be32(sample[pos:pos+4]); pos += 4; t := type(sample[pos]);
                          <visit t>; if naluLength > length-pos {break}; pos += naluLength; <stop?> }
   ty = GetNaluType, stop_video = Some IsVideoNaluType for the UpToFirstVideo variants,
   want = Some t for ContainsNaluType (returns as soon as the type is seen). *)
Fixpoint walk_loop (ty : N -> N) (stop_video : option (N -> bool)) (fuel : nat)
         (s : list N) (length pos : Z) (acc : list N) : res (list N) :=
  match fuel with
  | O => OutOfFuel
  | S f =>
      if pos <? length - 4 then
        do lf <- slice s pos (pos + 4);
        let nl := be32_dec lf in
        let pos1 := pos + 4 in
        do h <- getb s pos1;
        let t := ty h in
        let acc' := t :: acc in
        if nl >? length - pos1 then Ok (rev acc')
        else
          let pos2 := pos1 + nl in
          if match stop_video with Some isv => isv t | None => false end then Ok (rev acc')
          else walk_loop ty stop_video f s length pos2 acc'
      else Ok (rev acc)
  end.

Definition avc_is_video (t : N) : bool := (t <=? 5)%N.
Definition hevc_is_video (t : N) : bool := (t <=? 31)%N.

(* nil and the empty slice are both the empty list here *)
Definition avc_find_nalu_types (s : list N) : res (list N) :=
  if Zlen s <? 4 then Ok [] else walk_loop avc_type None (S (length s)) s (Zlen s) 0 [].
Definition avc_find_nalu_types_up_to_video (s : list N) : res (list N) :=
  if Zlen s <? 4 then Ok [] else walk_loop avc_type (Some avc_is_video) (S (length s)) s (Zlen s) 0 [].
Definition hevc_find_nalu_types (s : list N) : res (list N) :=
  if Zlen s <? 4 then Ok [] else walk_loop hevc_type None (S (length s)) s (Zlen s) 0 [].
Definition hevc_find_nalu_types_up_to_video (s : list N) : res (list N) :=
  if Zlen s <? 4 then Ok [] else walk_loop hevc_type (Some hevc_is_video) (S (length s)) s (Zlen s) 0 [].

Fixpoint contains_loop (ty : N -> N) (want : N) (fuel : nat) (s : list N) (length pos : Z) : res bool :=
  match fuel with
  | O => OutOfFuel
  | S f =>
      if pos <? length - 4 then
        do lf <- slice s pos (pos + 4);
        let nl := be32_dec lf in
        let pos1 := pos + 4 in
        do h <- getb s pos1;
        if N.eqb (ty h) want then Ok true
        else if nl >? length - pos1 then Ok false
        else contains_loop ty want f s length (pos1 + nl)
      else Ok false
  end.

(* avc.ContainsNaluType has no `length < 4` test; with int positions the loop condition covers it *)
Definition avc_contains_nalu_type (s : list N) (want : N) : res bool :=
  contains_loop avc_type want (S (length s)) s (Zlen s) 0.
Definition hevc_contains_nalu_type (s : list N) (want : N) : res bool :=
  if Zlen s <? 4 then Ok false else contains_loop hevc_type want (S (length s)) s (Zlen s) 0.
Definition avc_is_idr_sample (s : list N) : res bool := avc_contains_nalu_type s 5%N.

(* avc.HasParameterSets: flags over the type list, returns inside the loop *)
Fixpoint avc_hps_loop (tl : list N) (hasS hasP : bool) : bool :=
  match tl with
  | [] => false
  | t :: r =>
      let hasS' := if N.eqb t 7 then true else hasS in
      let hasP' := if N.eqb t 8 then true else hasP in
      if hasS' && hasP' then true else avc_hps_loop r hasS' hasP'
  end.
Definition avc_has_parameter_sets (s : list N) : res bool :=
  do tl <- avc_find_nalu_types_up_to_video s; Ok (avc_hps_loop tl false false).

Fixpoint hevc_hps_loop (tl : list N) (hasV hasS hasP : bool) : bool :=
  match tl with
  | [] => false
  | t :: r =>
      let hasV' := if N.eqb t 32 then true else hasV in
      let hasS' := if N.eqb t 33 then true else hasS in
      let hasP' := if N.eqb t 34 then true else hasP in
      if hasV' && hasS' && hasP' then true else hevc_hps_loop r hasV' hasS' hasP'
  end.
Definition hevc_has_parameter_sets (s : list N) : res bool :=
  do tl <- hevc_find_nalu_types_up_to_video s; Ok (hevc_hps_loop tl false false false).

(* hevc.IsRAPSample / IsIDRSample: range over FindNaluTypes *)
Definition hevc_is_rap_sample (s : list N) : res bool :=
  do tl <- hevc_find_nalu_types s; Ok (existsb (fun t => (16 <=? t)%N && (t <=? 23)%N) tl).
Definition hevc_is_idr_sample (s : list N) : res bool :=
  do tl <- hevc_find_nalu_types s; Ok (existsb (fun t => (19 <=? t)%N && (t <=? 20)%N) tl).

(* GetParameterSets: classify = 0,1,2 -> append to vps/sps/pps (avc has no vps), 3 -> break, 4 -> skip *)
Definition avc_ps_class (t : N) : N :=
  if N.eqb t 7 then 1%N else if N.eqb t 8 then 2%N else if avc_is_video t then 3%N else 4%N.
Definition hevc_ps_class (t : N) : N :=
  if N.eqb t 32 then 0%N else if N.eqb t 33 then 1%N else if N.eqb t 34 then 2%N
  else if hevc_is_video t then 3%N else 4%N.

Definition ps3 : Type := (list (list N) * list (list N) * list (list N))%type.
Definition ps_add (c : N) (x : list N) (a : ps3) : ps3 :=
  let '(v, s, p) := a in
  if N.eqb c 0 then (x :: v, s, p) else if N.eqb c 1 then (v, x :: s, p) else (v, s, x :: p).
Definition ps_rev (a : ps3) : ps3 := let '(v, s, p) := a in (rev v, rev s, rev p).

Fixpoint gps_loop (ty cls : N -> N) (fuel : nat) (s : list N) (length pos : Z) (acc : ps3) : res ps3 :=
  match fuel with
  | O => OutOfFuel
  | S f =>
      if pos <? length - 4 then
        do lf <- slice s pos (pos + 4);
        let nl := be32_dec lf in
        let pos1 := pos + 4 in
        if nl >? length - pos1 then Ok (ps_rev acc)
        else
          let endp := pos1 + nl in
          do h <- getb s pos1;
          let c := cls (ty h) in
          if (c <=? 2)%N then
            do x <- slice s pos1 endp;
            gps_loop ty cls f s length endp (ps_add c x acc)
          else if N.eqb c 3 then Ok (ps_rev acc)
          else gps_loop ty cls f s length endp acc
      else Ok (ps_rev acc)
  end.
Definition avc_get_parameter_sets (s : list N) : res ps3 :=
  gps_loop avc_type avc_ps_class (S (length s)) s (Zlen s) 0 ([], [], []).
Definition hevc_get_parameter_sets (s : list N) : res ps3 :=
  gps_loop hevc_type hevc_ps_class (S (length s)) s (Zlen s) 0 ([], [], []).

(* ------------------------------------------------------------------ byte-stream helpers (annexb.go) *)
(* data[i] == 0 && data[i+1] == 0 && data[i+2] == 1 *)
Definition sc_at (d : list N) (i : Z) : res bool :=
  do a <- getb d i;
  if is0 a then
    do b <- getb d (i + 1);
    if is0 b then do c <- getb d (i + 2); Ok (is1 c) else Ok false
  else Ok false.

(* for j := i - 1; j > currNaluStart; j-- { if data[j] == 0 { currNaluEnd = j } else { break } } *)
Fixpoint trim_loop (fuel : nat) (d : list N) (start j endp : Z) : res Z :=
  match fuel with
  | O => OutOfFuel
  | S f =>
      if j >? start then
        do b <- getb d j;
        if is0 b then trim_loop f d start (j - 1) j else Ok endp
      else Ok endp
  end.
Definition trim_end (d : list N) (start i : Z) : res Z := trim_loop (S (length d)) d start (i - 1) i.

(* The four byte-stream helpers share one loop skeleton, textually identical in the Go source:
     for i := 0; i < n-3; i++ { if data[i] == 0 && data[i+1] == 0 && data[i+2] == 1 { <body> } }
   `body i st` is the transcription of <body>: inl st' = fall through to the next iteration,
   inr r = `break` / `return` inside the loop. *)
Fixpoint bs_loop {St R : Type} (body : Z -> St -> res (St + R)) (fuel : nat) (d : list N) (n i : Z) (st : St)
  : res (St + R) :=
  match fuel with
  | O => OutOfFuel
  | S f =>
      if i <? n - 3 then
        do m <- sc_at d i;
        if m then
          do r <- body i st;
          match r with
          | inl st' => bs_loop body f d n (i + 1) st'
          | inr x => Ok (inr x)
          end
        else bs_loop body f d n (i + 1) st
      else Ok (inl st)
  end.

(* avc.ExtractNalusFromByteStream; state = (currNaluStart, nalus reversed) *)
Definition enb_body (d : list N) (i : Z) (st : Z * list (list N)) : res ((Z * list (list N)) + unit) :=
  let '(cur, acc) := st in
  do acc' <- (if cur >? 0 then
                do e <- trim_end d cur i;
                do sl <- slice d cur e;
                Ok (sl :: acc)
              else Ok acc);
  Ok (inl (i + 3, acc')).
Definition enb_finish (d : list N) (r : (Z * list (list N)) + unit) : res (list (list N)) :=
  match r with
  | inl (cur, acc) => if cur <? 0 then Ok [] else do sl <- slice d cur (Zlen d); Ok (rev (sl :: acc))
  | inr _ => Ok []    (* the body never breaks *)
  end.
Definition extract_nalus_from_byte_stream (d : list N) : res (list (list N)) :=
  do r <- bs_loop (enb_body d) (S (length d)) d (Zlen d) 0 (-1, []);
  enb_finish d r.

(* {avc,hevc}.ExtractNalusOfTypeFromByteStream (after `fix: ... stops at a one-byte video NAL unit too`:
   `if currNaluStart < n`); vlim = 6 (avc) / 32 (hevc); inr = `return nalus` inside the loop *)
Definition enot_body (ty : N -> N) (vlim want : N) (stop : bool) (d : list N) (i : Z)
           (st : Z * list (list N)) : res ((Z * list (list N)) + list (list N)) :=
  let '(cur, acc) := st in
  do acc' <- (if cur >? 0 then
                do e <- trim_end d cur i;
                do h <- getb d cur;
                if N.eqb (ty h) want then do sl <- slice d cur e; Ok (sl :: acc) else Ok acc
              else Ok acc);
  let cur' := i + 3 in
  do ret <- (if cur' <? Zlen d then do h <- getb d cur'; Ok (stop && (ty h <? vlim)%N) else Ok false);
  if ret then Ok (inr acc') else Ok (inl (cur', acc')).
Definition enot_finish (ty : N -> N) (want : N) (d : list N) (r : (Z * list (list N)) + list (list N))
  : res (list (list N)) :=
  match r with
  | inr acc => Ok (rev acc)
  | inl (cur, acc) =>
      if cur <? 0 then Ok []
      else
        do h <- getb d cur;
        if N.eqb (ty h) want then do sl <- slice d cur (Zlen d); Ok (rev (sl :: acc)) else Ok (rev acc)
  end.
Definition extract_nalus_of_type (ty : N -> N) (vlim want : N) (stop : bool) (d : list N) : res (list (list N)) :=
  do r <- bs_loop (enot_body ty vlim want stop d) (S (length d)) d (Zlen d) 0 (-1, []);
  enot_finish ty want d r.
Definition avc_extract_nalus_of_type := extract_nalus_of_type avc_type 6%N.
Definition hevc_extract_nalus_of_type := extract_nalus_of_type hevc_type 32%N.

(* {avc,hevc}.GetParameterSetsFromByteStream (after `fix: GetParameterSetsFromByteStream returns a
   parameter set that ends the byte stream`): loop to n-3, break with videoFound (inr) on a video unit,
   then the unit after the last start code unless videoFound *)
Definition gpsb_body (ty cls : N -> N) (vlim : N) (d : list N) (i : Z) (st : Z * ps3) : res ((Z * ps3) + ps3) :=
  let '(cur, acc) := st in
  do acc' <- (if cur >? 0 then
                do e <- trim_end d cur i;
                do h <- getb d cur;
                let c := cls (ty h) in
                if (c <=? 2)%N then do sl <- slice d cur e; Ok (ps_add c sl acc) else Ok acc
              else Ok acc);
  let cur' := i + 3 in
  do h <- getb d cur';
  if (ty h <? vlim)%N then Ok (inr acc') else Ok (inl (cur', acc')).
Definition gpsb_finish (ty cls : N -> N) (d : list N) (r : (Z * ps3) + ps3) : res ps3 :=
  match r with
  | inr acc => Ok (ps_rev acc)
  | inl (cur, acc) =>
      do acc' <- (if cur >? 0 then
                    do h <- getb d cur;
                    let c := cls (ty h) in
                    if (c <=? 2)%N then do sl <- slice d cur (Zlen d); Ok (ps_add c sl acc) else Ok acc
                  else Ok acc);
      Ok (ps_rev acc')
  end.
Definition get_parameter_sets_from_byte_stream (ty cls : N -> N) (vlim : N) (d : list N) : res ps3 :=
  do r <- bs_loop (gpsb_body ty cls vlim d) (S (length d)) d (Zlen d) 0 (-1, ([], [], []));
  gpsb_finish ty cls d r.
Definition avc_get_parameter_sets_from_byte_stream :=
  get_parameter_sets_from_byte_stream avc_type avc_ps_class 6%N.
Definition hevc_get_parameter_sets_from_byte_stream :=
  get_parameter_sets_from_byte_stream hevc_type hevc_ps_class 32%N.

(* avc.GetFirstAVCVideoNALUFromByteStream; state = currNaluStart, inr (naluStart, naluEnd) = break;
   nil is the empty list *)
Definition gfv_body (d : list N) (i : Z) (cur : Z) : res (Z + (Z * Z)) :=
  do r <- (if cur >? 0 then
             do e <- trim_end d cur i;
             do h <- getb d cur;
             if avc_is_video (avc_type h) then Ok (Some (cur, e)) else Ok None
           else Ok None);
  match r with
  | Some ab => Ok (inr ab)
  | None => Ok (inl (i + 3))
  end.
Definition gfv_finish (d : list N) (r : Z + (Z * Z)) : res (list N) :=
  match r with
  | inr (a, b) => if a =? 0 then Ok [] else slice d a b
  | inl cur =>
      if cur >? 0 then
        do h <- getb d cur;
        if avc_is_video (avc_type h) then slice d cur (Zlen d) else Ok []
      else Ok []
  end.
Definition avc_get_first_video_nalu (d : list N) : res (list N) :=
  do r <- bs_loop (gfv_body d) (S (length d)) d (Zlen d) 0 (-1);
  gfv_finish d r.
