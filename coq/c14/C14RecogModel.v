(* C14RecogModel.v — the property's own quantifier made executable: recognisers of "well-formed Annex B
   stream" and "well-formed length-prefixed sample" over BYTE STRINGS, with the unit list read back from
   the bytes.  The theorems of C14RecogProofs.v restate the C14 theorems over every byte string the
   recognisers accept, and the correspondence driver evaluates the recognisers on every real input of a run
   (and, where they accept, compares what the Go code returned with the theorems' right-hand sides).
   Definitions only. *)
From V.lib Require Import Base.
From V.c14 Require Import C14Spec.
Local Open Scope Z_scope.

Fixpoint bytes_eqb (a b : list N) : bool :=
  match a, b with
  | [], [] => true
  | x :: a', y :: b' => N.eqb x y && bytes_eqb a' b'
  | _, _ => false
  end.

(* ---------- Annex B stream -> units between the start codes ---------- *)
(* d = the bytes from absolute position pos on (pos = first byte of the current unit, which sits behind a
   start code of 4 bytes iff four); scs = the start codes still ahead, as (length, position behind it) *)
Fixpoint cut (four : bool) (d : list N) (pos : Z) (scs : list (Z * Z)) : list (bool * list N) :=
  match scs with
  | [] => [(four, d)]
  | (l, p) :: t =>
      (four, firstn (Z.to_nat (p - l - pos)) d) :: cut (Z.eqb l 4) (skipn (Z.to_nat (p - pos)) d) p t
  end.

(* the units between the start codes of the byte-by-byte scan (C14Spec.nscan = naive_scan); bytes in front
   of the first start code are not part of any unit *)
Definition unstream (d : list N) : list (bool * list N) :=
  match nscan false 0 d with
  | [] => []
  | (l, p) :: t => cut (Z.eqb l 4) (skipn (Z.to_nat p) d) p t
  end.

(* d is a well-formed Annex B stream: at least one unit, every unit non-empty, emulation-free, with a
   non-zero last byte, and d is nothing but those units behind their start codes *)
Definition wf_stream (d : list N) : bool :=
  match unstream d with
  | [] => false
  | us => wf_units us && bytes_eqb (stream us) d
  end.

Definition fit_units (us : list (bool * list N)) : bool := forallb (fun u => fits32 (snd u)) us.

(* ---------- length-prefixed sample -> units behind the length fields ---------- *)
Fixpoint unsample_loop (fuel : nat) (s : list N) : option (list (list N)) :=
  match fuel with
  | O => None
  | S f =>
      match s with
      | [] => Some []
      | a :: b :: c :: e :: r =>
          let k := Z.of_N (fold_left (fun acc x => (acc * 256 + x)%N) [a; b; c; e] 0%N) in
          if k <=? Zlen r
          then match unsample_loop f (skipn (Z.to_nat k) r) with
               | Some t => Some (firstn (Z.to_nat k) r :: t)
               | None => None
               end
          else None
      | _ => None
      end
  end.
Definition unsample (s : list N) : option (list (list N)) := unsample_loop (S (length s)) s.
Definition unsample_units (s : list N) : list (list N) :=
  match unsample s with Some ns => ns | None => [] end.

(* s is a well-formed sample: at least one unit, every unit non-empty (and shorter than 2^32), and s is nothing
   but those units behind their 4-byte big-endian length fields *)
Definition wf_sample (s : list N) : bool :=
  match unsample s with
  | Some [] => false
  | Some ns => walkable ns && bytes_eqb (sample ns) s
  | None => false
  end.
