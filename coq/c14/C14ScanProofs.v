(* C14ScanProofs.v — the word-at-a-time start-code scanner returns exactly the byte-by-byte scan,
   for every byte string (every alignment, every length, start codes straddling word boundaries,
   word/tail hand-over), and never panics. *)
From V.lib Require Import Base.
From V.c14 Require Import C14Spec C14Model C14WordProofs.
Local Open Scope Z_scope.

(* ---------- reads ---------- *)
Lemma Zlen_nonneg {A} (l : list A) : 0 <= Zlen l.
Proof. unfold Zlen. lia. Qed.

Lemma getb_ok l i : 0 <= i -> i < Zlen l -> getb l i = Ok (zget l i).
Proof.
  intros H0 H1. unfold getb, zget.
  replace ((0 <=? i) && (i <? Zlen l)) with true by lia.
  rewrite (nth_error_nth' l 2%N); [reflexivity|]. unfold Zlen in H1. lia.
Qed.

Lemma is1_not0 b : is1 b = true -> is0 b = false.
Proof. unfold is1, is0. intros H. apply N.eqb_eq in H. subst b. reflexivity. Qed.

(* ---------- state threading ---------- *)
Definition pushes (st : scst) (xs : list (Z * Z)) : scst := fold_left push xs st.

Lemma pushes_app st a b : pushes st (a ++ b) = pushes (pushes st a) b.
Proof. unfold pushes. apply fold_left_app. Qed.

Lemma pushes_nil st : pushes st [] = st.
Proof. reflexivity. Qed.

Lemma pushes_spec xs : forall acc m,
  pushes (acc, m) xs = (rev xs ++ acc, fold_left (fun m e => Z.min m (fst e)) xs m).
Proof.
  induction xs as [|e t IH]; intros acc m.
  - reflexivity.
  - cbn [pushes fold_left rev]. unfold pushes in IH. unfold push at 2. cbn [fst snd].
    rewrite IH. rewrite <- app_assoc. cbn [app]. f_equal. f_equal.
    destruct (Z.ltb_spec (fst e) m); lia.
Qed.

(* ---------- ranges ---------- *)
Lemma zrange_app s a b : zrange s (a + b) = zrange s a ++ zrange (s + Z.of_nat a) b.
Proof.
  revert s. induction a as [|a IH]; intros s.
  - cbn [zrange app plus]. f_equal. lia.
  - cbn [zrange app plus]. f_equal. rewrite IH. f_equal. f_equal. lia.
Qed.

Lemma zrange_ge s n p : In p (zrange s n) -> s <= p.
Proof.
  revert s. induction n as [|n IH]; intros s H; [destruct H|].
  cbn [zrange] in H. destruct H as [H|H]; [lia|]. apply IH in H. lia.
Qed.

Lemma flat_map_nil {A B} (f : A -> list B) l : (forall x, In x l -> f x = []) -> flat_map f l = [].
Proof.
  induction l as [|a t IH]; intros H; [reflexivity|].
  cbn [flat_map]. rewrite (H a (or_introl eq_refl)), IH; [reflexivity|].
  intros x Hx. apply H. right. exact Hx.
Qed.

Lemma scs_beyond l s n : Zlen l - 3 <= s -> flat_map (scs l) (zrange s n) = [].
Proof.
  intros H. apply flat_map_nil. intros p Hp. apply zrange_ge in Hp.
  unfold scs, is_sc. replace (p + 3 <? Zlen l) with false by lia.
  rewrite andb_false_r. reflexivity.
Qed.

(* ---------- one probe of the inner loop = the two positions it covers ---------- *)
Lemma probe_spec l j st : 1 <= j -> j + 3 < Zlen l ->
  exists r, probe l j = Ok r /\
            match r with Some e => push st e | None => st end = pushes st (scs l (j - 1) ++ scs l j).
Proof.
  intros H1 H2. unfold probe.
  rewrite (getb_ok l j), (getb_ok l (j - 1)), (getb_ok l (j + 1)), (getb_ok l (j + 2)) by lia.
  cbn [rbind].
  unfold scs, is_sc, sc_len.
  replace (0 <=? j - 1) with true by lia. replace (j - 1 + 3 <? Zlen l) with true by lia.
  replace (0 <=? j) with true by lia. replace (j + 3 <? Zlen l) with true by lia.
  replace (j - 1 + 1) with j by lia. replace (j - 1 + 2) with (j + 1) by lia.
  replace (j - 1 - 1) with (j - 2) by lia. replace (j - 1 + 3) with (j + 2) by lia.
  replace (1 <=? j) with true by lia.
  replace (1 <=? j - 1) with (0 <=? j - 2) by lia.
  cbn [andb].
  destruct (is0 (zget l j)) eqn:Ej.
  2:{ rewrite !andb_false_r. cbn [andb app]. eexists. split; reflexivity. }
  destruct (is0 (zget l (j - 1))) eqn:Em1; cbn [rbind andb].
  - destruct (is1 (zget l (j + 1))) eqn:Ep1; cbn [rbind andb].
    + (* 00 00 01 begins at j-1 *)
      rewrite (is1_not0 _ Ep1). cbn [andb app].
      destruct (Z.leb_spec 0 (j - 2)) as [Hj|Hj].
      * rewrite (getb_ok l (j - 2)) by lia. cbn [rbind andb].
        eexists. split; [reflexivity|]. reflexivity.
      * cbn [rbind andb]. eexists. split; [reflexivity|]. reflexivity.
    + (* maybe 00 00 01 begins at j *)
      destruct (is0 (zget l (j + 1))) eqn:Ez1; cbn [rbind andb].
      * destruct (is1 (zget l (j + 2))) eqn:Ep2; cbn [rbind andb app].
        -- cbn [rbind]. rewrite ?Em1. eexists. split; reflexivity.
        -- eexists. split; reflexivity.
      * eexists. split; reflexivity.
  - (* byte before is non-zero: only a start code at j is possible *)
    destruct (is0 (zget l (j + 1))) eqn:Ez1; cbn [rbind andb].
    + destruct (is1 (zget l (j + 2))) eqn:Ep2; cbn [rbind andb app].
      * cbn [rbind]. rewrite ?Em1. eexists. split; reflexivity.
      * eexists. split; reflexivity.
    + eexists. split; reflexivity.
Qed.

(* ---------- inner loop: the four odd offsets of one word cover its eight positions ---------- *)
Lemma inner_step f l i j st : j < i + 8 -> 1 <= j -> j + 3 < Zlen l ->
  inner_loop (S f) l i j st = inner_loop f l i (j + 2) (pushes st (scs l (j - 1) ++ scs l j)).
Proof.
  intros Hj H1 H2. cbn [inner_loop]. replace (j <? i + 8) with true by lia.
  destruct (probe_spec l j st H1 H2) as [r [Hr Hs]]. rewrite Hr. cbn [rbind]. rewrite Hs. reflexivity.
Qed.

Lemma inner_end f l i j st : i + 8 <= j -> inner_loop (S f) l i j st = Ok st.
Proof. intros H. cbn [inner_loop]. replace (j <? i + 8) with false by lia. reflexivity. Qed.

Lemma zrange8 i : zrange i 8 = [i; i + 1; i + 2; i + 3; i + 4; i + 5; i + 6; i + 7].
Proof. cbn [zrange]. repeat (f_equal; try lia). Qed.

Lemma inner_spec l i st : 0 <= i -> i + 10 < Zlen l ->
  inner_loop 8 l i (i + 1) st = Ok (pushes st (flat_map (scs l) (zrange i 8))).
Proof.
  intros H0 H1.
  rewrite inner_step by lia. rewrite inner_step by lia. rewrite inner_step by lia.
  rewrite inner_step by lia. rewrite inner_end by lia.
  f_equal. rewrite zrange8. cbn [flat_map]. rewrite app_nil_r.
  rewrite <- !pushes_app. rewrite <- !app_assoc.
  replace (i + 1 - 1) with i by lia.
  replace (i + 1 + 2 - 1) with (i + 2) by lia. replace (i + 1 + 2) with (i + 3) by lia.
  replace (i + 3 + 2 - 1) with (i + 4) by lia. replace (i + 3 + 2) with (i + 5) by lia.
  replace (i + 5 + 2 - 1) with (i + 6) by lia. replace (i + 5 + 2) with (i + 7) by lia.
  reflexivity.
Qed.

(* ---------- a word without zero byte holds no start-code position ---------- *)
Lemma nth_skipn {A} (d : A) i : forall l k, nth k (skipn i l) d = nth (i + k) l d.
Proof.
  induction i as [|i IH]; intros l k; [reflexivity|].
  destruct l as [|a t]; [destruct k; reflexivity|]. cbn [skipn plus nth]. apply IH.
Qed.

Lemma nth_firstn_lt {A} (d : A) n : forall l k, (k < n)%nat -> nth k (firstn n l) d = nth k l d.
Proof.
  induction n as [|n IH]; intros l k Hk; [lia|].
  destruct l as [|a t]; [reflexivity|]. destruct k as [|k]; [reflexivity|].
  cbn [firstn nth]. apply IH. lia.
Qed.

Lemma bytes_ok_firstn n l : bytes_ok l = true -> bytes_ok (firstn n l) = true.
Proof.
  unfold bytes_ok. rewrite !forallb_forall. intros H x Hx. apply H.
  rewrite <- (firstn_skipn n l). apply in_or_app. left. exact Hx.
Qed.

Lemma bytes_ok_skipn n l : bytes_ok l = true -> bytes_ok (skipn n l) = true.
Proof.
  unfold bytes_ok. rewrite !forallb_forall. intros H x Hx. apply H.
  rewrite <- (firstn_skipn n l). apply in_or_app. right. exact Hx.
Qed.

Lemma read_word_ok l i : 0 <= i -> i + 8 <= Zlen l ->
  read_word l i = Ok (word_le (firstn 8 (skipn (Z.to_nat i) l))).
Proof.
  intros H0 H1. unfold read_word. rewrite getb_ok by lia. cbn [rbind]. unfold slice.
  replace ((0 <=? i) && (i <=? i + 8) && (i + 8 <=? Zlen l)) with true by lia.
  cbn [rbind]. replace (Z.to_nat (i + 8 - i)) with 8%nat by lia. reflexivity.
Qed.

Lemma no_zero_word_no_sc l i :
  bytes_ok l = true -> 0 <= i -> i + 8 <= Zlen l ->
  has_zero_byte (word_le (firstn 8 (skipn (Z.to_nat i) l))) = false ->
  flat_map (scs l) (zrange i 8) = [].
Proof.
  intros Hok H0 H1 Hz.
  set (bs := firstn 8 (skipn (Z.to_nat i) l)) in *.
  assert (Hlen : length bs = 8%nat).
  { unfold bs. rewrite firstn_length, skipn_length. unfold Zlen in H1. lia. }
  rewrite has_zero_byte_le in Hz by (try exact Hlen; apply bytes_ok_firstn, bytes_ok_skipn, Hok).
  assert (Hp : forall k, (k < 8)%nat -> is0 (zget l (i + Z.of_nat k)) = false).
  { intros k Hk. pose proof (existsb_nth is0 bs 2%N (n := k)) as E.
    rewrite Hlen in E. specialize (E Hk Hz).
    unfold bs in E. rewrite nth_firstn_lt, nth_skipn in E by exact Hk.
    unfold zget. replace (Z.to_nat (i + Z.of_nat k)) with (Z.to_nat i + k)%nat by lia. exact E. }
  apply flat_map_nil. intros p Hp'. rewrite zrange8 in Hp'.
  assert (Hk : exists k, (k < 8)%nat /\ p = i + Z.of_nat k).
  { cbn [In] in Hp'.
    destruct Hp' as [<-|[<-|[<-|[<-|[<-|[<-|[<-|[<-|[]]]]]]]]];
      [exists 0%nat|exists 1%nat|exists 2%nat|exists 3%nat|exists 4%nat|exists 5%nat|exists 6%nat|exists 7%nat];
      split; lia. }
  destruct Hk as [k [Hk ->]].
  unfold scs, is_sc. rewrite (Hp k Hk). rewrite !andb_false_r. reflexivity.
Qed.

(* ---------- word loop ---------- *)
Lemma word_spec fuel : forall l lim i st,
  bytes_ok l = true -> 0 <= i -> i mod 8 = 0 -> lim mod 8 = 0 -> lim <= Zlen l - 8 ->
  (Z.to_nat (lim - i) < fuel)%nat ->
  word_loop fuel l lim i st =
    Ok (Z.max i lim, pushes st (flat_map (scs l) (zrange i (Z.to_nat (Z.max i lim - i))))).
Proof.
  induction fuel as [|f IH]; intros l lim i st Hok H0 Hi Hlim Hle Hf; [lia|].
  cbn [word_loop]. destruct (Z.ltb_spec i lim) as [Hlt|Hge].
  - assert (H8 : i + 8 <= lim) by lia.
    rewrite read_word_ok by lia. cbn [rbind].
    assert (Hst : (if has_zero_byte (word_le (firstn 8 (skipn (Z.to_nat i) l)))
                   then inner_loop 8 l i (i + 1) st else Ok st)
                  = Ok (pushes st (flat_map (scs l) (zrange i 8)))).
    { destruct (has_zero_byte _) eqn:Hz.
      - apply inner_spec; lia.
      - rewrite (no_zero_word_no_sc l i Hok) by (try lia; exact Hz). reflexivity. }
    rewrite Hst. cbn [rbind].
    rewrite IH by (try assumption; lia).
    f_equal. f_equal; [lia|].
    rewrite <- pushes_app, <- flat_map_app. f_equal. f_equal.
    replace (Z.to_nat (Z.max i lim - i)) with (8 + Z.to_nat (Z.max (i + 8) lim - (i + 8)))%nat by lia.
    rewrite zrange_app. f_equal.
  - f_equal. f_equal; [lia|]. replace (Z.to_nat (Z.max i lim - i)) with 0%nat by lia. reflexivity.
Qed.

(* ---------- tail loop ---------- *)
Lemma tail_spec fuel : forall l i st,
  0 <= i -> (Z.to_nat (Zlen l - 3 - i) < fuel)%nat ->
  tail_loop fuel l i st = Ok (pushes st (flat_map (scs l) (zrange i (Z.to_nat (Zlen l - 3 - i))))).
Proof.
  induction fuel as [|f IH]; intros l i st H0 Hf; [lia|].
  cbn [tail_loop]. destruct (Z.ltb_spec i (Zlen l - 3)) as [Hlt|Hge].
  - replace (Z.to_nat (Zlen l - 3 - i)) with (S (Z.to_nat (Zlen l - 3 - (i + 1)))) by lia.
    cbn [zrange flat_map]. rewrite pushes_app.
    rewrite (getb_ok l i) by lia. cbn [rbind].
    unfold scs at 1, is_sc, sc_len.
    replace (0 <=? i) with true by lia. replace (i + 3 <? Zlen l) with true by lia. cbn [andb].
    destruct (is0 (zget l i)) eqn:E0; cbn [rbind andb].
    + rewrite (getb_ok l (i + 1)) by lia. cbn [rbind].
      destruct (is0 (zget l (i + 1))) eqn:E1; cbn [rbind andb].
      * rewrite (getb_ok l (i + 2)) by lia. cbn [rbind].
        destruct (is1 (zget l (i + 2))) eqn:E2; cbn [rbind andb].
        -- replace (0 <=? i - 1) with (1 <=? i) by lia.
           destruct (Z.leb_spec 1 i) as [Hi|Hi]; cbn [andb].
           ++ rewrite (getb_ok l (i - 1)) by lia. cbn [rbind]. apply IH; lia.
           ++ cbn [rbind]. apply IH; lia.
        -- apply IH; lia.
      * apply IH; lia.
    + apply IH; lia.
  - replace (Z.to_nat (Zlen l - 3 - i)) with 0%nat by lia. reflexivity.
Qed.

(* ---------- the scanner ---------- *)
Lemma scanner_eq_naive l : bytes_ok l = true ->
  get_start_code_positions l = Ok (naive_scan l, min_sc_len (naive_scan l)).
Proof.
  intros Hok. unfold get_start_code_positions.
  pose proof (Zlen_nonneg l) as Hn.
  rewrite Z.rem_mod_nonneg by lia.
  set (lim := Zlen l - Zlen l mod 8 - 8).
  rewrite (word_spec _ l lim 0 ([], 4) Hok) by (unfold lim, Zlen; lia).
  cbn [rbind fst snd].
  set (W := Z.max 0 lim).
  rewrite tail_spec by (unfold W, lim, Zlen; lia).
  cbn [rbind].
  rewrite <- pushes_app, <- flat_map_app.
  replace (W - 0) with W by lia.
  set (A := (Z.to_nat W + Z.to_nat (Zlen l - 3 - W))%nat).
  assert (HA : (A <= length l)%nat) by (unfold A, W, lim, Zlen in *; lia).
  assert (Hr : zrange 0 (Z.to_nat W) ++ zrange W (Z.to_nat (Zlen l - 3 - W)) = zrange 0 A).
  { unfold A. rewrite zrange_app. f_equal. f_equal. unfold W. lia. }
  rewrite Hr.
  assert (Hnaive : flat_map (scs l) (zrange 0 A) = naive_scan l).
  { unfold naive_scan. replace (length l) with (A + (length l - A))%nat by lia.
    rewrite zrange_app, flat_map_app, (scs_beyond l (0 + Z.of_nat A)), app_nil_r; [reflexivity|].
    unfold A, W, lim, Zlen in *. lia. }
  rewrite Hnaive. rewrite pushes_spec. cbn [fst snd]. rewrite app_nil_r, rev_involutive.
  reflexivity.
Qed.

(* ---------- the index-based naive scan equals the structural one ---------- *)
Lemma Zlen_app {A} (a b : list A) : Zlen (a ++ b) = Zlen a + Zlen b.
Proof. unfold Zlen. rewrite app_length. lia. Qed.

Lemma Zlen_cons {A} (x : A) l : Zlen (x :: l) = 1 + Zlen l.
Proof. unfold Zlen. cbn [length]. lia. Qed.

Lemma zget_app_k l0 l k : 0 <= k -> zget (l0 ++ l) (Zlen l0 + k) = zget l k.
Proof.
  intros Hk. unfold zget, Zlen. rewrite app_nth2 by lia. f_equal. lia.
Qed.

Lemma zget_app_0 l0 b t : zget (l0 ++ b :: t) (Zlen l0) = b.
Proof. replace (Zlen l0) with (Zlen l0 + 0) by lia. rewrite zget_app_k by lia. reflexivity. Qed.

Definition prev0 (l0 : list N) : bool := match rev l0 with [] => false | x :: _ => is0 x end.

Lemma prev0_spec l0 l : (1 <=? Zlen l0) && is0 (zget (l0 ++ l) (Zlen l0 - 1)) = prev0 l0.
Proof.
  unfold prev0. destruct (rev l0) as [|x r] eqn:E.
  - apply (f_equal (@rev N)) in E. rewrite rev_involutive in E. subst l0. reflexivity.
  - apply (f_equal (@rev N)) in E. rewrite rev_involutive in E. cbn [rev] in E. subst l0.
    rewrite Zlen_app. replace (Zlen [x]) with 1 by reflexivity.
    pose proof (Zlen_nonneg (rev r)).
    replace (1 <=? Zlen (rev r) + 1) with true by lia. cbn [andb].
    replace (Zlen (rev r) + 1 - 1) with (Zlen (rev r)) by lia.
    rewrite <- app_assoc. cbn [app]. rewrite zget_app_0. reflexivity.
Qed.

Lemma nscan_gen : forall l l0,
  nscan (prev0 l0) (Zlen l0) l = flat_map (scs (l0 ++ l)) (zrange (Zlen l0) (length l)).
Proof.
  induction l as [|b t IH]; intros l0; [reflexivity|].
  cbn [nscan length zrange flat_map]. f_equal.
  - unfold scs, is_sc, sc_len. rewrite prev0_spec.
    pose proof (Zlen_nonneg l0) as Hn. replace (0 <=? Zlen l0) with true by lia. cbn [andb].
    rewrite Zlen_app. rewrite zget_app_0.
    destruct t as [|c [|d [|e t']]].
    + replace (Zlen l0 + 3 <? Zlen l0 + Zlen [b]) with false by (unfold Zlen; cbn [length]; lia).
      reflexivity.
    + replace (Zlen l0 + 3 <? Zlen l0 + Zlen [b; c]) with false by (unfold Zlen; cbn [length]; lia).
      reflexivity.
    + replace (Zlen l0 + 3 <? Zlen l0 + Zlen [b; c; d]) with false by (unfold Zlen; cbn [length]; lia).
      reflexivity.
    + replace (Zlen l0 + 3 <? Zlen l0 + Zlen (b :: c :: d :: e :: t')) with true
        by (unfold Zlen; cbn [length]; lia).
      rewrite !zget_app_k by lia. cbn [andb]. unfold zget. cbn [Z.to_nat Pos.to_nat Pos.iter_op nth plus].
      reflexivity.
  - specialize (IH (l0 ++ [b])). rewrite <- app_assoc in IH. cbn [app] in IH.
    rewrite Zlen_app in IH. replace (Zlen [b]) with 1 in IH by reflexivity.
    rewrite <- IH. f_equal. unfold prev0. rewrite rev_app_distr. reflexivity.
Qed.

Lemma nscan_naive l : nscan false 0 l = naive_scan l.
Proof. exact (nscan_gen l []). Qed.
