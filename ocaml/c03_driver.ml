(* Driver for the C03 models: D lines (shape lists through the two file decode loops) and E lines (decoded File
   structure with per-box encodings; File.Encode / File.EncodeSW bytes).  "OK <id>" / "MISMATCH <id> ...". *)
open Vx
open BinNums
open Base
open C04AsmModel
open C03Model
open C04Model
open C03LeafModel
open C04XrefModel
open C03SencPassModel
open C03PfxModel
open C03MetaModel
open C03SgpdModel

(* ---- H lines: encode histories through the two encoder models (coq/c03/C03EncHistModel.v over the C02 aggregate states); the token
   parsers and digests mirror ocaml/c02_driver.ml *)
module Hist = struct
  open BinNums
  open Vx
  open C05Model
  open C05FragModel
  open C02AggModel
  open C03EncHistModel

  let hexn s = n_of_hex s
  let hn n = hex_of_n n
  let hz z = hex_of_z z
  type ts = { toks : string array; mutable pos : int }
  let next t = let x = t.toks.(t.pos) in t.pos <- t.pos + 1; x
  let nint t = int_of_string (next t)
  let nbool t = (next t = "1")
  let nn t = hexn (next t)
  let rec times k f = if k <= 0 then [] else let x = f () in x :: times (k - 1) f
  let bad_oboxes : string list ref = ref []
  let p_obox_body t : obox =
    let ty = bytes_of_hex (next t) in
    let sz = nn t in
    let by = (let h = next t in if h = "-" then [] else bytes_of_hex h) in
    let e = nbool t in
    let o = { ob_type = ty; ob_size = sz; ob_bytes = by; ob_err = e } in
    if not e && not (ob_wf o) then bad_oboxes := (hn sz) :: !bad_oboxes;
    o
  let p_obox t : obox = match next t with "O" -> p_obox_body t | x -> failwith ("expected O, got " ^ x)
  let p_tfhd t : tfhd =
    let f = nn t in let tk = nn t in let bdo = nn t in let sdi = nn t in
    let dd = nn t in let ds = nn t in let df = nn t in
    { tf_flags = f; tf_track = tk; tf_bdo = bdo; tf_sdi = sdi; tf_ddur = dd; tf_dsize = ds; tf_dflags = df }
  let p_trun t : trun =
    let v = nn t in let f = nn t in let d = z_of_hex (next t) in let fsf = nn t in let won = nn t in
    let n = nint t in
    let ss = times n (fun () ->
        let fl = nn t in let du = nn t in let sz = nn t in let c = z_of_hex (next t) in
        { s_flags = fl; s_dur = du; s_size = sz; s_cto = c }) in
    { tr_version = v; tr_flags = f; tr_doff = d; tr_fsf = fsf; tr_samples = ss; tr_won = won }
  let p_tchild t : tchild =
    match next t with
    | "h" -> TcTfhd (p_tfhd t)
    | "d" -> let v = nn t in let b = nn t in TcTfdt { td_version = v; td_base = b }
    | "r" -> TcTrun (p_trun t)
    | "O" -> TcOther (p_obox_body t)
    | x -> failwith ("bad traf child " ^ x)
  let p_moof t : mchild list =
    let n = nint t in
    times n (fun () ->
        match next t with
        | "H" -> McMfhd (nn t)
        | "T" -> let k = nint t in McTraf (times k (fun () -> p_tchild t))
        | "O" -> McOther (p_obox_body t)
        | x -> failwith ("bad moof child " ^ x))
  let p_mdat t : mdat =
    let data = (let h = next t in if h = "-" then [] else bytes_of_hex h) in
    let np = nint t in
    let parts = times np (fun () -> let h = next t in if h = "-" then [] else bytes_of_hex h) in
    let lz = nn t in
    let large = nbool t in
    { md_data = data; md_parts = parts; md_lazy = lz; md_large = large }
  let p_frag t : afrag =
    (match next t with "F" -> () | x -> failwith ("expected F, got " ^ x));
    let opt = nbool t in
    let npre = nint t in
    let pre = times npre (fun () -> p_obox t) in
    let moof = if nbool t then Some (p_moof t) else None in
    let nmid = nint t in
    let mid = times nmid (fun () -> p_obox t) in
    let md = if nbool t then Some (p_mdat t) else None in
    let npost = nint t in
    let post = times npost (fun () -> p_obox t) in
    { af_pre = pre; af_moof = moof; af_mid = mid; af_mdat = md; af_post = post; af_opt = opt }
  let p_seg t : aseg =
    (match next t with "S" -> () | x -> failwith ("expected S, got " ^ x));
    let opt = nbool t in
    let styp = if nbool t then Some (p_obox t) else None in
    let ns = nint t in
    let sidxs = times ns (fun () -> p_obox t) in
    let nf = nint t in
    let frags = times nf (fun () -> p_frag t) in
    { sg_styp = styp; sg_sidxs = sidxs; sg_frags = frags; sg_opt = opt }
  let p_init t : obox list = let n = nint t in times n (fun () -> p_obox t)
  let p_file t : afile =
    (match next t with "L" -> () | x -> failwith ("expected L, got " ^ x));
    let fragm = nbool t in
    let mode = n_of_int (nint t) in
    let opt = nbool t in
    let shared = nbool t in
    let init = if nbool t then Some (p_init t) else None in
    let ns = nint t in
    let sidxs = times ns (fun () -> p_obox t) in
    let nseg = nint t in
    let segs = times nseg (fun () -> p_seg t) in
    let mfra = if nbool t then Some (p_obox t) else None in
    let nc = nint t in
    let cs = times nc (fun () ->
        match next t with
        | "M" -> FcMoof (p_moof t)
        | "D" -> FcMdat (p_mdat t)
        | "O" -> FcOther (p_obox_body t)
        | x -> failwith ("bad file child " ^ x)) in
    { fl_fragmented = fragm; fl_mode = mode; fl_opt = opt; fl_shared = shared; fl_init = init; fl_sidxs = sidxs; fl_segs = segs;
      fl_mfra = mfra; fl_children = cs }
  let dig_moof b (m : mchild list) =
    L.iter (fun c ->
        match c with
        | McTraf tr ->
          Buffer.add_string b "T(";
          L.iter (fun tc ->
              match tc with
              | TcTfhd h -> Buffer.add_string b (Printf.sprintf "h%s,%s,%s,%s;" (hn h.tf_flags) (hn h.tf_ddur) (hn h.tf_dsize) (hn h.tf_dflags))
              | TcTrun r -> Buffer.add_string b (Printf.sprintf "r%s,%s,%s;" (hn r.tr_flags) (hz r.tr_doff) (hn r.tr_fsf))
              | _ -> ()) tr;
          Buffer.add_string b ")"
        | _ -> ()) m
  let dig_mdat b (m : mdat option) =
    match m with None -> Buffer.add_string b "-" | Some m -> Buffer.add_string b (if m.md_large then "D1" else "D0")
  let dig_frag b (f : afrag) =
    Buffer.add_string b (if f.af_opt then "F1[" else "F0[");
    (match f.af_moof with None -> Buffer.add_string b "-" | Some m -> dig_moof b m);
    Buffer.add_string b "]";
    dig_mdat b f.af_mdat
  let dig_seg b (s : aseg) =
    Buffer.add_string b (if s.sg_opt then "S1" else "S0");
    L.iter (dig_frag b) s.sg_frags
  let dig_file b (f : afile) =
    if afile_seg_mode f then begin
      Buffer.add_string b "L"; L.iter (dig_seg b) f.fl_segs
    end else begin
      Buffer.add_string b "C";
      L.iter (fun c ->
          match c with
          | FcMoof m -> Buffer.add_string b "["; dig_moof b m; Buffer.add_string b "]"
          | FcMdat m -> dig_mdat b (Some m)
          | FcOther _ -> ()) f.fl_children
    end
  let string_of_bytes (l : coq_N list) : string =
    let b = Buffer.create 1024 in
    L.iter (fun x -> Buffer.add_char b (Char.chr ((int_of_n x) land 255))) l;
    Buffer.contents b
  let be32_at s p = (Char.code s.[p] lsl 24) lor (Char.code s.[p+1] lsl 16) lor (Char.code s.[p+2] lsl 8) lor Char.code s.[p+3]
  let top_lens (s : string) : int list option =
    let n = S.length s in
    let rec go pos acc =
      if pos >= n then Some (L.rev acc)
      else if n - pos < 8 then None
      else begin
        let sz = be32_at s pos in
        if sz = 1 then begin
          if n - pos < 16 then None
          else begin
            let hi = be32_at s (pos + 8) and lo = be32_at s (pos + 12) in
            if hi >= 0x40000000 then None
            else
              let sz = (hi lsl 32) lor lo in
              if sz < 16 || sz > n - pos then None else go (pos + sz) (sz :: acc)
          end
        end
        else if sz < 8 || sz > n - pos then None
        else go (pos + sz) (sz :: acc)
      end
    in go 0 []
  let out_string (o : aout) : string =
    match o with
    | OutSize n -> "S" ^ hn n
    | OutInfo -> "I"
    | OutErr -> "E"
    | OutPanic -> "P"
    | OutBytes boxes ->
      let s = S.concat "" (L.map string_of_bytes boxes) in
      let lens = match top_lens s with None -> "X" | Some [] -> "-" | Some l -> S.concat "," (L.map (Printf.sprintf "%x") l) in
      Printf.sprintf "B%x:%s:%s" (S.length s) (Digest.to_hex (Digest.string s)) lens
  (* e -> the model of Encode, w -> the model of EncodeSW *)
  let op_of_char c = match c with 's' -> HSize | 'i' -> HInfo | 'e' -> HEncode | 'w' -> HEncodeSW | _ -> failwith "bad op"
  let history (type s) (a : s hagg) (dig : Buffer.t -> s -> unit) (s0 : s) (ops : string) : string =
    let st = ref s0 in
    let obs = ref [] in
    (try
       S.iter (fun c ->
           let (s', o) = hstep a !st (op_of_char c) in
           st := s';
           match o with
           | OutPanic -> obs := "P" :: !obs; raise Exit
           | _ ->
             let b = Buffer.create 256 in
             dig b s';
             obs := (out_string o ^ "/" ^ Buffer.contents b) :: !obs) ops
     with Exit -> ());
    S.concat " " (L.rev !obs)
  let group (kind : string) (tokens : string) (ops : string) : string =
    let t = { toks = Array.of_list (split_on ' ' tokens); pos = 0 } in
    bad_oboxes := [];
    let m = match kind with
      | "frag" -> history hfrag_agg dig_frag (p_frag t) ops
      | "seg" -> history hseg_agg dig_seg (p_seg t) ops
      | "file" -> history hfile_agg dig_file (p_file t) ops
      | _ -> failwith "bad kind" in
    if !bad_oboxes <> [] then "SKIP" else m
end

let b01 b = if b then "1" else "0"
let cls_of (r : 'a res) : string =
  match r with Ok _ -> "ok" | Err -> "err" | Panic -> "panic" | OutOfFuel -> "hang"

(* ---- box trees (B and L lines) *)
let name_hex (l : coq_N list) : string =
  S.concat "" (L.map (fun x -> Printf.sprintf "%02x" (int_of_n x)) l)
let dec_of_n (n : coq_N) : string = Printf.sprintf "%Lu" (Int64.of_string ("0x" ^ hex_of_n n))
let rec dump (t : tree) : string =
  match t with
  | Leaf (nm, sz) -> name_hex nm ^ ":" ^ dec_of_n sz
  | Node (nm, kids) -> name_hex nm ^ ":" ^ dec_of_n (tsize t) ^ "{" ^ S.concat "," (L.map dump kids) ^ "}"
(* top-level boxes of a file: name:Size(), with the start position (sum of the preceding Size() values) for mdat and moof *)
let top_obs (ts : tree list) : string =
  let rec go pos = function
    | [] -> []
    | t :: r ->
      let nm = name_hex (tname t) in
      let sz = Int64.of_string ("0x" ^ hex_of_n (tsize t)) in
      let at = if nm = "6d646174" || nm = "6d6f6f66" then Printf.sprintf "@%Lu" pos else "" in
      (Printf.sprintf "%s:%Lu%s" nm sz at) :: go (Int64.add pos sz) r in
  S.concat "," (go 0L ts)
let n_mdat (ts : tree list) : int = L.length (L.filter (fun t -> name_hex (tname t) = "6d646174") ts)

(* ---- leaf decoder pairs (T lines) *)
let hexn (n : coq_N) : string = S.lowercase_ascii (hex_of_n n)
let leaf_fields (v : leafval) : string =
  match v with
  | LTrun t ->
    Printf.sprintf "trun:%d:%s:%d:%s:[%s]" (int_of_n t.tr_version) (hexn t.tr_flags) (int_of_z t.tr_data_offset) (hexn t.tr_first_flags)
      (S.concat "," (L.map (fun x -> Printf.sprintf "%s.%s.%s.%d" (hexn x.ts_flags) (hexn x.ts_dur) (hexn x.ts_size) (int_of_z x.ts_cto)) t.tr_samples))
  | LSenc v ->
    Printf.sprintf "senc:%d:%s:%d:%s:%s:%s" (int_of_n v.se_version) (hexn v.se_flags) (int_of_n v.se_count) (hex_of_bytes v.se_raw)
      (dec_of_n v.se_read_size) (b01 v.se_unparsed)
  | LMdat m -> Printf.sprintf "mdat:%s:%s" (hex_of_bytes m.md_data) (b01 m.md_large)

let ent_fields (v : entval) : string =
  match v with
  | EVse x ->
    Printf.sprintf "vse:%d:%d:%d:%s:%s:%d:%s:[%s]" (int_of_n x.vs_dri) (int_of_n x.vs_width) (int_of_n x.vs_height) (hexn x.vs_hres)
      (hexn x.vs_vres) (int_of_n x.vs_frames) (hex_of_bytes x.vs_cname) (S.concat "," (L.map dump x.vs_kids))
  | EStsd x ->
    Printf.sprintf "stsd:%d:%s:%d:[%s]" (int_of_n x.sd_version) (hexn x.sd_flags) (int_of_n x.sd_count)
      (S.concat "," (L.map (fun t -> name_hex (tname t) ^ ":" ^ dec_of_n (tsize t)) x.sd_kids))

(* ---- shapes *)
let parse_traf (s : string) : trafshape =
  let atoms = if s = "-" then [] else split_on '+' s in
  let tfhd = L.mem "h" atoms in
  let senc = if L.mem "s0" atoms then Some SencParsed else if L.mem "s1" atoms then Some (SencUnparsed true)
    else if L.mem "s2" atoms then Some (SencUnparsed false) else None in
  let saio = if L.mem "a0" atoms then Some SaioEmpty else if L.mem "a1" atoms then Some SaioMatch
    else if L.mem "a2" atoms then Some SaioMismatch else None in
  let truns = L.filter_map (fun a -> match a with "t0" -> Some TrunNoOffset | "t1" -> Some TrunZeroOffset
                                               | "t2" -> Some TrunOffset | _ -> None) atoms in
  { t_tfhd = tfhd; t_senc = senc; t_saio = saio; t_truns = truns }

let ni s = n_of_int (int_of_string s)

let parse_shape (tok : string) : topshape * coq_N =
  match split_on '@' tok with
  | [code; size] ->
    let sz = ni size in
    let c = code.[0] in
    let rest = S.sub code 1 (S.length code - 1) in
    let sh =
      match c with
      | 'F' -> TFtyp
      | 'M' -> (match split_on '.' rest with
          | [d; n] -> TMoov (MoovChain (nat_of_int (int_of_string d), ni n))
          | _ -> failwith "bad M")
      | 'S' -> TStyp
      | 'X' -> (match split_on ':' rest with
          | [fo; refs] ->
            let rs = if refs = "" then [] else L.map (fun r -> match split_on '.' r with
                | [t; s] -> (t = "1", ni s) | _ -> failwith "bad ref") (split_on ',' refs) in
            TSidx { sx_first = ni fo; sx_refs = rs }
          | _ -> failwith "bad X")
      | 'E' -> TEmsg
      | 'O' -> if rest = "" then TMoof []
        else TMoof (L.map parse_traf (split_on '/' (S.sub rest 1 (S.length rest - 1))))
      | 'D' -> TMdat (ni rest)
      | 'A' -> if rest = "" then TMfra []
        else TMfra (L.map (fun t -> match split_on '=' t with
            | [tid; offs] -> (ni tid, if offs = "" then [] else L.map ni (split_on ',' offs))
            | _ -> failwith "bad tfra") (split_on '|' (S.sub rest 1 (S.length rest - 1))))
      | 'U' -> TOther
      | _ -> failwith ("bad shape " ^ tok) in
    (sh, sz)
  | _ -> failwith ("bad shape token " ^ tok)

let file_obs (f : fstate) : string =
  let seg_s sg =
    let (((start, styp), nsidx), frs) = obs_segment sg in
    Printf.sprintf "%d.%s.%d[%s]" (int_of_n start) (b01 styp) (int_of_n nsidx)
      (S.concat "," (L.map (fun (((st, nch), hm), hd) ->
           Printf.sprintf "%d.%d.%s.%s" (int_of_n st) (int_of_n nch) (b01 hm) (b01 hd)) frs)) in
  Printf.sprintf "frag=%s|init=%s|mdat=%s|nsidx=%d|mfra=%s|nch=%d|segs=%s"
    (b01 (f_frag f))
    (match f_init f with Some l -> string_of_int (L.length l) | None -> "-")
    (match f_mdat f with Some p -> string_of_int (int_of_n p) | None -> "-")
    (L.length (f_sidxs f)) (b01 (f_mfra f)) (L.length (f_children f))
    (S.concat ";" (L.map seg_s (L.rev (f_segs f))))


(* ---- E lines *)
let parse_enc (s : string) : coq_N list res = if s = "!" then Err else Ok (bytes_of_hex s)
let parse_box (s : string) : ebox =
  match split_on '/' s with
  | [w; sw] -> ELeaf (parse_enc w, parse_enc sw)
  | _ -> failwith ("bad box " ^ s)
let parse_boxes (s : string) : ebox list = if s = "" then [] else L.map parse_box (split_on ',' s)
let parse_frag (s : string) : efrag =
  match split_on ':' s with
  | [m; d; bx] -> { ef_moof = (m = "1"); ef_mdat = (d = "1"); ef_children = parse_boxes bx }
  | _ -> failwith ("bad frag " ^ s)
let parse_seg (s : string) : eseg =
  match split_on '~' s with
  | [styp; sidxs; frags] ->
    { es_styp = (if styp = "-" then None else Some (parse_box styp)); es_sidxs = parse_boxes sidxs;
      es_frags = (if frags = "" then [] else L.map parse_frag (split_on '^' frags)) }
  | _ -> failwith ("bad seg " ^ s)
let parse_file (s : string) : efile =
  match split_on ';' s with
  | [fr; bt; init; sidxs; segs; mfra; children] ->
    { e_frag = (fr = "1"); e_boxtree = (bt = "1");
      e_init = (if init = "-" then None else Some (parse_boxes (S.sub init 1 (S.length init - 1))));
      e_sidxs = parse_boxes sidxs;
      e_segs = (if segs = "" then [] else L.map parse_seg (split_on '|' segs));
      e_mfra = (if mfra = "-" then None else Some (parse_box mfra));
      e_children = parse_boxes children }
  | _ -> failwith "bad file structure"

let enc_string (r : coq_N list res) : string = match r with Ok l -> hex_of_bytes l | _ -> "!"

let () =
  iter_lines (fun line ->
      match split_on '\t' line with
      | ["D"; id; cfg; shapes; obs] ->
        let sh = if shapes = "-" then [] else L.map parse_shape (split_on ';' shapes) in
        let fl = Char.code cfg.[2] - 48 in
        let o = { o_sr = (cfg.[0] = 'S'); o_lazy = (cfg.[1] = 'L'); o_ism = (fl land 1 = 1); o_start_on_moof = (fl land 2 = 2) } in
        let r = if cfg.[0] = 'S' then decode_file_sr o sh else decode_file_r o sh in
        let m = match r with Ok f -> "dec=ok|" ^ file_obs f | r -> "dec=" ^ cls_of r in
        if m = obs then Printf.printf "OK %s\n" id else Printf.printf "MISMATCH %s decode-loop model=%s\n" id m
      | ["Y"; id; cfg; moov; tops; trafs; obs] ->
        (* the second senc pass inside the two file loops: File grouping + the state of the picked senc of every traf of every moof *)
        let nl s = if s = "" then [] else split_on ',' s in
        let parse_trak t = match split_on '.' t with
          | [id; e] ->
            let tk = if id = "n" then None else Some (ni id) in
            let ek = if e = "n" then ENone
              else EAV (e.[0] = 'e', if S.length e = 1 then None else Some (ni (S.sub e 1 (S.length e - 1)))) in
            (tk, ek)
          | _ -> failwith "bad trak" in
        let moovc = if moov = "-" then []
          else (let b = S.sub moov 1 (S.length moov - 1) in if b = "" then [] else L.map parse_trak (split_on ';' b)) in
        let parse_senc t = match split_on '.' t with
          | [pf; off; fl; cnt; raw] ->
            { se_piff = (pf = "1"); se_off = ni off; se_flags = ni fl; se_count = ni cnt; se_raw = bytes_of_hex raw }
          | _ -> failwith "bad senc" in
        let parse_xtraf t =
          let fs = split_on '|' t in
          let get c = L.find (fun f -> f.[0] = c) fs in
          let h = get 'h' and a = get 'a' and b = get 'b' and g = get 'g' and s = get 's' in
          let rest f = S.sub f 2 (S.length f - 2) in
          { xt_tfhd = (if h = "h-" then None else Some (ni (S.sub h 1 (S.length h - 1))));
            xt_saio = (if a = "a-" then None else Some (L.map n_of_hex (nl (rest a))));
            xt_sbgp = (if b = "b-" then None else
                         let es = L.map (fun e -> match split_on '.' e with [c; i] -> (ni c, ni i) | _ -> failwith "bad sbgp") (nl (S.sub b 4 (S.length b - 4))) in
                         Some { sb_seig = (b.[2] = '1'); sb_counts = L.map fst es; sb_idx = L.map snd es });
            xt_sgpd = (if g = "g-" then None else
                         Some { sg_seig = (g.[2] = '1');
                                sg_entries = L.map (fun e -> if e = "o" then SGOther else SGSeig (ni (S.sub e 1 (S.length e - 1)))) (nl (S.sub g 4 (S.length g - 4))) });
            xt_sencs = (let r = rest s in if r = "" then [] else L.map parse_senc (split_on ';' r)) } in
        let moofs = L.map (fun m -> if m = "" then [] else L.map parse_xtraf (split_on '/' m)) (split_on '&' trafs) in
        let rec mk toks moofs = match toks with
          | [] -> []
          | tok :: r ->
            let (sh, sz) = parse_shape tok in
            (match sh, moofs with
             | TMoof _, tl :: mr -> { xb_shape = sh; xb_size = sz; xb_moov = []; xb_trafs = tl } :: mk r mr
             | TMoof _, [] -> failwith "moof without trafs"
             | _, _ -> { xb_shape = sh; xb_size = sz; xb_moov = moovc; xb_trafs = [] } :: mk r moofs) in
        let boxes = mk (split_on ';' tops) moofs in
        let fl = Char.code cfg.[2] - 48 in
        let o = { o_sr = (cfg.[0] = 'S'); o_lazy = (cfg.[1] = 'L'); o_ism = (fl land 1 = 1); o_start_on_moof = (fl land 2 = 2) } in
        let r = if cfg.[0] = 'S' then decode_file_xsr o boxes else decode_file_xr o boxes in
        let m = match r with
          | Ok (f, states) ->
            let one tl sts = S.concat "," (L.map2 (fun tr st ->
                match picked_senc tr, st with
                | None, _ -> "-"
                | Some _, Some ((a, b), _) -> Printf.sprintf "0:%d:%d" (int_of_n a) (int_of_n b)
                | Some s, None -> Printf.sprintf "%s:0:0" (b01 (se_unparsed s))) tl sts) in
            "dec=ok|" ^ file_obs f ^ "|t=" ^ S.concat "&" (L.map2 one moofs states)
          | r -> "dec=" ^ cls_of r in
        if m = obs then Printf.printf "OK %s\n" id else Printf.printf "MISMATCH %s senc-pass model=%s\n" id m
      | "H" :: id :: kind :: _hist :: ng :: rest ->
        (* groups of (tokens, ops, observations): the model continues from the re-read state after every addition / toggle *)
        let rec go k l = match l with
          | tok :: ops :: obs :: r ->
            let m = Hist.group kind tok ops in
            if m = "SKIP" || m = obs then go (k + 1) r else Some (k, m)
          | [] -> None
          | _ -> Some (-1, "bad H line") in
        ignore ng;
        (match go 0 rest with
         | None -> Printf.printf "OK %s\n" id
         | Some (k, m) -> Printf.printf "MISMATCH %s encode-history group %d model=%s\n" id k (S.sub m 0 (min 400 (S.length m))))
      | ["B"; id; hex; o1; o2] ->
        let bs = bytes_of_hex hex in
        let m1 =
          match box_r top_leaves bs with
          | (Ok BEof, _) -> "eof"
          | (Ok (BBox t), s) -> Printf.sprintf "ok:%s:%d" (dump t) (int_of_n (ipos s))
          | (r, _) -> cls_of r in
        let m2 =
          match box_sr top_leaves bs with
          | (Ok t, s) -> Printf.sprintf "ok:%s:%d:%s" (dump t) (int_of_z (rpos (sr s))) (b01 (rerr (sr s)))
          | (r, _) -> cls_of r in
        if m1 = o1 && m2 = o2 then Printf.printf "OK %s\n" id
        else Printf.printf "MISMATCH %s box model_r=%s model_sr=%s\n" id m1 m2
      | ["T"; id; hex; o1; o2] ->
        let bs = bytes_of_hex hex in
        let m1 = match leafbox_r bs with
          | Ok (v, n) -> Printf.sprintf "ok:%s:S%s:%d" (leaf_fields v) (dec_of_n (leafval_size v)) (int_of_n n)
          | r -> cls_of r in
        let m2 = match leafbox_sr bs with
          | Ok ((v, p), e) -> Printf.sprintf "ok:%s:S%s:%d:%s" (leaf_fields v) (dec_of_n (leafval_size v)) (int_of_z p) (b01 e)
          | r -> cls_of r in
        if m1 = o1 && m2 = o2 then Printf.printf "OK %s\n" id
        else Printf.printf "MISMATCH %s leaf model_r=%s model_sr=%s\n" id m1 m2
      | ["V"; id; hex; o1; o2] ->
        let bs = bytes_of_hex hex in
        (* the Go side prints the box type of a sample entry after "vse:"; the model value does not carry it: take it from the input *)
        let nm = if L.length bs >= 8 then name_hex (L.filteri (fun i _ -> i >= 4 && i < 8) bs) else "" in
        let fix s = if S.length s > 7 && S.sub s 0 7 = "ok:vse:" then "ok:vse:" ^ nm ^ ":" ^ S.sub s 7 (S.length s - 7) else s in
        let m1 = match entbox_r bs with
          | Ok (v, n) -> fix (Printf.sprintf "ok:%s:S%s:%d" (ent_fields v) (dec_of_n (entval_size v)) (int_of_n n))
          | r -> cls_of r in
        let m2 = match entbox_sr bs with
          | Ok ((v, p), e) -> fix (Printf.sprintf "ok:%s:S%s:%d:%s" (ent_fields v) (dec_of_n (entval_size v)) (int_of_z p) (b01 e))
          | r -> cls_of r in
        if m1 = o1 && m2 = o2 then Printf.printf "OK %s\n" id
        else Printf.printf "MISMATCH %s entry model_r=%s model_sr=%s\n" id m1 m2
      | ["C"; id; hex; o1; o2] ->
        let bs = bytes_of_hex hex in
        let pfx_fields (v : pfxval) : string =
          match v with
          | PCnt x -> Printf.sprintf "cnt:%d:%s:%s:[%s]" (int_of_n x.sd_version) (hexn x.sd_flags) (dec_of_n x.sd_count)
                        (S.concat "," (L.map (fun t -> name_hex (tname t) ^ ":" ^ dec_of_n (tsize t)) x.sd_kids))
          | PWvtt (dri, kids) -> Printf.sprintf "wvtt:%d:[%s]" (int_of_n dri) (S.concat "," (L.map dump kids))
          | PEvte (dri, kids) -> Printf.sprintf "evte:%d:[%s]" (int_of_n dri) (S.concat "," (L.map dump kids))
          | PStpp (a, kids) ->
            let hd l = if l = [] then "-" else hex_of_bytes l in
            Printf.sprintf "stpp:%d:%s:%s:%s:[%s]" (int_of_n a.sp_dri) (hd a.sp_ns) (hd a.sp_sl) (hd a.sp_am) (S.concat "," (L.map dump kids))
          | PAse (a, kids) -> Printf.sprintf "ase:%d:%d:%d:%d:[%s]" (int_of_n a.as_dri) (int_of_n a.as_cc) (int_of_n a.as_ss) (int_of_n a.as_rate)
                                (S.concat "," (L.map dump kids)) in
        let is_meta = L.length bs >= 8 && name_hex (L.filteri (fun i _ -> i >= 4 && i < 8) bs) = "6d657461" in
        let meta_fields (v : metav) : string =
          Printf.sprintf "meta:%s:%d:%s:[%s]" (b01 v.mt_qt) (int_of_n v.mt_version) (hexn v.mt_flags) (S.concat "," (L.map dump v.mt_kids)) in
        let m1 =
          if is_meta then
            (match metabox_r bs with
             | Ok (v, n) -> Printf.sprintf "ok:%s:S%s:%d" (meta_fields v) (dec_of_n (meta_size v)) (int_of_n n)
             | r -> cls_of r)
          else
            (match pfxbox_r bs with
             | Ok (v, n) -> Printf.sprintf "ok:%s:S%s:%d" (pfx_fields v) (dec_of_n (pfxval_size v)) (int_of_n n)
             | r -> cls_of r) in
        let m2 =
          if is_meta then
            (match metabox_sr bs with
             | Ok ((v, p), e) -> Printf.sprintf "ok:%s:S%s:%d:%s" (meta_fields v) (dec_of_n (meta_size v)) (int_of_z p) (b01 e)
             | r -> cls_of r)
          else
            (match pfxbox_sr bs with
             | Ok ((v, p), e) -> Printf.sprintf "ok:%s:S%s:%d:%s" (pfx_fields v) (dec_of_n (pfxval_size v)) (int_of_z p) (b01 e)
             | r -> cls_of r) in
        if m1 = o1 && m2 = o2 then Printf.printf "OK %s\n" id
        else Printf.printf "MISMATCH %s pfx model_r=%s model_sr=%s\n" id m1 m2
      | ["M"; id; "pfx"; fields; _; kids; enc] ->
        let (ow, osw) = match split_on '/' enc with [a; b] -> (a, b) | _ -> failwith "bad enc" in
        let ks = parse_boxes kids in
        let (nm, sz, fixed) =
          (match split_on ':' fields with
           | [nm; sz; "w2"; v; f; c] -> (nm, sz, word2_fixed (ni v) (ni f) (ni c))
           | [nm; sz; "wvtt"; dri] -> (nm, sz, wvtt_fixed (ni dri))
           | [nm; sz; "meta"; fl; v; f] -> (nm, sz, if fl = "0" then [] else L.filteri (fun i _ -> i < 4) (word2_fixed (ni v) (ni f) N0))
           | [nm; sz; "ase"; dri; cc; ss; rate] -> (nm, sz, ase_fixed (ni dri) (ni cc) (ni ss) (ni rate))
           | _ -> failwith "bad pfx M line") in
        let mw = pfx_enc_w (bytes_of_hex nm) (ni sz) fixed ks and msw = pfx_enc_sw (bytes_of_hex nm) (ni sz) fixed ks in
        if enc_string mw = ow && enc_string msw = osw then Printf.printf "OK %s\n" id
        else Printf.printf "MISMATCH %s pfx-encode model_w=%s model_sw=%s\n" id (enc_string mw) (enc_string msw)
      | ["M"; id; "mdat"; data; large; _; enc] ->
        let (ow, osw) = match split_on '/' enc with [a; b] -> (a, b) | _ -> failwith "bad enc" in
        let m = { md_data = (if data = "-" then [] else bytes_of_hex data); md_large = (large = "1") } in
        if enc_string (mdat_enc_w m) = ow && enc_string (mdat_enc_sw m) = osw then Printf.printf "OK %s\n" id
        else Printf.printf "MISMATCH %s mdat-encode model_w=%s\n" id (enc_string (mdat_enc_w m))
      | ["M"; id; kind; fields; _; kids; enc] ->
        let (ow, osw) = match split_on '/' enc with [a; b] -> (a, b) | _ -> failwith "bad enc" in
        let bytes_of s = if s = "-" then [] else bytes_of_hex s in
        let (mw, msw) =
          (match kind, split_on ':' fields with
           | "stsd", [v; f; c; sz] ->
             let ks = parse_boxes kids in
             (stsd_enc_w (ni v) (ni f) (ni c) (ni sz) ks, stsd_enc_sw (ni v) (ni f) (ni c) (ni sz) ks)
           | "vse", [nm; dri; w; h; hr; vr; fc; cn; sz] ->
             let ks = parse_boxes kids in
             let v = { vs_dri = ni dri; vs_width = ni w; vs_height = ni h; vs_hres = ni hr; vs_vres = ni vr; vs_frames = ni fc;
                       vs_cname = bytes_of cn; vs_kids = [] } in
             (vse_enc_w (bytes_of_hex nm) v (ni sz) ks, vse_enc_sw (bytes_of_hex nm) v (ni sz) ks)
           | _ -> failwith ("bad M line " ^ kind)) in
        if enc_string mw = ow && enc_string msw = osw then Printf.printf "OK %s\n" id
        else Printf.printf "MISMATCH %s leaf-encode model_w=%s model_sw=%s\n" id (enc_string mw) (enc_string msw)
      | ["P"; id; hex; o1; o2] ->
        let bs = bytes_of_hex hex in
        let nm = if L.length bs >= 8 then L.filteri (fun i _ -> i >= 4 && i < 8) bs else [] in
        let flds l = S.concat "," (L.map dec_of_n l) in
        let m1 = match progbox_r bs with
          | Ok (v, n) -> Printf.sprintf "ok:%s:S%s:%d" (flds v) (dec_of_n (progbox_size nm v)) (int_of_n n)
          | r -> cls_of r in
        let m2 = match progbox_sr bs with
          | Ok ((v, p), e) -> Printf.sprintf "ok:%s:S%s:%d:%s" (flds v) (dec_of_n (progbox_size nm v)) (int_of_z p) (b01 e)
          | r -> cls_of r in
        if m1 = o1 && m2 = o2 then Printf.printf "OK %s\n" id
        else Printf.printf "MISMATCH %s prog model_r=%s model_sr=%s\n" id m1 m2
      | ["G"; id; hex; o1; o2] ->
        (* sgpd through DecodeBox / DecodeBoxSR vs sgpd_prog (C03SgpdModel); grouping type alst is not modelled: not compared *)
        let bs = bytes_of_hex hex in
        let off = if S.length hex >= 8 && S.sub hex 0 8 = "00000001" then 20 else 12 in
        let gt = if S.length hex >= 2 * (off + 4) then S.sub hex (2 * off) 8 else "" in
        if gt = "616c7374" then Printf.printf "OK %s skip\n" id
        else begin
          let ent e = match e with
            | SgSeig (c, s, ip, iv, kid, civ) ->
              Printf.sprintf "seig.%d.%d.%d.%d.%s.%s" (int_of_n c) (int_of_n s) (int_of_n ip) (int_of_n iv) (hex_of_bytes kid) (hex_of_bytes civ)
            | SgRoll d -> Printf.sprintf "roll.%d" (int_of_z d)
            | SgRap (k, n) -> Printf.sprintf "rap.%d.%d" (int_of_n k) (int_of_n n)
            | SgUnknown d -> Printf.sprintf "unk.%s" (hex_of_bytes d) in
          let flds v =
            Printf.sprintf "%d,%d,%s,%s,%s,[%s],[%s]" (int_of_n v.sg_version) (int_of_n v.sg_flags) (hex_of_bytes v.sg_gt)
              (dec_of_n v.sg_deflen) (dec_of_n v.sg_defidx) (S.concat "," (L.map dec_of_n v.sg_lens)) (S.concat "," (L.map ent v.sg_entries)) in
          let m1 = match sgpdbox_r bs with
            | Ok (v, n) -> Printf.sprintf "ok:%s:S%s:%d" (flds v) (dec_of_n (sgpd_size v)) (int_of_n n)
            | r -> cls_of r in
          let m2 = match sgpdbox_sr bs with
            | Ok ((v, p), e) -> Printf.sprintf "ok:%s:S%s:%d:%s" (flds v) (dec_of_n (sgpd_size v)) (int_of_z p) (b01 e)
            | r -> cls_of r in
          (* the theorem C03_sgpd_pair_agree evaluated on this input: whenever the reader-path model accepts, the SR model returns the same value *)
          let hyp = match sgpdbox_r bs, sgpdbox_sr bs with
            | Ok (v, _), Ok ((v', _), e) -> if v = v' && not e then "thm=1" else "thm=BROKEN"
            | Ok _, _ -> "thm=BROKEN"
            | _ -> "thm=0" in
          if m1 = o1 && m2 = o2 && hyp <> "thm=BROKEN" then Printf.printf "OK %s %s\n" id hyp
          else Printf.printf "MISMATCH %s sgpd model_r=%s model_sr=%s %s\n" id m1 m2 hyp
        end
      | ["L"; id; hex; o1; o2] ->
        let bs = bytes_of_hex hex in
        (* the byte-level loops deliver the box sequence; the one assembly rule that can reject a sequence of these leaves
           (two non-empty mdat boxes in a progressive file) is not part of this model: such a rejection is not compared *)
        let one r o = match r with
          | Ok ts -> let m = "ok:" ^ top_obs ts in if m = o || (o = "err" && n_mdat ts >= 2) then None else Some m
          | r -> let m = cls_of r in if m = o then None else Some m in
        (match one (fst (file_r top_leaves bs)) o1, one (fst (file_sr top_leaves bs)) o2 with
         | None, None -> Printf.printf "OK %s\n" id
         | a, b -> Printf.printf "MISMATCH %s file-boxes model_r=%s model_sr=%s\n" id
                     (match a with None -> "same" | Some m -> m) (match b with None -> "same" | Some m -> m))
      | ["E"; id; _cfg; _name; st; ow; osw] ->
        let f = parse_file st in
        let mw = enc_string (file_enc_w f) and msw = enc_string (file_enc_sw true f) in
        if mw = ow && msw = osw then Printf.printf "OK %s\n" id
        else Printf.printf "MISMATCH %s file-encode model_w=%s model_sw=%s\n" id
            (if mw = ow then "same" else S.sub mw 0 (min 80 (S.length mw)))
            (if msw = osw then "same" else S.sub msw 0 (min 80 (S.length msw)))
      | _ -> Printf.printf "BADLINE %s\n" (S.sub line 0 (min 100 (S.length line))))
