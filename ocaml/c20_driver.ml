(* Driver for the C20 footprint table: reads the harness's case lines, recomputes with the extracted
   model (a) the aliasing of every op's target object and the set of shared inputs the op may write
   (S lines, compared with what the harness observed on the real objects by pointer range / SHA-256),
   (b) whether the programs of a concurrent round satisfy the guard of C20_api_footprints (R lines).
   Output: "OK <id> ..." or "MISMATCH <id> ...". *)
open Vx
open C20Model

let nat = nat_of_int

let parse_src (s : string) : src =
  let k = int_of_string (S.sub s 1 (S.length s - 1)) in
  if s.[0] = 'i' then SIn (nat k) else SObj (nat k)

let parse_op (s : string) : api =
  match split_on ':' s with
  | ["D"; src; d] -> ADecode (parse_src src, nat (int_of_string d))
  | ["R"; src; d] -> ADecodeSR (parse_src src, nat (int_of_string d))
  | ["I"; o; d] -> AInfo (nat (int_of_string o), nat (int_of_string d))
  | ["E"; o; d] -> AEncode (nat (int_of_string o), nat (int_of_string d))
  | ["W"; o; d] -> AEncodeSW (nat (int_of_string o), nat (int_of_string d))
  | ["G"; o; d] -> ASamples (nat (int_of_string o), nat (int_of_string d))
  | ["K"; o; d] -> ADecryptInit (nat (int_of_string o), nat (int_of_string d))
  | ["P"; o; d] | ["p"; o; d] -> AInitProtect (nat (int_of_string o), nat (int_of_string d))
  | ["Y"; m; k] -> ADecryptWith (nat (int_of_string m), parse_src k)
  | ["F"; m; k] -> AEncryptWith (nat (int_of_string m), nat (int_of_string k))
  | ["C"; o] | ["c"; o] -> AEncrypt (nat (int_of_string o))
  | ["X"; o] -> ADecrypt (nat (int_of_string o))
  | ["B"; o] -> AToByteStream (nat (int_of_string o))
  | ["N"; o] -> AToNaluSample (nat (int_of_string o))
  | ["A"; o] -> ATouch (nat (int_of_string o))
  | ["L"; src; d] -> ADecodeLazy (parse_src src, nat (int_of_string d))
  | ["M"; o; src; d] -> AReadData (nat (int_of_string o), parse_src src, nat (int_of_string d))
  | _ -> failwith ("bad op " ^ s)

let parse_prog (s : string) : api list =
  if s = "-" || s = "" then [] else L.map parse_op (split_on ';' s)

let alias_string (l : loc) : string =
  match l with
  | Input i -> "in" ^ string_of_int (int_of_nat i)
  | Obj (_, _) -> "own"
  | Global _ -> "global"

let subset a b = L.for_all (fun x -> L.mem x b) a

(* round-robin interleaving of the compiled programs *)
let rec round_robin (ps : (Datatypes.nat * op list) list) : (Datatypes.nat * op) list =
  let heads = L.concat (L.map (fun (t, p) -> match p with [] -> [] | o :: _ -> [(t, o)]) ps) in
  match heads with
  | [] -> []
  | _ -> heads @ round_robin (L.map (fun (t, p) -> (t, match p with [] -> [] | _ :: r -> r)) ps)

let () =
  iter_lines (fun line ->
      match split_on '\t' line with
      | "S" :: id :: tid :: prog :: obs :: rest ->
        (* inputs of which a SliceReader decode was measured to keep no byte slice: "own" may be observed where the
           table says "in the input" (the table is a may-alias statement) *)
        let lean = match rest with [l] -> ints_of_csv l | _ -> [] in
        let t = nat (int_of_string tid) in
        let p = parse_prog prog in
        let model = observe t [] p in
        let obs = if obs = "" then [] else split_on ';' obs in
        if L.length obs <> L.length model then Printf.printf "MISMATCH %s length\n" id
        else begin
          let bad = ref [] and eff = ref 0 and over = ref 0 in
          (* hypothesis of C20_api_footprints / C20_api_schedule_independence evaluated on this program, and the number of
             ReadData ops applied to a lazily decoded object that ran ok (instances of C20_lazy_path_private) *)
          let hyp = reader_only p || prog_safe t [] p in
          let lazy_objs = ref [] and lazy_reads = ref 0 in
        (* objects whose byte fields were (partly) replaced by fresh arrays through ATouch, and objects derived from
           them: the table's payload location is a may-alias statement for these, "own" may be observed *)
        let loose = ref [] in
        let progv = Array.of_list p in
        let track i =
          if i < Array.length progv then begin
            let dst d = int_of_nat d in
            let rm d = loose := L.filter (fun x -> x <> d) !loose in
            match progv.(i) with
            | ATouch o -> if not (L.mem (dst o) !loose) then loose := dst o :: !loose
            | ASamples (o, d) | ADecryptInit (o, d) | AInitProtect (o, d) ->
              if L.mem (dst o) !loose then (if not (L.mem (dst d) !loose) then loose := dst d :: !loose) else rm (dst d)
            | AReadData (o, _, d) ->
              if L.mem (dst o) !loose then (if not (L.mem (dst d) !loose) then loose := dst d :: !loose) else rm (dst d)
            | ADecode (_, d) | ADecodeSR (_, d) | AInfo (_, d) | AEncode (_, d) | AEncodeSW (_, d) | ADecodeLazy (_, d) -> rm (dst d)
            | _ -> ()
          end in
          L.iteri (fun i (o, (l, ws)) ->
              match split_on '/' o with
              | [cls; alias; changed] ->
                let ws = L.map int_of_nat ws in
                let ch = ints_of_csv changed in
                track i;
                (* ConvertByteStreamToNaluSample rewrites in place only when every start code has 4 bytes; otherwise it
                   returns a fresh slice (avc/annexb.go): from then on the table's payload location over-approximates *)
                (if i < Array.length progv then
                   match progv.(i) with
                   | AToNaluSample o when cls = "ok" && alias = "own" && not (L.mem (int_of_nat o) !loose) ->
                     loose := int_of_nat o :: !loose
                   | _ -> ());
                (if i < Array.length progv then
                   match progv.(i) with
                   | ADecodeLazy (_, d) ->
                     lazy_objs := L.filter (fun x -> x <> int_of_nat d) !lazy_objs;
                     if cls = "ok" then lazy_objs := int_of_nat d :: !lazy_objs
                   | AReadData (o, _, d) ->
                     if cls = "ok" && L.mem (int_of_nat o) !lazy_objs then begin
                       incr lazy_reads;
                       if alias <> "own" then bad := Printf.sprintf "op%d:ReadData of a lazily decoded mdat observed=%s (C20_lazy_path_private: own)" i alias :: !bad
                     end;
                     lazy_objs := L.filter (fun x -> x <> int_of_nat d) !lazy_objs
                   | a when L.mem (int_of_nat (api_target a)) !lazy_objs
                            && (match a with ADecode _ | ADecodeSR _ | AInfo _ | AEncode _ | AEncodeSW _ | ASamples _
                                             | ADecryptInit _ | AInitProtect _ -> true | _ -> false) ->
                     lazy_objs := L.filter (fun x -> x <> int_of_nat (api_target a)) !lazy_objs
                   | _ -> ());
                if hyp && ch <> [] then
                  bad := Printf.sprintf "op%d:program satisfies the hypothesis of C20_api_footprints but input(s) %s changed" i changed :: !bad;
                let target = if i < Array.length progv then int_of_nat (api_target progv.(i)) else -1 in
                let lean_ok = (alias = "own" && (match l with Input k -> L.mem (int_of_nat k) lean || L.mem target !loose | _ -> false)) in
                if cls = "ok" && lean_ok then incr over;
                if cls = "ok" && alias <> alias_string l && not lean_ok then
                  bad := Printf.sprintf "op%d:alias observed=%s model=%s" i alias (alias_string l) :: !bad;
                if not (subset ch ws) then
                  bad := Printf.sprintf "op%d:input written observed=%s model=%s" i changed (csv_of_ints ws) :: !bad;
                if ch <> [] then incr eff
              | _ -> bad := "bad observation" :: !bad)
            (L.combine obs model);
          match !bad with
          | [] -> Printf.printf "OK %s over=%d hyp=%d lazy=%d eff=%d\n" id !over (if hyp then 1 else 0) !lazy_reads !eff
          | b -> Printf.printf "MISMATCH %s %s\n" id (S.concat " " (L.rev b))
        end
      | ["R"; id; mode; progs] ->
        let ps = L.mapi (fun i s -> (nat (i + 1), parse_prog s)) (split_on '|' progs) in
        let safe = L.map (fun (t, p) -> prog_safe t [] p) ps in
        let all_safe = L.for_all (fun b -> b) safe in
        if mode = "safe" then begin
          let sched = round_robin (L.map (fun (t, p) -> (t, compile t [] p)) ps) in
          let locals = L.for_all (fun (t, o) -> local t o) sched in
          if all_safe && locals && race_freeb sched then Printf.printf "OK %s safe\n" id
          else Printf.printf "MISMATCH %s round generated as independent but the table says safe=%b local=%b race_free=%b\n"
              id all_safe locals (race_freeb sched)
        end else begin
          if all_safe then Printf.printf "MISMATCH %s round generated as in-place-on-shared-input but the table calls every program safe\n" id
          else Printf.printf "OK %s unsafe\n" id
        end
      | _ -> Printf.printf "MISMATCH ? unparsable line\n")
