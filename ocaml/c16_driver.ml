(* Driver for the C16 model: reads the harness's case lines
     W <id> <fn> <inputhex> <arg> <class> <value>
   recomputes class and value with the extracted model, prints "OK <id>" or
   "MISMATCH <id> <fn> model=<class>/<value>". *)
open Vx
open BinNums
open Base
open C16Model

let nalus_string (l : coq_N list list) : string =
  match l with [] -> "[]" | _ -> S.concat "," (L.map hex_of_bytes l)

let types_string (l : coq_N list) : string = csv_of_ints (L.map int_of_n l)

let b_string b = if b then "1" else "0"

(* class, value of a model result; the tick counter is not observable on the Go side *)
let show (f : 'a -> string) (r : ('a * coq_N) res) : string * string =
  match r with
  | Ok (v, _) -> ("ok", f v)
  | Err -> ("err", "")
  | Panic -> ("panic", "")
  | OutOfFuel -> ("hang", "")

let run (fn : string) (bs : coq_N list) (arg : int) : string * string =
  match fn with
  | "avc.GetNalusFromSample" -> show nalus_string (avc_get_nalus_from_sample bs)
  | "avc.FindNaluTypes" -> show types_string (avc_find_nalu_types bs)
  | "avc.FindNaluTypesUpToFirstVideoNALU" -> show types_string (avc_find_nalu_types_upto bs)
  | "avc.ContainsNaluType" -> show b_string (avc_contains_nalu_type bs (n_of_int arg))
  | "avc.IsIDRSample" -> show b_string (avc_is_idr_sample bs)
  | "avc.HasParameterSets" -> show b_string (avc_has_parameter_sets bs)
  | "avc.GetParameterSets" ->
    show (fun (s, p) -> nalus_string s ^ ";" ^ nalus_string p) (avc_get_parameter_sets bs)
  | "avc.ConvertSampleToByteStream" -> show hex_of_bytes (convert_sample_to_byte_stream bs)
  | "hevc.FindNaluTypes" -> show types_string (hevc_find_nalu_types bs)
  | "hevc.FindNaluTypesUpToFirstVideoNalu" -> show types_string (hevc_find_nalu_types_upto bs)
  | "hevc.ContainsNaluType" -> show b_string (hevc_contains_nalu_type bs (n_of_int arg))
  | "hevc.IsRAPSample" -> show b_string (hevc_is_rap_sample bs)
  | "hevc.IsIDRSample" -> show b_string (hevc_is_idr_sample bs)
  | "hevc.HasParameterSets" -> show b_string (hevc_has_parameter_sets bs)
  | "hevc.GetParameterSets" ->
    show (fun ((v, s), p) -> nalus_string v ^ ";" ^ nalus_string s ^ ";" ^ nalus_string p)
      (hevc_get_parameter_sets bs)
  | "sei.DecodePicTimingHevcSEI" ->
    let bit k = (arg lsr k) land 1 = 1 in
    let fld k = n_of_int ((arg lsr k) land 31) in
    let p = { hp_ffi = bit 0; hp_cpb = bit 1; hp_subpic = bit 2; hp_subpic_in_pt = bit 3;
              hp_la = fld 4; hp_lb = fld 9; hp_lc = fld 14; hp_ld = fld 19 } in
    (match decode_pic_timing_hevc p bs with
     | Ok ((((fields, nal), inc), e), _) ->
       if e then ("err", "")
       else ("ok", S.concat ";" [S.concat "," (L.map hex_of_n fields); S.concat "," (L.map hex_of_n nal);
                                 S.concat "," (L.map hex_of_n inc)])
     | Err -> ("err", "")
     | Panic -> ("panic", "")
     | OutOfFuel -> ("hang", ""))
  | _ -> ("unknown-function", "")

let () =
  iter_lines (fun line ->
      match split_on '\t' line with
      | ["W"; id; fn; inhex; arg; cls; value] ->
        let (mc, mv) = run fn (bytes_of_hex inhex) (int_of_string arg) in
        if mc = cls && (cls <> "ok" || mv = value) then Printf.printf "OK %s\n" id
        else Printf.printf "MISMATCH %s %s model=%s/%s\n" id fn mc mv
      | _ -> Printf.printf "BADLINE %s\n" line)
