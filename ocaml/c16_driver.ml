(* Driver for the C16 model: reads the harness's case lines
     W <id> <fn> <inputhex> <arg> <class> <value>
   recomputes class and value with the extracted model, prints "OK <id>" or
   "MISMATCH <id> <fn> model=<class>/<value>". *)
open Vx
open BinNums
open Base
open C16Model
open C15Model
open C16ParseModel

let nalus_string (l : coq_N list list) : string =
  match l with [] -> "[]" | _ -> S.concat "," (L.map hex_of_bytes l)

let types_string (l : coq_N list) : string = csv_of_ints (L.map int_of_n l)

let b_string b = if b then "1" else "0"

(* class, value of a model result; the tick counter is not observable on the Go side *)
let show (f : 'a -> string) (r : ('a * coq_N) res) : string * string =
  match r with
  | Ok (v, _) -> ("ok", f v)
  | Err -> ("err", "")
  | Panic -> ("panic", "")
  | OutOfFuel -> ("hang", "")

(* ---- stage 2: the AVC parameter-set / slice-header parsers (C16ParseModel over C15Model).
   The reference parameter sets arrive in CTX lines and are parsed by the model itself. *)
let ctx_sps : sps list ref = ref []
let ctx_pps : pps list ref = ref []

(* per reference HEVC SPS: the HEVCPicTimingParams hevc.ParseSEINalu derives from it (None: no VUI) *)
let ctx_hevcpt : C16Model.hpt_params option list ref = ref []

let hevcpt_of (s : string) : C16Model.hpt_params option =
  if s = "-" then None
  else match L.map int_of_string (split_on ':' s) with
    | [fl; la; lb; lc; ld] ->
      let bit k = (fl lsr k) land 1 = 1 in
      Some { hp_ffi = bit 0; hp_cpb = bit 1; hp_subpic = bit 2; hp_subpic_in_pt = bit 3;
             hp_la = n_of_int la; hp_lb = n_of_int lb; hp_lc = n_of_int lc; hp_ld = n_of_int ld }
    | _ -> failwith "bad hevcpt"

let nth_opt (l : 'a list) (i : int) : 'a option =
  if i < 0 || i >= L.length l then None else Some (L.nth l i)

let sei_result (r : (coq_N * bool) res) : string * string =
  match r with
  | Ok (n, false) -> ("ok", string_of_int (int_of_n n))
  | Ok (_, true) -> ("err", "")
  | Err -> ("err", "")
  | Panic -> ("panic", "")
  | OutOfFuel -> ("hang", "")

(* the HEVC reference parameter sets (parsed by the model from the CTX lines) *)
let ctx_hsps : C15HevcModel.hsps list ref = ref []
let ctx_hpps : C15HevcModel.hpps list ref = ref []

let set_ctx (kind : string) (hexes : string) : unit =
  let units () = L.map bytes_of_hex (split_on ',' hexes) in
  match kind with
  | "avcsps" ->
    ctx_sps := L.concat (L.map (fun u -> match c16_parse_sps true u with Ok s -> [s] | _ -> []) (units ()))
  | "avcpps" ->
    ctx_pps := L.concat (L.map (fun u -> match c16_parse_pps (chroma_lookup !ctx_sps) u with Ok p -> [p] | _ -> []) (units ()))
  | "hevcpt" -> ctx_hevcpt := L.map hevcpt_of (split_on ',' hexes)
  | "hevcsps" -> ctx_hsps := C16HevcPipeModel.parse_hsps_list (units ())
  | "hevcpps" ->
    (match C16HevcPipeModel.parse_hpps_list !ctx_hsps (units ()) with
     | Some l -> ctx_hpps := l
     | None -> failwith "a reference HEVC PPS is outside the model")
  | _ -> ()

let hexs (l : coq_N list) : string = S.concat "," (L.map hex_of_n l)
let len_n (l : 'a list) : coq_N = n_of_int (L.length l)

let show1 (f : 'a -> string) (r : 'a res) : string * string =
  match r with
  | Ok v -> ("ok", f v)
  | Err -> ("err", "")
  | Panic -> ("panic", "")
  | OutOfFuel -> ("hang", "")

let sps_string (s : sps) : string =
  hexs [s.sps_id; s.sps_width; s.sps_height; s.sps_nr_bytes_read; len_n s.sps_ref_frames_in_poc_cycle;
        len_n s.sps_seq_scaling_lists]
let pps_string (p : pps) : string =
  hexs [p.pps_id; p.pps_sps_id; p.pps_num_slice_groups_minus1; len_n p.pps_slice_group_id;
        len_n p.pps_run_length_minus1; p.pps_num_ref_idx_l0_default_active_minus1; len_n p.pps_pic_scaling_lists]
let slice_string (h : slice_hdr) : string =
  hexs [h.sh_slice_type; h.sh_frame_num; h.sh_size;
        h.sh_num_ref_idx_l0_active_minus1; h.sh_num_ref_idx_l1_active_minus1; h.sh_pic_param_id]

(* in = len1 a[len1] len2 b[len2] rest, lengths clipped to what is there (harness split3) *)
let split3 (bs : coq_N list) : coq_N list * coq_N list * coq_N list =
  let cut x = match x with
    | [] -> ([], [])
    | n :: t ->
      let n = int_of_n n in
      let rec take k l acc = if k = 0 then (L.rev acc, l) else
          match l with [] -> (L.rev acc, []) | y :: r -> take (k - 1) r (y :: acc) in
      take n t [] in
  let (a, r1) = cut bs in
  let (b, r2) = cut r1 in
  (a, b, r2)

let hpps_string (p : C15HevcModel.hpps) : string =
  hexs [p.pp_id; p.pp_sps_id; p.pp_l0; p.pp_num_extra_bits; n_of_int (if p.pp_weighted_pred then 1 else 0)]
let hslice_string (h : C15HevcModel.hslice) : string =
  hexs [h.s_type; h.s_pps_id; h.s_l0; h.s_address; h.s_num_entry; h.s_size]

let rec take_n k l acc = if k = 0 then (L.rev acc, l) else
    match l with [] -> (L.rev acc, []) | y :: r -> take_n (k - 1) r (y :: acc)
(* harness cut1 / cut2: a 1-byte resp. 2-byte big-endian length prefix, clipped to what is there *)
let cut1 (bs : coq_N list) = match bs with [] -> ([], []) | n :: t -> take_n (int_of_n n) t []
let cut2 (bs : coq_N list) = match bs with
  | hi :: lo :: t -> take_n (int_of_n hi * 256 + int_of_n lo) t []
  | _ -> ([], [])

(* ---- configuration records (C16ConfRecModel.v): class and the whole decoded value *)
let cr_nalus (l : BinNums.coq_N list list) : string =
  match l with [] -> "[]" | _ -> S.concat "," (L.map hex_of_bytes l)

let cr_hexs (l : BinNums.coq_N list) : string = S.concat "," (L.map hex_of_n l)

let cr_bool (b : bool) : BinNums.coq_N = n_of_int (if b then 1 else 0)

let cr_class (f : 'a -> string) (r : 'a Base.res) : string * string =
  match r with
  | Base.Ok v -> ("ok", f v)
  | Base.Err -> ("err", "")
  | Base.Panic -> ("panic", "")
  | Base.OutOfFuel -> ("hang", "")

let run_confrec (fn : string) (bs : BinNums.coq_N list) : (string * string) option =
  let open C16ConfRecModel in
  match fn with
  | "avc.DecodeAVCDecConfRec#v" ->
    Some (cr_class (fun (r, _) ->
        S.concat ";" [cr_hexs [r.ar_profile; r.ar_compat; r.ar_level]; cr_nalus r.ar_sps; cr_nalus r.ar_pps;
                      cr_hexs [r.ar_chroma; r.ar_bdl; r.ar_bdc; r.ar_num_sps_ext; cr_bool r.ar_no_trailing]])
        (avc_decode_dec_conf_rec bs))
  | "hevc.DecodeHEVCDecConfRec#v" ->
    Some (cr_class (fun (r, _) ->
        S.concat ";"
          (cr_hexs [r.hr_version; r.hr_profile_space; cr_bool r.hr_tier; r.hr_profile_idc; r.hr_compat_flags;
                    r.hr_constraint_flags; r.hr_level_idc; r.hr_min_spatial_seg; r.hr_parallelism; r.hr_chroma;
                    r.hr_bdl; r.hr_bdc; r.hr_avg_frame_rate; r.hr_const_frame_rate; r.hr_num_temporal_layers;
                    r.hr_temporal_id_nested; r.hr_length_size_minus_one]
           :: L.map (fun (ct, nalus) ->
               cr_hexs [hevc_arr_complete ct; hevc_arr_type ct] ^ "," ^ cr_nalus nalus) r.hr_arrays))
        (hevc_decode_dec_conf_rec bs))
  | "av1.DecodeAV1CodecConfRec#v" ->
    Some (cr_class (fun r ->
        cr_hexs [r.av_version; r.av_seq_profile; r.av_seq_level_idx0; r.av_seq_tier0; r.av_high_bitdepth;
                 r.av_twelve_bit; r.av_monochrome; r.av_subsampling_x; r.av_subsampling_y; r.av_sample_position;
                 r.av_ipd_present; r.av_ipd_minus_one] ^ ";" ^ hex_of_bytes r.av_config_obus)
        (av1_decode_codec_conf_rec bs))
  | "av1.DecodeEncode#v" ->
    (* decode, then Size and Encode of the decoded record: size;bytes *)
    (match av1_decode_codec_conf_rec bs with
     | Base.Ok r ->
       Some (cr_class (fun out -> hex_of_n (C16Av1EncModel.av1_size r) ^ ";" ^ hex_of_bytes out) (C16Av1EncModel.av1_encode r))
     | Base.Err -> Some ("err", "")
     | Base.Panic -> Some ("panic", "")
     | Base.OutOfFuel -> Some ("hang", ""))
  | "av1.EncodeRec#v" ->
    (* Encode of an ARBITRARY record value: the first 12 bytes are the fields, the rest the OBUs *)
    (match bs with
     | f0 :: f1 :: f2 :: f3 :: f4 :: f5 :: f6 :: f7 :: f8 :: f9 :: f10 :: f11 :: obus ->
       let r = { av_version = f0; av_seq_profile = f1; av_seq_level_idx0 = f2; av_seq_tier0 = f3; av_high_bitdepth = f4;
                 av_twelve_bit = f5; av_monochrome = f6; av_subsampling_x = f7; av_subsampling_y = f8;
                 av_sample_position = f9; av_ipd_present = f10; av_ipd_minus_one = f11; av_config_obus = obus } in
       Some (cr_class (fun out -> hex_of_n (C16Av1EncModel.av1_size r) ^ ";" ^ hex_of_bytes out) (C16Av1EncModel.av1_encode r))
     | _ -> Some ("err", ""))
  | _ -> None

let payload_value (k : int) (size : coq_N) (total : coq_N list) (r : (coq_N list * bool) res) : string * string =
  match r with
  | Ok (pl, _) ->
    if pl = total then ("ok", Printf.sprintf "%x;%s;%s" k (hex_of_bytes pl) (hex_of_n size))
    else ("ok", "partial-and-total-models-differ:" ^ hex_of_bytes pl ^ "/" ^ hex_of_bytes total)
  | Err -> ("err", "")
  | Panic -> ("panic", "")
  | OutOfFuel -> ("hang", "")

let tc_payload_value (cs : C17TypedModel.clock list) : string * string =
  payload_value (L.length cs) (C17TypedModel.tc_size cs) (C17TypedModel.tc_payload cs) (C16SeiFswModel.tc_payload_p cs)

let pt_payload_value (m : C17TypedModel.pic_timing) : string * string =
  payload_value (L.length m.C17TypedModel.p_clocks) (C17TypedModel.pt_size m) (C17TypedModel.pt_payload m)
    (C16SeiFswModel.pt_payload_p m)

let run (fn : string) (bs : coq_N list) (arg : int) : string * string =
  match fn with
  | "avc.ParseSPSNALUnit" -> show1 sps_string (c16_parse_sps (arg land 1 = 1) bs)
  | "avc.ParsePPSNALUnit" -> show1 pps_string (c16_parse_pps (chroma_lookup !ctx_sps) bs)
  | "avc.ParseSliceHeader" -> show1 slice_string (c16_parse_slice (sps_lookup !ctx_sps) (pps_lookup !ctx_pps) bs)
  (* ---- stage 3: SEI / AAC / Annex B (wrappers of C16AuxModel, models of C17 / C18 / C14) *)
  | "sei.ParseCEA608" ->
    show1 (fun ((f1, f2), _) -> hex_of_bytes f1 ^ ";" ^ hex_of_bytes f2) (C16AuxModel.parse_cea608_p bs)
  (* value "1": String() of the decoded message stays within the bound of the render-cost theorems; the model side
     evaluates the partial operations String() performs (C16SeiStrModel.pass_string_cost) *)
  | "sei.DecodeUserDataRegisteredSEI" ->
    (match C16AuxModel.decode_registered_p bs with
     | Ok (m, _) -> show1 (fun _ -> "1") (C16SeiStrModel.pass_string_cost m)
     | r -> show1 (fun _ -> "") r)
  | "sei.ExtractCEA608sei" ->
    (match C16AuxModel.extract_cea608_p bs with
     | Ok (m, _) -> show1 (fun _ -> "1") (C16SeiStrModel.pass_string_cost m)
     | r -> show1 (fun _ -> "") r)
  | "sei.DecodeUserDataUnregisteredSEI" ->
    (match C16AuxModel.decode_unregistered_p bs with
     | Ok m -> show1 (fun _ -> "1") (C16SeiStrModel.pass_string_cost m)
     | r -> show1 (fun _ -> "") r)
  (* decode, then Payload() through the partial slice operations of C16SeiStrModel, and Size() *)
  | "sei.DecodeMasteringDisplayColourVolumeSEI" ->
    (match C16AuxModel.mdcv_decode_p bs with
     | Ok m -> show1 (fun pl -> hex_of_bytes pl ^ ";24") (C16SeiStrModel.mdcv_payload_p m)
     | r -> show1 (fun _ -> "") r)
  | "sei.DecodeContentLightLevelInformationSEI" ->
    (match C16AuxModel.cll_decode_p bs with
     | Ok m -> show1 (fun pl -> hex_of_bytes pl ^ ";4") (C16SeiStrModel.cll_payload_p m)
     | r -> show1 (fun _ -> "") r)
  (* decode / build a message value, then Payload() through the partial bits.FixedSliceWriter of C16SeiFswModel and
     Size(): clocks;bytes;size.  The total C17 model of the same Payload (fsw_bytes) must give the same bytes. *)
  | "sei.TimeCodeDecodePayload#v" ->
    (match C17TypedModel.tc_decode bs with
     | Ok cs -> tc_payload_value cs
     | r -> show1 (fun _ -> "") r)
  | "sei.PicTimingAvcDecodePayload#v" ->
    let fld k = n_of_int ((arg lsr k) land 31) in
    let ext = if arg land 1 = 1
      then Some { C17TypedModel.h_cpb_delay = N0; h_dpb_delay = N0; h_init_len1 = N0; h_cpb_len1 = fld 1; h_dpb_len1 = fld 6 }
      else None in
    (match C17TypedModel.pt_decode ext (fld 11) bs with
     | Ok m -> pt_payload_value m
     | r -> show1 (fun _ -> "") r)
  | "sei.TimeCodeSEI.Payload#v" -> tc_payload_value (C16SeiFswModel.tc_value_of_bytes bs)
  | "sei.PicTimingAvcSEI.Payload#v" ->
    (match C16SeiFswModel.pt_value_of_bytes bs with
     | Some m -> pt_payload_value m
     | None -> ("err", ""))
  | "sei.DecodeTimeCodeSEI" -> show1 (fun cs -> string_of_int (L.length cs)) (C17TypedModel.tc_decode bs)
  | "sei.DecodePicTimingAvcSEIHRD" ->
    let fld k = n_of_int ((arg lsr k) land 31) in
    let ext = if arg land 1 = 1
      then Some { C17TypedModel.h_cpb_delay = N0; h_dpb_delay = N0; h_init_len1 = N0; h_cpb_len1 = fld 1; h_dpb_len1 = fld 6 }
      else None in
    show1 (fun m -> string_of_int (L.length m.C17TypedModel.p_clocks)) (C17TypedModel.pt_decode ext (fld 11) bs)
  | "sei.ExtractSEIData" ->
    (match fst (C16AuxModel.extract_sei_data_go bs) with
     | C17Spec.XOk l -> ("ok", S.concat "," (L.map (fun (ty, pl) -> hex_of_n ty ^ ":" ^ string_of_int (L.length pl)) l))
     | C17Spec.XMissing _ -> ("err", "")
     | C17Spec.XErr -> ("err", "")
     | C17Spec.XFuel -> ("hang", ""))
  | "aac.DecodeADTSHeader" ->
    let ((r, _), _) = C16AuxModel.decode_adts_t bs in
    show1 (fun (h, off) -> S.concat "," [hex_of_z off; hex_of_n h.C18Model.h_hlen; hex_of_n h.C18Model.h_plen; hex_of_n h.C18Model.h_sfi]) r
  | "aac.DecodeAudioSpecificConfig" ->
    show1 (fun a -> S.concat "," [hex_of_n a.C18Model.a_ot; hex_of_n a.C18Model.a_chan; hex_of_z a.C18Model.a_freq]) (C18Model.decode_asc bs)
  | "avc.ExtractNalusFromByteStream" -> show1 nalus_string (C14Model.extract_nalus_from_byte_stream bs)
  | "avc.ConvertByteStreamToNaluSample" -> show1 hex_of_bytes (C14Model.to_nalu_sample bs)
  | "avc.GetFirstAVCVideoNALUFromByteStream" -> show1 hex_of_bytes (C14Model.avc_get_first_video_nalu bs)
  | "avc.ExtractNalusOfTypeFromByteStream" ->
    show1 nalus_string (C14Model.avc_extract_nalus_of_type (n_of_int (arg lsr 1)) (arg land 1 = 1) bs)
  | "hevc.ExtractNalusOfTypeFromByteStream" ->
    show1 nalus_string (C14Model.hevc_extract_nalus_of_type (n_of_int (arg lsr 1)) (arg land 1 = 1) bs)
  | "avc.GetParameterSetsFromByteStream" ->
    show1 (fun ((_, s), p) -> nalus_string s ^ ";" ^ nalus_string p) (C14Model.avc_get_parameter_sets_from_byte_stream bs)
  | "hevc.GetParameterSetsFromByteStream" ->
    show1 (fun ((v, s), p) -> nalus_string v ^ ";" ^ nalus_string s ^ ";" ^ nalus_string p)
      (C14Model.hevc_get_parameter_sets_from_byte_stream bs)
  | "avc.ParseSEINalu" ->
    sei_result (C16SeiNaluModel.avc_parse_sei_nalu (C16SeiNaluModel.avc_pt_of_sps (nth_opt !ctx_sps (arg - 1))) bs)
  | "hevc.ParseSEINalu" ->
    let ctx = match nth_opt !ctx_hevcpt (arg - 1) with Some c -> c | None -> None in
    sei_result (C16SeiNaluModel.hevc_parse_sei_nalu ctx bs)
  | "avc.ParseSPSAndSEI" ->
    (* in = len1 SPS[len1] SEI-NALU: the SEI is decoded with what the hostile SPS says (harness cut1) *)
    let (a, rest) = (match bs with
        | [] -> ([], [])
        | n :: t ->
          let n = int_of_n n in
          let rec take k l acc = if k = 0 then (L.rev acc, l) else
              match l with [] -> (L.rev acc, []) | y :: r -> take (k - 1) r (y :: acc) in
          take n t []) in
    let sps = (match c16_parse_sps true a with Ok s -> Some s | _ -> None) in
    sei_result (C16SeiNaluModel.avc_parse_sei_nalu (C16SeiNaluModel.avc_pt_of_sps sps) rest)
  | "avc.DecConfRecAndSlice" ->
    (* in = len (2 bytes, big endian) record, slice (harness cut2): record -> SPS/PPS maps -> slice header *)
    (match bs with
     | hi :: lo :: t ->
       let n = int_of_n hi * 256 + int_of_n lo in
       let rec take k l acc = if k = 0 then (L.rev acc, l) else
           match l with [] -> (L.rev acc, []) | y :: r -> take (k - 1) r (y :: acc) in
       let (recb, rest) = take n t [] in
       (match C16ConfRecModel.avc_decode_dec_conf_rec recb with
        | Ok (r, _) ->
          let spss = L.concat (L.map (fun u -> match c16_parse_sps true u with Ok s -> [s] | _ -> []) r.C16ConfRecModel.ar_sps) in
          let ppss = L.fold_left (fun acc u ->
              match c16_parse_pps (chroma_lookup spss) u with Ok p -> acc @ [p] | _ -> acc) [] r.C16ConfRecModel.ar_pps in
          show1 slice_string (c16_parse_slice (sps_lookup spss) (pps_lookup ppss) rest)
        | Err -> ("err", "")
        | Panic -> ("panic", "")
        | OutOfFuel -> ("hang", ""))
     | _ ->
       (* fewer than 2 bytes: cut2 gives (nil, nil) *)
       (match C16ConfRecModel.avc_decode_dec_conf_rec [] with
        | Ok (r, _) -> show1 slice_string (c16_parse_slice (sps_lookup []) (pps_lookup []) [])
        | Err -> ("err", "") | Panic -> ("panic", "") | OutOfFuel -> ("hang", "")))
  (* ---- HEVC parsers (C16HevcParseModel over C15HevcModel; every PPS is inside the model: the multilayer / 3D
     extension bodies are C16's own skeletons).  OutOfFuel anywhere = "hang" = a mismatch *)
  | "hevc.ParseSPSNALUnit" ->
    show1 (fun (s : C15HevcModel.hsps) ->
        hexs [s.h_sps_id; s.h_width; s.h_height; s.h_chroma; s.h_num_st_rps; s.h_num_lt])
      (C16HevcParseModel.c16_hparse_sps bs)
  | "hevc.ParsePPSNALUnit" ->
    show1 hpps_string (C16HevcParseModel.c16_hparse_pps (C16HevcParseModel.hsps_has !ctx_hsps) bs)
  | "hevc.ParseSliceHeader#m" ->
    show1 hslice_string (C16HevcParseModel.c16_hparse_slice (C16HevcParseModel.hsps_lookup !ctx_hsps)
                           (C16HevcParseModel.hpps_lookup !ctx_hpps) bs)
  | "hevc.ParsePSAndSlice#m" ->
    let (a, b, rest) = split3 bs in
    show1 hslice_string (C16HevcParseModel.hevc_ps_and_slice !ctx_hsps !ctx_hpps a b rest)
  | "hevc.ParseSPSAndSEI" ->
    let (a, rest) = cut1 bs in
    sei_result (C16HevcPipeModel.hevc_sps_and_sei a rest)
  | "hevc.DecConfRecAndSlice" ->
    let (recb, rest) = cut2 bs in
    show1 hslice_string (C16HevcPipeModel.hevc_confrec_and_slice recb rest)
  | "avc.GetSliceTypeFromNALU" -> show1 hex_of_n (get_slice_type bs)
  | "avc.ParsePSAndSlice" ->
    let (a, b, rest) = split3 bs in
    let spss = !ctx_sps @ (match c16_parse_sps true a with Ok s -> [s] | _ -> []) in
    let ppss = !ctx_pps @ (match c16_parse_pps (chroma_lookup spss) b with Ok p -> [p] | _ -> []) in
    show1 slice_string (c16_parse_slice (sps_lookup spss) (pps_lookup ppss) rest)
  | "avc.GetNalusFromSample" -> show nalus_string (avc_get_nalus_from_sample bs)
  | "avc.FindNaluTypes" -> show types_string (avc_find_nalu_types bs)
  | "avc.FindNaluTypesUpToFirstVideoNALU" -> show types_string (avc_find_nalu_types_upto bs)
  | "avc.ContainsNaluType" -> show b_string (avc_contains_nalu_type bs (n_of_int arg))
  | "avc.IsIDRSample" -> show b_string (avc_is_idr_sample bs)
  | "avc.HasParameterSets" -> show b_string (avc_has_parameter_sets bs)
  | "avc.GetParameterSets" ->
    show (fun (s, p) -> nalus_string s ^ ";" ^ nalus_string p) (avc_get_parameter_sets bs)
  | "avc.ConvertSampleToByteStream" -> show hex_of_bytes (convert_sample_to_byte_stream bs)
  | "hevc.FindNaluTypes" -> show types_string (hevc_find_nalu_types bs)
  | "hevc.FindNaluTypesUpToFirstVideoNalu" -> show types_string (hevc_find_nalu_types_upto bs)
  | "hevc.ContainsNaluType" -> show b_string (hevc_contains_nalu_type bs (n_of_int arg))
  | "hevc.IsRAPSample" -> show b_string (hevc_is_rap_sample bs)
  | "hevc.IsIDRSample" -> show b_string (hevc_is_idr_sample bs)
  | "hevc.HasParameterSets" -> show b_string (hevc_has_parameter_sets bs)
  | "hevc.GetParameterSets" ->
    show (fun ((v, s), p) -> nalus_string v ^ ";" ^ nalus_string s ^ ";" ^ nalus_string p)
      (hevc_get_parameter_sets bs)
  | "sei.DecodePicTimingHevcSEI" ->
    let bit k = (arg lsr k) land 1 = 1 in
    let fld k = n_of_int ((arg lsr k) land 31) in
    let p = { hp_ffi = bit 0; hp_cpb = bit 1; hp_subpic = bit 2; hp_subpic_in_pt = bit 3;
              hp_la = fld 4; hp_lb = fld 9; hp_lc = fld 14; hp_ld = fld 19 } in
    (match decode_pic_timing_hevc p bs with
     | Ok ((((fields, nal), inc), e), _) ->
       if e then ("err", "")
       else ("ok", S.concat ";" [S.concat "," (L.map hex_of_n fields); S.concat "," (L.map hex_of_n nal);
                                 S.concat "," (L.map hex_of_n inc)])
     | Err -> ("err", "")
     | Panic -> ("panic", "")
     | OutOfFuel -> ("hang", ""))
  | _ -> (match run_confrec fn bs with Some cv -> cv | None -> ("unknown-function", ""))

let () =
  iter_lines (fun line ->
      match split_on '\t' line with
      | ["W"; id; fn; inhex; arg; cls; value] ->
        let (mc, mv) = run fn (bytes_of_hex inhex) (int_of_string arg) in
        if mc = cls && (cls <> "ok" || mv = value) then Printf.printf "OK %s\n" id
        else Printf.printf "MISMATCH %s %s model=%s/%s\n" id fn mc mv
      | ["CTX"; kind; hexes] -> set_ctx kind hexes
      | _ -> Printf.printf "BADLINE %s\n" line)
