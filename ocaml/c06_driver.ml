(* Driver for the C06 model: reads the harness's case lines, recomputes the observables with the extracted
   model (block cipher = the Gallina AES-128 of C07Aes.v), prints "OK <id>" / "MISMATCH <id> ...". *)
open Vx
open BinNums
open Base
open C07Model
open C06Model
open C06InitModel
open C06SencModel
open C06TrexModel
open C06TimingModel
open C06SinfModel
open C06MultiModel
open C06FixedModel
open C06TrafTimingModel

let e = C07Aes.aes128_encrypt
let d = C07Aes.aes128_decrypt

let ranges_of_string (s : string) : ssp list =
  if s = "-" || s = "" then []
  else L.map (fun p ->
      match split_on '/' p with
      | [c; q] -> { ss_clear = n_of_int (int_of_string c); ss_prot = n_of_int (int_of_string q) }
      | _ -> failwith ("bad range " ^ p)) (split_on ',' s)

let res_string (f : 'a -> string) (r : 'a res) : string =
  match r with
  | Ok a -> "ok:" ^ f a
  | Err -> "err"
  | Panic -> "panic"
  | OutOfFuel -> "outoffuel"

let hexlist (l : coq_N list list) : string =
  match l with [] -> "-" | _ -> S.concat ";" (L.map hex_of_bytes l)

let list_of (s : string) : string list = if s = "" || s = "none" then [] else split_on ';' s

let scheme_of = function "cenc" -> Cenc | "cbcs" -> Cbcs | _ -> SchemeOther

(* sbgp / sgpd carry their grouping type: sbgp~<8 hex digits> *)
let kind_of s =
  match s with
  | "saiz" -> TSaiz | "saio" -> TSaio | "senc" -> TSenc | "usenc" -> TUuidSenc | "uuid" -> TUuidOther
  | "trun" -> TTrun
  | _ ->
    if S.length s = 13 && S.sub s 0 5 = "sbgp~" then TSbgp (n_of_int (int_of_string ("0x" ^ S.sub s 5 8)))
    else if S.length s = 13 && S.sub s 0 5 = "sgpd~" then TSgpd (n_of_int (int_of_string ("0x" ^ S.sub s 5 8)))
    else TOther

let kind_name = function
  | TSaiz -> "saiz" | TSaio -> "saio" | TSenc -> "senc" | TUuidSenc -> "usenc" | TUuidOther -> "uuid"
  | TTrun -> "trun" | TOther -> "other"
  | TSbgp g -> Printf.sprintf "sbgp~%08x" (int_of_n g) | TSgpd g -> Printf.sprintf "sgpd~%08x" (int_of_n g)

(* box lists: kind:size:id,kind:size:id *)
let tboxes_of (s : string) : tbox list =
  if s = "-" || s = "" then []
  else L.map (fun x -> match split_on ':' x with
      | [k; z; i] -> { tk = kind_of k; tsize = n_of_int (int_of_string z); tid = n_of_int (int_of_string i) }
      | _ -> failwith ("bad tbox " ^ x)) (split_on ',' s)

let string_of_tboxes (l : tbox list) : string =
  match l with [] -> "-" | _ ->
    S.concat "," (L.map (fun b -> Printf.sprintf "%s:%d:%d" (kind_name b.tk) (int_of_n b.tsize) (int_of_n b.tid)) l)

(* moof children: T[<tboxes>] | P:size:id | O:size:id, separated by '+' *)
let mchildren_of (s : string) : mchild list =
  if s = "-" || s = "" then []
  else L.map (fun x ->
      if S.length x >= 2 && x.[0] = 'T' then MTraf (tboxes_of (S.sub x 2 (S.length x - 3)))
      else match split_on ':' x with
        | ["P"; z; i] -> MPssh (n_of_int (int_of_string z), n_of_int (int_of_string i))
        | ["O"; z; i] -> MOther (n_of_int (int_of_string z), n_of_int (int_of_string i))
        | _ -> failwith ("bad mchild " ^ x)) (split_on '+' s)

let string_of_mchildren (l : mchild list) : string =
  match l with [] -> "-" | _ ->
    S.concat "+" (L.map (function
        | MTraf ch -> "T[" ^ string_of_tboxes ch ^ "]"
        | MPssh (z, i) -> Printf.sprintf "P:%d:%d" (int_of_n z) (int_of_n i)
        | MOther (z, i) -> Printf.sprintf "O:%d:%d" (int_of_n z) (int_of_n i)) l)


(* ---- init segment cases ---- *)
let cc (s : string) : coq_N =
  if S.length s <> 4 then n_of_int 0
  else n_of_int (((Char.code s.[0] * 256 + Char.code s.[1]) * 256 + Char.code s.[2]) * 256 + Char.code s.[3])

let cc_string (n : coq_N) : string =
  let v = int_of_n n in
  S.init 4 (fun i -> Char.chr ((v lsr (8 * (3 - i))) land 255))

let tenc_string (t : tenc_t) : string =
  Printf.sprintf "%d/%d/%d/%d/%d/%s" (int_of_n t.t_version) (int_of_n t.t_cb) (int_of_n t.t_sb)
    (int_of_n t.t_isprot) (int_of_n t.t_ivsize) (hex_of_bytes t.t_constiv)

let tenc_of_string (s : string) : tenc_t =
  match split_on '/' s with
  | [v; cb; sb; ip; ivs; civ] ->
    { t_version = n_of_int (int_of_string v); t_cb = n_of_int (int_of_string cb); t_sb = n_of_int (int_of_string sb);
      t_isprot = n_of_int (int_of_string ip); t_ivsize = n_of_int (int_of_string ivs); t_kid = n_of_int 1;
      t_constiv = bytes_of_hex civ }
  | _ -> failwith "bad tenc"

(* sample entry children: o<id> | s:<frma>:<schm|->:<tenc|-> separated by ',' *)
let sechild_of (x : string) : sechild =
  if x.[0] = 'o' then SEOther (n_of_int (int_of_string (S.sub x 1 (S.length x - 1))))
  else match split_on ':' x with
    | ["s"; f; sc; t] ->
      SESinf { si_frma = cc f; si_schm = (if sc = "-" then None else Some (cc sc));
               si_tenc = (if t = "-" then None else Some (tenc_of_string t)) }
    | _ -> failwith ("bad sechild " ^ x)

let sechild_string (c : sechild) : string =
  match c with
  | SEOther i -> "o" ^ string_of_int (int_of_n i)
  | SESinf s -> Printf.sprintf "s:%s:%s:%s" (cc_string s.si_frma)
                  (match s.si_schm with None -> "-" | Some x -> cc_string x)
                  (match s.si_tenc with None -> "-" | Some t -> tenc_string t)

let csv f l = match l with [] -> "-" | _ -> S.concat "," (L.map f l)
let uncsv f s = if s = "-" || s = "" then [] else L.map f (split_on ',' s)

let sentry_string (e : sentry) : string =
  (match e.se_kind with SVisual -> "v" | SAudio -> "a" | SOtherKind -> "o") ^ "/" ^ cc_string e.se_type ^ "/" ^
  csv sechild_string e.se_children

let mvchild_string (c : mvchild) : string =
  match c with
  | MVTrak es -> "T[" ^ (match es with [] -> "" | _ -> S.concat ";" (L.map sentry_string es)) ^ "]"
  | MVPssh i -> "p" ^ string_of_int (int_of_n i)
  | MVOther i -> "o" ^ string_of_int (int_of_n i)

let moov_string m = match m with [] -> "-" | _ -> S.concat "+" (L.map mvchild_string m)

let info_string (ti : track_info) : string =
  match ti with
  | None -> "clear"
  | Some (sc, t) -> cc_string sc ^ "=" ^ (match t with None -> "-" | Some t -> tenc_string t)

(* ---- senc / saiz / saio byte-level cases ---- *)
let ranges_string (l : ssp list) : string =
  match l with [] -> "-" | _ ->
    S.concat "," (L.map (fun p -> Printf.sprintf "%d/%d" (int_of_n p.ss_clear) (int_of_n p.ss_prot)) l)

let senc_state (s : senc) : string =
  Printf.sprintf "%d/%d/%d/%s/%s" (int_of_n s.sn_ivsize) (if s.sn_subs then 1 else 0) (int_of_n s.sn_count)
    (match s.sn_ivs with [] -> "none" | l -> S.concat ";" (L.map hex_of_bytes l))
    (match s.sn_ss with [] -> "none" | l -> S.concat ";" (L.map ranges_string l))

let res_name = function Ok _ -> "ok" | Err -> "err" | Panic -> "panic" | OutOfFuel -> "outoffuel"

(* parse what moov_string prints: T[entry;entry]+o3+p4, entry = kind/type/children *)
let sentry_of (x : string) : sentry =
  let i = S.index x '/' in
  let kind = S.sub x 0 i in
  let rest = S.sub x (i + 1) (S.length x - i - 1) in
  let j = S.index rest '/' in
  let ty = S.sub rest 0 j in
  let ch = S.sub rest (j + 1) (S.length rest - j - 1) in
  { se_kind = (match kind with "v" -> SVisual | "a" -> SAudio | _ -> SOtherKind); se_type = cc ty;
    se_children = uncsv sechild_of ch }

let moov_of (s : string) : mvchild list =
  if s = "-" || s = "" then []
  else L.map (fun x ->
      if S.length x >= 3 && x.[0] = 'T' && x.[1] = '[' then
        let inner = S.sub x 2 (S.length x - 3) in
        MVTrak (if inner = "" then [] else L.map sentry_of (split_on ';' inner))
      else if x.[0] = 'p' then MVPssh (n_of_int (int_of_string (S.sub x 1 (S.length x - 1))))
      else MVOther (n_of_int (int_of_string (S.sub x 1 (S.length x - 1))))) (split_on '+' s)

(* ---- trun / timing cases ---- *)
let string_of_n (x : coq_N) : string = string_of_int (int_of_n x)
let tsample_string (s : tsample) : string =
  Printf.sprintf "%d/%d/%d/%d" (int_of_n s.ts_flags) (int_of_n s.ts_dur) (int_of_n s.ts_size) (int_of_n s.ts_cto)
let tsamples_of (s : string) : tsample list =
  if s = "-" || s = "" then []
  else L.map (fun x -> match split_on '/' x with
      | [f; d; z; c] -> { ts_flags = n_of_int (int_of_string f); ts_dur = n_of_int (int_of_string d);
                          ts_size = n_of_int (int_of_string z); ts_cto = n_of_int (int_of_string c) }
      | _ -> failwith ("bad sample " ^ x)) (split_on ';' s)
let trun_of (bits : string) doff ff samples : trun_t =
  { tr_dur = bits.[0] = '1'; tr_size = bits.[1] = '1'; tr_flags = bits.[2] = '1'; tr_cto = bits.[3] = '1';
    tr_first = bits.[4] = '1'; tr_doff = bits.[5] = '1'; tr_data_offset = doff; tr_first_flags = ff; tr_samples = samples }
let trun_string (t : trun_t) : string =
  Printf.sprintf "%d/%d/%s" (int_of_n t.tr_data_offset) (int_of_n t.tr_first_flags)
    (match t.tr_samples with [] -> "-" | l -> S.concat ";" (L.map tsample_string l))

(* ---- sinf / sample entry bytes ---- *)
let cc_hex (x : coq_N) : string = hex_of_bytes (be_bytes4 x)
let sinf_d_string (s : sinf_d) : string =
  (match s.sd_frma with None -> "-" | Some x -> cc_hex x) ^ ":" ^
  (match s.sd_schm with None -> "-" | Some x -> cc_hex x) ^ ":" ^
  (match s.sd_schi with
   | None -> "-"
   | Some None -> "none"
   | Some (Some t) ->
     Printf.sprintf "%d/%d/%d/%d/%d/%s/%s" (int_of_n t.t_version) (int_of_n t.t_cb) (int_of_n t.t_sb)
       (int_of_n t.t_isprot) (int_of_n t.t_ivsize) (hex_of_bytes (C07Spec.be_bytes (nat_of_int 16) t.t_kid)) (hex_of_bytes t.t_constiv))

let check id what model obs =
  if model = obs then Printf.printf "OK %s\n" id
  else Printf.printf "MISMATCH %s %s model=%s\n" id what
      (if S.length model > 600 then S.sub model 0 600 ^ "..." else model)

let () =
  iter_lines (fun line ->
      match split_on '\t' line with
      | ["D"; id; sch; key; constiv; cb; sb; ivs; subs; samples; obs] ->
        let ivs = L.map bytes_of_hex (list_of ivs) in
        let subs = L.map ranges_of_string (list_of subs) in
        let samples = L.map bytes_of_hex (list_of samples) in
        let r = decrypt_samples e d (scheme_of sch) (bytes_of_hex key) (bytes_of_hex constiv)
            (n_of_int (int_of_string cb)) (n_of_int (int_of_string sb)) ivs subs samples in
        check id "decryptSamplesInPlace" (res_string hexlist r) obs
      | ["P"; id; kind; ty; sech; moovs; sch; iv; npssh; psok; obs] ->
        let se = { se_kind = (match kind with "v" -> SVisual | "a" -> SAudio | _ -> SOtherKind);
                   se_type = cc ty; se_children = uncsv sechild_of sech } in
        let second = { se_kind = SAudio; se_type = cc "mp4a"; se_children = [] } in
        let m = uncsv (fun x ->
            if x = "T" then MVTrak [se] else if x = "U" then MVTrak [second]
            else if x.[0] = 'p' then MVPssh (n_of_int (int_of_string (S.sub x 1 (S.length x - 1))))
            else MVOther (n_of_int (int_of_string (S.sub x 1 (S.length x - 1))))) (S.concat "," (split_on '+' moovs)) in
        let psshs = L.init (int_of_string npssh) (fun i -> n_of_int (1000 + i)) in
        let model =
          match init_protect m (bytes_of_hex iv) (cc sch) (n_of_int 1) psshs (psok = "1") with
          | Ok (m1, t) ->
            let first = "ok|" ^ moov_string m1 ^ "|" ^ tenc_string t in
            let second =
              match decrypt_init m1 with
              | Ok (m2, tis) -> "ok|" ^ moov_string m2 ^ "|" ^ csv info_string tis
              | Err -> "err" | Panic -> "panic" | OutOfFuel -> "outoffuel" in
            first ^ "#" ^ second
          | Err -> "err" | Panic -> "panic" | OutOfFuel -> "outoffuel" in
        check id "InitProtect/DecryptInit" model obs
      | ["S"; id; boxes; obs] ->
        let (rest, n) = remove_encryption_boxes (tboxes_of boxes) in
        check id "RemoveEncryptionBoxes" (Printf.sprintf "%s|%d" (string_of_tboxes rest) (int_of_n n)) obs
      | ["G"; id; moofstart; children; dataoff; mdatstart; obs] ->
        let f = { f_moof_start = n_of_int (int_of_string moofstart); f_children = mchildren_of children;
                  f_data_offset = n_of_int (int_of_string dataoff); f_mdat_start = n_of_int (int_of_string mdatstart) } in
        let r = decrypt_frag_struct f in
        check id "DecryptFragment"
          (res_string (fun g -> Printf.sprintf "%s|%d|%d" (string_of_mchildren g.f_children)
                          (int_of_n g.f_data_offset) (int_of_n g.f_mdat_start)) r) obs
      | "E" :: id :: sch :: iv :: samples :: before :: trafc :: moofstart :: tenciv :: seig :: [obs] ->
        let seig = if seig = "-" then None else Some (n_of_int (int_of_string seig)) in
        let iv0 = pad_iv (bytes_of_hex iv) in
        let descs = L.map (fun d -> match split_on ':' d with
            | [l; rs] -> (n_of_int (int_of_string l), ranges_of_string rs)
            | _ -> failwith ("bad sample " ^ d)) (split_on ';' samples) in
        let encs =
          if sch = "cenc" then
            let (_, acc) = L.fold_left (fun (ivc, acc) (len, ssps) ->
                (increment_iv ivc ssps len, { e_iv = ivc; e_ssps = ssps; e_data = [] } :: acc)) (iv0, []) descs in
            L.rev acc
          else L.map (fun (_, ssps) -> { e_iv = []; e_ssps = ssps; e_data = [] }) descs in
        let model =
          match saiz_of saiz_empty encs, senc_of_r senc_empty encs with
          | Ok z, Ok s when (match senc_calc_size s with Ok _ -> false | _ -> true) ->
            ignore z; res_name (senc_calc_size s)   (* the saio loop of EncryptFragment calls senc.Size() *)
          | Ok z, Ok s ->
            (match senc_encode s, saiz_encode z with
             | Ok sb, Ok zb ->
               let slen = L.length sb and zlen = L.length zb in
               let before = L.map n_of_int (ints_of_csv before) in
               let tc = L.map (fun x ->
                   if x = "s" then (true, slen) else if x = "z" then (false, zlen) else if x = "i" then (false, 20)
                   else match split_on ':' x with
                     | ["o"; z] -> (false, int_of_string z)
                     | _ -> failwith ("bad traf child " ^ x)) (if trafc = "-" then [] else split_on ',' trafc) in
               let off = saio_offset before (L.map (fun (b, z) -> (b, n_of_int z)) tc) in
               let ms = int_of_string moofstart in
               let rec upto acc = function [] -> acc | (true, _) :: _ -> acc | (false, z) :: t -> upto (acc + z) t in
               let senc_start = ms + 8 + L.fold_left (fun a b -> a + int_of_n b) 0 before + 8 + upto 0 tc in
               let st p =
                 res_string senc_state (traf_senc_seig (n_of_int p) seig (n_of_int ms) (n_of_int senc_start) (Some off) sb) in
               S.concat "|" (["ok"; hex_of_bytes sb; hex_of_bytes zb; hex_of_bytes (saio_encode off); string_of_int senc_start]
                             @ L.map st [int_of_string tenciv; int_of_string tenciv; 0; 8; 16])
             | a, b -> "encode-" ^ (if res_name a <> "ok" then res_name a else res_name b))
          | a, b -> if res_name a <> "ok" then res_name a else res_name b in
        check id "senc/saiz/saio bytes + ParseReadSenc" model obs
      | ["T"; id; count; trun; tfhd; trexd; paylen; obs] ->
        let g = { sg_count = n_of_int (int_of_string count);
                  sg_trun = (if trun = "-" then None else if trun = "empty" then Some [] else Some (L.map n_of_int (ints_of_csv trun)));
                  sg_tfhd = (if tfhd = "-" then None else Some (n_of_int (int_of_string tfhd))) } in
        let payload = L.init (int_of_string paylen) (fun _ -> n_of_int 0) in
        let one trex =
          res_string (fun (samples, rest) ->
              csv_of_ints (L.map L.length samples) ^ "/" ^ string_of_int (L.length rest))
            (split_samples (sample_sizes trex g) payload) in
        check id "GetFullSamples sizes" (one (Some (n_of_int (int_of_string trexd))) ^ "|" ^ one None) obs
      | ["Q"; id; before; obs] ->
        let model =
          match decrypt_init (moov_of before) with
          | Ok (m2, tis) -> "ok|" ^ moov_string m2 ^ "|" ^ csv info_string tis
          | Err -> "err" | Panic -> "panic" | OutOfFuel -> "outoffuel" in
        check id "DecryptInit (several entries / tracks)" model obs
      | ["U"; id; tfhd; bits; doff; ff; samples; base; trex; obs] ->
        let n s = n_of_int (int_of_string s) in
        let opt s = if s = "-" then None else Some (n s) in
        let th = match split_on '|' tfhd with
          | [d; z; f] -> { th_dur = opt d; th_size = opt z; th_flags = opt f }
          | _ -> failwith "bad tfhd" in
        let tr = trun_of bits (n doff) (n ff) (tsamples_of samples) in
        let tx = match split_on '/' trex with
          | [d; z; f] -> { tx_dur = n d; tx_size = n z; tx_flags = n f }
          | _ -> failwith "bad trex" in
        let one trexo =
          let meta = fragment_meta th trexo tr (n base) in
          let m = add_sample_defaults th trexo tr in
          let body = trun_encode_body m in
          let re = match body with
            | Ok b -> (match trun_decode_body tr b with Ok t -> "ok:" ^ trun_string t | _ -> "err")
            | _ -> "-" in
          S.concat "|" ["ok:" ^ (match meta with [] -> "-" | _ -> S.concat ";" (L.map (fun (s, t) -> tsample_string s ^ "@" ^ string_of_n t) meta));
                        (match body with Ok b -> "ok:" ^ hex_of_bytes b | Err -> "err" | _ -> "panic"); re] in
        check id "GetFullSamples metadata + trun bytes" (one (Some tx) ^ "|" ^ one None) obs
      | ["V"; id; bits; data; obs] ->
        let hd = trun_of bits (n_of_int 0) (n_of_int 0) [] in
        let model = match trun_decode_body hd (bytes_of_hex data) with
          | Ok t -> "ok:" ^ trun_string t | Err -> "err" | Panic -> "panic" | OutOfFuel -> "outoffuel" in
        check id "DecodeTrun" model obs
      | ["W"; id; kind; entry; sch; iv; kid; obs] ->
        let b = bytes_of_hex entry in
        let nfixed = if kind = "v" then 78 else 28 in
        let payload = box_payload b in
        let ty = box_type b in
        let model =
          if L.length payload < nfixed then "short"
          else
            let fixed = L.filteri (fun i _ -> i < nfixed) payload in
            let rest = L.filteri (fun i _ -> i >= nfixed) payload in
            match children_of rest with
            | Ok children ->
              let se = { se_kind = (if kind = "v" then SVisual else SAudio); se_type = ty; se_children = [] } in
              (match protect_entry se (pad_iv (bytes_of_hex iv)) (cc sch) (be (bytes_of_hex kid)) true with
               | Ok (se1, t) ->
                 let pb = protect_entry_bytes se1.se_type ty fixed children (cc sch) t in
                 "ok|" ^ hex_of_bytes pb ^ "|" ^
                 (match unprotect_entry_bytes (nat_of_int nfixed) pb with
                  | Ok (cb, sd) -> "ok|" ^ hex_of_bytes cb ^ "|" ^ sinf_d_string sd
                  | Err -> "err" | Panic -> "panic" | OutOfFuel -> "outoffuel")
               | Err -> "err" | Panic -> "panic" | OutOfFuel -> "outoffuel")
            | _ -> "children-err" in
        check id "sample entry bytes (InitProtect / DecryptInit)" model obs
      | ["X"; id; data; obs] ->
        check id "DecodeSinf" (res_string sinf_d_string (sinf_decode (bytes_of_hex data))) obs
      | ["M"; id; data; obs] ->
        let box = bytes_of_hex data in
        let model = S.concat "|" (L.map (fun p -> res_string senc_state (senc_parse (n_of_int p) box)) [0; 8; 16; 5]) in
        check id "DecodeSenc + ParseReadBox" model obs
      | ["N"; id; tfhd; trex; base; truns; obs] ->
        let n s = n_of_int (int_of_string s) in
        let opt s = if s = "-" then None else Some (n s) in
        let th = match split_on '|' tfhd with
          | [d; z; f] -> { th_dur = opt d; th_size = opt z; th_flags = opt f }
          | _ -> failwith "bad tfhd" in
        let tx = match split_on '/' trex with
          | [d; z; f] -> { tx_dur = n d; tx_size = n z; tx_flags = n f }
          | _ -> failwith "bad trex" in
        let trs = L.map (fun x -> match split_on ':' x with
            | [bits; doff; ff; samples] -> trun_of bits (n doff) (n ff) (tsamples_of samples)
            | _ -> failwith ("bad trun " ^ x)) (if truns = "" then [] else split_on '#' truns) in
        let one trexo =
          let meta = traf_meta th trexo trs (n_of_hex base) in
          "ok:" ^ (match meta with [] -> "-" | _ -> S.concat ";" (L.map (fun (s, t) -> tsample_string s ^ "@" ^ hex_of_n t) meta)) in
        check id "GetFullSamples metadata, several truns" (one (Some tx) ^ "|" ^ one None) obs
      | ["Z"; id; large; plen; obs] ->
        let z = int_of_n (xbox_size (large = "1") (n_of_int (int_of_string plen))) in
        check id "UnknownBox.Size / encoded length" (Printf.sprintf "ok:%d,%d" z z) obs
      | ["Y"; id; kind; entry; obs] ->
        let k = if kind = "v" then SVisual else SAudio in
        let model = res_string (fun (b, sd) -> hex_of_bytes b ^ "|" ^ sinf_d_string sd)
            (unprotect_entry_typed k (bytes_of_hex entry)) in
        check id "sample entry typed fields + RemoveEncryption + Encode" model obs
      | ["H"; id; moofstart; children; mdatstart; di; key; obs] ->
        let nn s = n_of_int (int_of_string s) in
        let lst s = if s = "-" then [] else list_of s in
        let xchildren = L.map (fun x ->
            match split_on '!' x with
            | ["T"; track; tb; offs; ivs; subs; data] ->
              XTraf { x_track = nn track; x_children = tboxes_of tb;
                      x_offsets = L.map z_of_int (ints_of_csv offs);
                      x_ivs = L.map bytes_of_hex (lst ivs);
                      x_subs = L.map ranges_of_string (lst subs);
                      x_data = L.map bytes_of_hex (if data = "" then [] else split_on ';' data) }
            | _ -> (match split_on ':' x with
                | ["P"; z; i] -> XPssh (nn z, nn i)
                | ["O"; z; i] -> XOther (nn z, nn i)
                | _ -> failwith ("bad xchild " ^ x))) (if children = "-" || children = "" then [] else split_on '+' children) in
        let dil = L.map (fun x ->
            match split_on '=' x with
            | [t; "-"] -> (nn t, None)
            | [t; v] -> (match split_on '/' v with
                | [sch; civ; cb; sb] ->
                  (nn t, Some { ti_sch = scheme_of sch; ti_constiv = bytes_of_hex civ; ti_cb = nn cb; ti_sb = nn sb })
                | _ -> failwith ("bad tinfo " ^ v))
            | _ -> failwith ("bad di " ^ x)) (if di = "-" then [] else split_on ',' di) in
        let f = { xf_moof_start = nn moofstart; xf_children = xchildren; xf_mdat_start = nn mdatstart } in
        let show g =
          S.concat "+" (L.map (function
              | XTraf t -> S.concat "!" ["T"; string_of_int (int_of_n t.x_track); string_of_tboxes t.x_children;
                                         (match t.x_offsets with [] -> "-" | l -> S.concat "," (L.map (fun z -> string_of_int (int_of_z z)) l));
                                         "-"; "-"; S.concat ";" (L.map hex_of_bytes t.x_data)]
              | XPssh (z, i) -> Printf.sprintf "P:%d:%d" (int_of_n z) (int_of_n i)
              | XOther (z, i) -> Printf.sprintf "O:%d:%d" (int_of_n z) (int_of_n i)) g.xf_children)
          ^ "|" ^ string_of_int (int_of_n g.xf_mdat_start) in
        check id "DecryptFragment (multi-track / multi-trun)" (res_string show (decrypt_multi e d dil (bytes_of_hex key) f)) obs
      | _ -> Printf.printf "BADLINE %s\n" (if S.length line > 200 then S.sub line 0 200 else line))
