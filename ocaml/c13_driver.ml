(* Driver for the C13 model: reads the harness's case lines, recomputes the observables with
   the extracted model, prints one line per case: "OK <id>" or "MISMATCH <id> <what> <model>". *)
open Vx
open C13Model
open C13ModelExt
open C13ModelTail

let parse_wop (s : string) : wop =
  match split_on ':' s with
  | ["b"; v; w] -> WBits (n_of_hex v, n_of_int (int_of_string w))
  | ["f"; v] -> WFlag (v = "1")
  | ["u"; v] -> WUe (n_of_hex v)
  | ["s"; v] -> WSe (z_of_hex v)
  | ["v"; v] -> WSei (n_of_hex v)
  | ["t"] -> WTrail
  | ["z"] -> WStuff
  | ["l"] -> WFlush
  | _ -> failwith ("bad wop " ^ s)

let parse_rop (s : string) : xrop =
  match split_on ':' s with
  | ["b"; w] -> XBase (RBits (n_of_int (int_of_string w)))
  | ["f"] -> XBase RFlag
  | ["u"] -> XBase RUe
  | ["s"] -> XBase RSe
  | ["y"; k] -> XBase (RBytes (nat_of_int (int_of_string k)))
  | ["m"] -> XBase RMore
  | ["t"] -> XTrail
  | _ -> failwith ("bad rop " ^ s)

(* ops of the FixedSliceWriter ("F" lines) and of the ByteWriter ("B" lines) *)
let parse_fop (s : string) : fop =
  match split_on ':' s with
  | ["b"; v; w] -> FBits (n_of_hex v, n_of_int (int_of_string w))
  | ["f"; v] -> FFlag (v = "1")
  | ["l"] -> FFlush
  | ["u"; k; v] -> FU (nat_of_int (int_of_string k), n_of_hex v)
  | ["u3"; v] -> FU24 (n_of_hex v)
  | ["u6"; v] -> FU48 (n_of_hex v)
  | ["i"; k; z] -> FI (nat_of_int (int_of_string k), z_of_hex z)
  | ["z"; k] -> FZero (nat_of_int (int_of_string k))
  | ["y"; h] -> FBytes (bytes_of_hex h)
  | ["m"] -> FMatrix
  | _ -> failwith ("bad fop " ^ s)

(* the same plus WriteString ("s:<hex of the string's bytes>:<1 = zero terminator>"), C13ModelTail.fop2 *)
let parse_fop2 (s : string) : fop2 =
  match split_on ':' s with
  | ["s"; h; z] -> FStr (bytes_of_hex h, z = "1")
  | _ -> F1 (parse_fop s)

let parse_bop (s : string) : bop =
  match split_on ':' s with
  | ["u"; k; v] -> BU (nat_of_int (int_of_string k), n_of_hex v)
  | ["u6"; v] -> BU48 (n_of_hex v)
  | ["y"; h] -> BSlice (bytes_of_hex h)
  | _ -> failwith ("bad bop " ^ s)

let parse_list f s = if s = "-" then [] else L.map f (split_on ';' s)

let rec xrval_string (v : xrval) : string =
  match v with
  | XV v -> rval_string v
  | XT TNil -> "T0"
  | XT TNoOne -> "T1"
  | XT TSecondOne -> "T2"
  | XFuel -> "FUEL"
and rval_string (v : rval) : string =
  match v with
  | VN n -> hex_of_n n
  | VB b -> if b then "1" else "0"
  | VZ z -> hex_of_z z
  | VBytes l -> hex_of_bytes l
  | VMore None -> "N"
  | VMore (Some true) -> "1"
  | VMore (Some false) -> "0"

let () =
  iter_lines (fun line ->
      match split_on '\t' line with
      | ["W"; id; mode; ops; outhex; trace] ->
        let ops = parse_list parse_wop ops in
        if mode = "E" then begin
          (* run step by step to get the (v,n) trace *)
          let (s, tr) =
            L.fold_left (fun (s, tr) o ->
                let s' = wstep s o in
                (s', (hex_of_n (wv s') ^ "/" ^ string_of_int (int_of_n (wn s'))) :: tr))
              (C13Model.winit, []) ops in
          let mo = hex_of_bytes (wout s) in
          let mt = match tr with [] -> "" | _ -> S.concat "," (L.rev tr) in
          if mo = outhex && mt = trace then Printf.printf "OK %s\n" id
          else Printf.printf "MISMATCH %s writer model_out=%s model_trace=%s\n" id mo mt
        end else begin
          let s = run_writer_plain ops in
          let mo = hex_of_bytes (wout s) in
          if mo = outhex then Printf.printf "OK %s\n" id
          else Printf.printf "MISMATCH %s plainwriter(%s) model_out=%s\n" id mode mo
        end
      | ["R"; id; mode; datahex; rops; obs] ->
        let data = bytes_of_hex datahex in
        let rops = if rops = "-" then [] else split_on ';' rops in
        let esc = (mode = "E") in
        (* "S" = ReadSignedGolomb with Go's uint wrap (read_se64), "g:k" = Reader.ReadSigned(k) with the
           64-bit arithmetic (read_signed64; "P" = run-time panic); everything else as before *)
        let step s (os : string) : string * rstate =
          match split_on ':' os with
          | ["S"] -> let (z, s') = read_se64 s in (hex_of_z z, s')
          | ["r"] when not esc -> (* Reader.ReadRemainingBytes: N = nil, h<hex> = the slice *)
            (match read_remaining s with
             | (None, s') -> ("N", s')
             | (Some l, s') -> ("h" ^ hex_of_bytes l, s'))
          | ["g"; k] ->
            (match read_signed64 s (n_of_int (int_of_string k)) with
             | None -> ("P", s)
             | Some (z, s') -> (hex_of_z z, s'))
          | _ ->
            let o = parse_rop os in
            let (v, s') =
              if esc then xrstep s o
              else (match o with
                  | XBase (RBits w) -> let (v, s') = read_plain s w in (XV (VN v), s')
                  | XBase (RBytes k) -> (* used as ReadSigned(k) in plain mode *)
                    let (z, s') = read_signed_plain s (n_of_int (int_of_nat k)) in (XV (VZ z), s')
                  | XBase RFlag -> let (b, s') = read_flag_plain s in (XV (VB b), s')
                  | _ -> failwith "plain reader op") in
            (xrval_string v, s') in
        let (_, tr) =
          L.fold_left (fun (s, tr) o ->
              let (v, s') = step s o in
              let line = Printf.sprintf "%s/%d/%d/%d/%d" v
                  (if rerr s' then 1 else 0)
                  (int_of_n (nr_bytes_read s')) (int_of_z (nr_bits_read s'))
                  (int_of_z (nr_bits_read_in_current_byte s')) in
              (s', line :: tr))
            (rinit data, []) rops in
        let mt = match tr with [] -> "-" | _ -> S.concat "," (L.rev tr) in
        if mt = obs then Printf.printf "OK %s\n" id
        else Printf.printf "MISMATCH %s reader(%s) model_obs=%s\n" id mode mt
      | ["X"; id; mode; cap; ops; outhex; trace] ->
        (* writers over an io.Writer that fails after cap one-byte writes ("-" = never);
           per-op trace: EBSP "v/n/err" (BitsInBuffer, AccError), plain "err" *)
        let cap = if cap = "-" then None else Some (n_of_int (int_of_string cap)) in
        let ops = parse_list parse_wop ops in
        let esc = (mode = "E") in
        let (s, tr) =
          L.fold_left (fun (s, tr) o ->
              let s' = if esc then wxstep s o else wxstep_plain s o in
              let e = if xerr s' then "1" else "0" in
              let item = if esc then hex_of_n (wv (xs s')) ^ "/" ^ string_of_int (int_of_n (wn (xs s'))) ^ "/" ^ e else e in
              (s', item :: tr))
            (xinit cap, []) ops in
        let mo = hex_of_bytes (xout s) in
        let mt = match tr with [] -> "-" | _ -> S.concat "," (L.rev tr) in
        if mo = outhex && mt = trace then Printf.printf "OK %s\n" id
        else Printf.printf "MISMATCH %s failing-writer(%s) model_out=%s model_trace=%s\n" id mode mo mt
      | ["F"; id; cap; ops; outhex; trace] ->
        let ops = parse_list parse_fop2 ops in
        let (s, tr) =
          L.fold_left (fun (s, tr) o ->
              let s' = fstep2 s o in
              (s', Printf.sprintf "%d/%d" (int_of_n (foff s')) (if ferr s' then 1 else 0) :: tr))
            (finit (n_of_int (int_of_string cap)), []) ops in
        let mo = hex_of_bytes (fbytes s) in
        let mt = match tr with [] -> "-" | _ -> S.concat "," (L.rev tr) in
        if mo = outhex && mt = trace then Printf.printf "OK %s\n" id
        else Printf.printf "MISMATCH %s fixedslicewriter model_out=%s model_trace=%s\n" id mo mt
      | ["B"; id; cap; ops; outhex; trace] ->
        let ops = parse_list parse_bop ops in
        let (s, tr) =
          L.fold_left (fun (s, tr) o ->
              let s' = bstep s o in
              (s', Printf.sprintf "%d/%d" (L.length (brev s')) (if berr s' then 1 else 0) :: tr))
            (binit (n_of_int (int_of_string cap)), []) ops in
        let mo = hex_of_bytes (bbytes s) in
        let mt = match tr with [] -> "-" | _ -> S.concat "," (L.rev tr) in
        if mo = outhex && mt = trace then Printf.printf "OK %s\n" id
        else Printf.printf "MISMATCH %s bytewriter model_out=%s model_trace=%s\n" id mo mt
      | _ -> Printf.printf "BADLINE %s\n" line)
