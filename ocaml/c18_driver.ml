(* Driver for the C18 model: reads the harness's case lines, recomputes the observables with the
   extracted model, prints one line per case: "OK <id>" or "MISMATCH <id> <what> <model>".
   Case lines (tab separated):
     AE id ot ch f e            cls hex        AudioSpecificConfig.Encode (f, e signed hex)
     AD id hex                  obs            DecodeAudioSpecificConfig on arbitrary bytes
     HN id f ch ot plen         obs            NewADTSHeader
     HE id idd ot sfi ch hl pl bf   hex        ADTSHeader.Encode
     HD id hex                  obs            DecodeADTSHeader on arbitrary bytes
     HX id ot sfi ch bf lo hi   hash           Encode + Decode for every payload length lo..hi
     EN id ot f                 cls hex        SetAACDescriptor: the encoded mp4a sample entry
     ED id hex                  obs            mp4.DecodeBox on the bytes of an mp4a entry (ES: mp4.DecodeBoxSR)
     BW id ops flush            hex            bits.Writer: ops = v:w;... (hex value, decimal width), Flush if flush=1
     BR id hex widths           obs            bits.Reader: Read(w) for each width: value/err,...
     EH id ops obs final        history of SetAACDescriptor builds (B:ini:trk:ot:f), entry encodes (E:idx) and init-segment
                                encodes (I:ini); obs = one observation per operation; final = per entry: two more
                                encodes, the in-memory DecConfig, DecodeBox and DecodeBoxSR on its bytes
     AS id k cfgs hex obs       k configurations (ot/ch/f/e;...) encoded into ONE writer (hex), then k calls of
                                DecodeAudioSpecificConfig on ONE reader: result@bytes-left;...   (cfgs "-": raw bytes)
     HS id k items hex obs      the same for ADTS headers (junk:fields;...)
     DE id hex obs              mp4.DecodeESDescriptor on a FixedSliceReader over the bytes: the decoded value, GetPos(),
                                AccError() != nil, the value re-encoded
     DG id maxNr hex obs        mp4.DecodeDescriptor(sr, maxNr) likewise
     EB id hex obs obsSR        mp4.DecodeBox / mp4.DecodeBoxSR on the bytes of an esds box
     AR id hex obs              DecodeAudioSpecificConfig on arbitrary bytes; if ok: Encode of the result and the decoder again;
                                the hypothesis of the round-trip theorem (canonical) is evaluated on the result: "OK id hyp=1"
     HR id hex obs              the same for DecodeADTSHeader / ADTSHeader.Encode (hyp = id 0, header length 7, payload <= 8184)
   ED cases outside the modelled decoder path are answered "SKIP <id>" *)
open Vx
open Base
open C18Model
open C18EntryModel
open C18HistModel
open C18DescModel

let ni s = n_of_int (int_of_string s)

let asc_obs (r : asc res) : string =
  match r with
  | Ok a -> Printf.sprintf "ok/%d/%d/%s/%s/%d/%d" (int_of_n a.a_ot) (int_of_n a.a_chan)
              (hex_of_z a.a_freq) (hex_of_z a.a_ext) (if a.a_sbr then 1 else 0) (if a.a_ps then 1 else 0)
  | Err -> "err"
  | Panic -> "panic"
  | OutOfFuel -> "fuel"

let adts_fields (h : adts) : string =
  Printf.sprintf "%d/%d/%d/%d/%d/%d/%d" (int_of_n h.h_id) (int_of_n h.h_ot) (int_of_n h.h_sfi)
    (int_of_n h.h_chan) (int_of_n h.h_hlen) (int_of_n h.h_plen) (int_of_n h.h_bf)

let adts_obs (r : (adts * BinNums.coq_Z) res) : string =
  match r with
  | Ok (h, off) -> Printf.sprintf "ok/%s/%d" (adts_fields h) (int_of_z off)
  | Err -> "err"
  | Panic -> "panic"
  | OutOfFuel -> "fuel"

(* the hash both sides compute over the complete payload-length range *)
let hmod = 2147483647
let hstep h b = (h * 1000003 + b + 1) mod hmod

let rec desc_str (d : desc) : string =
  match d with
  | DDcd (sfs, ot, st, buf, maxbr, avg, cs, u) ->
    Printf.sprintf "4(%d,%d,%d,%d,%d,%d,%s,%s)" (int_of_n sfs) (int_of_n ot) (int_of_n st) (int_of_n buf)
      (int_of_n maxbr) (int_of_n avg) (descs_str cs) (hex_of_bytes u)
  | DDsi (sfs, dc) -> Printf.sprintf "5(%d,%s)" (int_of_n sfs) (hex_of_bytes dc)
  | DSlc (sfs, cv, more) -> Printf.sprintf "6(%d,%d,%s)" (int_of_n sfs) (int_of_n cv) (hex_of_bytes more)
  | DRaw (tag, sfs, data) -> Printf.sprintf "R(%d,%d,%s)" (int_of_n tag) (int_of_n sfs) (hex_of_bytes data)
and descs_str (l : desc list) : string = "[" ^ S.concat "+" (L.map desc_str l) ^ "]"

let es_str (e : esd) : string =
  Printf.sprintf "E(%d,%d,%d,%d,%s,%d,%s,%s,%s)" (int_of_n e.es_sfs) (int_of_n e.es_id) (int_of_n e.es_flags)
    (int_of_n e.es_dep) (hex_of_bytes e.es_url) (int_of_n e.es_ocr) (desc_str e.es_dcd) (descs_str e.es_children)
    (hex_of_bytes e.es_unknown)

let esds_body_obs (body : BinNums.coq_N list) : string =
  match decode_esds_body body with
  | Ok (vf, e) ->
    let dc = match es_dec_config e with Some d -> hex_of_bytes d | None -> "nil" in
    Printf.sprintf "ok/%d/%s/%s/%s" (int_of_n vf) (es_str e) (hex_of_bytes (encode_esds vf e)) dc
  | OutOfFuel -> "fuel"
  | _ -> "err"

let () =
  iter_lines (fun line ->
      match split_on '\t' line with
      | ["AE"; id; ot; ch; f; e; cls; hex] ->
        let a = { a_ot = ni ot; a_chan = ni ch; a_freq = z_of_hex f; a_ext = z_of_hex e;
                  a_sbr = false; a_ps = false } in
        let m = match encode_asc a with
          | Ok bs -> "ok\t" ^ hex_of_bytes bs
          | Err -> "err\t-"
          | _ -> "panic\t-" in
        if m = cls ^ "\t" ^ hex then Printf.printf "OK %s\n" id
        else Printf.printf "MISMATCH %s asc.Encode model=%s\n" id m
      | ["AD"; id; hex; obs] ->
        let m = asc_obs (decode_asc (bytes_of_hex hex)) in
        if m = obs then Printf.printf "OK %s\n" id
        else Printf.printf "MISMATCH %s DecodeAudioSpecificConfig model=%s\n" id m
      | ["HN"; id; f; ch; ot; plen; obs] ->
        let m = match new_adts (z_of_hex f) (ni ch) (ni ot) (ni plen) with
          | Ok h -> "ok/" ^ adts_fields h ^ "/" ^ string_of_int (int_of_n (adts_frequency h))
          | _ -> "err" in
        if m = obs then Printf.printf "OK %s\n" id
        else Printf.printf "MISMATCH %s NewADTSHeader model=%s\n" id m
      | ["HE"; id; idd; ot; sfi; ch; hl; pl; bf; hex] ->
        let h = { h_id = ni idd; h_ot = ni ot; h_sfi = ni sfi; h_chan = ni ch; h_hlen = ni hl;
                  h_plen = ni pl; h_bf = ni bf } in
        let m = hex_of_bytes (encode_adts h) in
        if m = hex then Printf.printf "OK %s\n" id
        else Printf.printf "MISMATCH %s ADTSHeader.Encode model=%s\n" id m
      | ["HD"; id; hex; obs] ->
        let data = bytes_of_hex hex in
        let r = decode_adts data in
        let m = adts_obs r in
        (* a reported offset must be the position of the first sync word of the naive scan *)
        let first_ok = match r with
          | Ok (_, off) -> (match first_sync data with Some p -> int_of_nat p = int_of_z off | None -> false)
          | _ -> true in
        if m = obs && first_ok then Printf.printf "OK %s\n" id
        else if not first_ok then Printf.printf "MISMATCH %s DecodeADTSHeader offset-is-not-the-first-sync model=%s\n" id m
        else Printf.printf "MISMATCH %s DecodeADTSHeader model=%s\n" id m
      | ["HX"; id; ot; sfi; ch; bf; lo; hi; hash] ->
        let lo = int_of_string lo and hi = int_of_string hi in
        let h = ref 0 in
        for pl = lo to hi do
          let hd = { h_id = n_of_int 0; h_ot = ni ot; h_sfi = ni sfi; h_chan = ni ch;
                     h_hlen = n_of_int 7; h_plen = n_of_int pl; h_bf = ni bf } in
          let bs = encode_adts hd in
          L.iter (fun b -> h := hstep !h (int_of_n b)) bs;
          (match decode_adts bs with
           | Ok (d, off) ->
             h := hstep !h 0;
             L.iter (fun v -> h := hstep !h v)
               [int_of_n d.h_id; int_of_n d.h_ot; int_of_n d.h_sfi; int_of_n d.h_chan;
                int_of_n d.h_hlen; int_of_n d.h_plen; int_of_n d.h_bf; int_of_z off]
           | _ -> h := hstep !h 1)
        done;
        let m = string_of_int !h in
        if m = hash then Printf.printf "OK %s\n" id
        else Printf.printf "MISMATCH %s adts-range model_hash=%s\n" id m
      | ["BW"; id; ops; fl; hex] ->
        let ops = if ops = "-" then [] else L.map (fun o -> match split_on ':' o with
            | [v; w] -> (n_of_hex v, nat_of_int (int_of_string w)) | _ -> failwith "bad op") (split_on ';' ops) in
        let bits = L.concat (L.map (fun (v, w) -> to_bits w v) ops) in
        let m = hex_of_bytes (pack (if fl = "1" then flush bits else bits)) in
        if m = hex then Printf.printf "OK %s\n" id
        else Printf.printf "MISMATCH %s bits.Writer model=%s\n" id m
      | ["BR"; id; hex; widths; obs] ->
        let ws = ints_of_csv widths in
        let (_, tr) = L.fold_left (fun (s, tr) w ->
            let (v, s') = rd (nat_of_int w) s in
            (s', (hex_of_n v ^ "/" ^ (if s'.rerr then "1" else "0")) :: tr)) (rinit (bytes_of_hex hex), []) ws in
        let m = match tr with [] -> "-" | _ -> S.concat "," (L.rev tr) in
        if m = obs then Printf.printf "OK %s\n" id
        else Printf.printf "MISMATCH %s bits.Reader model=%s\n" id m
      | ["EN"; id; ot; f; cls; hex] ->
        let m = match set_aac_descriptor (ni ot) (z_of_hex f) with
          | Ok bs -> "ok\t" ^ hex_of_bytes bs
          | _ -> "err\t-" in
        if m = cls ^ "\t" ^ hex then Printf.printf "OK %s\n" id
        else Printf.printf "MISMATCH %s SetAACDescriptor model=%s\n" id m
      | [("ED" | "ES") as kind; id; hex; obs] ->
        let data = bytes_of_hex hex in
        let (dec, casc, what) = if kind = "ED" then (decode_entry data, entry_asc, "DecodeBox(mp4a)")
          else (decode_entry_sr data, entry_asc_sr, "DecodeBoxSR(mp4a)") in
        (match dec with
         | EUnmodelled -> Printf.printf "SKIP %s\n" id
         | r ->
           let m = match r with
             | EOk e ->
               let a = match casc data with EOk a -> asc_obs (Ok a) | _ -> "err" in
               Printf.sprintf "ok/%d/%d/%d/%d/%s/%s" (int_of_n e.e_dri) (int_of_n e.e_cc) (int_of_n e.e_ss)
                 (int_of_n e.e_rate) (hex_of_bytes e.e_dc) a
             | _ -> "err" in
           if m = obs then Printf.printf "OK %s\n" id
           else Printf.printf "MISMATCH %s %s model=%s\n" id what m)
      | ["EH"; id; ops; obs; fin] ->
        let parse_op o = match split_on ':' o with
          | ["B"; ini; trk; ot; f] -> HBuild (ni ini, ni trk, ni ot, z_of_hex f)
          | ["E"; idx] -> HEncEntry (nat_of_int (int_of_string idx))
          | ["I"; ini] -> HEncInit (ni ini)
          | _ -> failwith "bad op" in
        let (st, os) = hrun (L.map parse_op (split_on ';' ops)) [] in
        let obs_s = function
          | OBuilt -> "b" | OBuildErr -> "e" | ONoEntry -> "n"
          | OBytes l -> "=" ^ S.concat "," (L.map hex_of_bytes l) in
        let m_obs = S.concat ";" (L.map obs_s os) in
        let ent_obs dec casc data = match dec data with
          | EUnmodelled -> "unmodelled"
          | EOk e ->
            let a = match casc data with EOk a -> asc_obs (Ok a) | _ -> "err" in
            Printf.sprintf "ok/%d/%d/%d/%d/%s/%s" (int_of_n e.e_dri) (int_of_n e.e_cc) (int_of_n e.e_ss)
              (int_of_n e.e_rate) (hex_of_bytes e.e_dc) a
          | _ -> "err" in
        let m_fin = match st with
          | [] -> "-"
          | _ -> S.concat "|" (L.map (fun e ->
              let b = hex_of_bytes e.he_bytes in
              let dc = match encode_asc (set_aac_asc e.he_ot e.he_f) with Ok d -> hex_of_bytes d | _ -> "?" in
              S.concat "," [b; b; dc; ent_obs decode_entry entry_asc e.he_bytes;
                            ent_obs decode_entry_sr entry_asc_sr e.he_bytes]) st) in
        if m_obs = obs && m_fin = fin then Printf.printf "OK %s\n" id
        else if m_obs <> obs then Printf.printf "MISMATCH %s history-observations model=%s\n" id m_obs
        else Printf.printf "MISMATCH %s history-final-entries model=%s\n" id m_fin
      | ["AS"; id; k; cfgs; hex; obs] ->
        let data = bytes_of_hex hex in
        let enc_ok = cfgs = "-" ||
          (let l = L.map (fun c -> match split_on '/' c with
               | [ot; ch; f; e] -> { a_ot = ni ot; a_chan = ni ch; a_freq = z_of_hex f; a_ext = z_of_hex e;
                                     a_sbr = false; a_ps = false }
               | _ -> failwith "bad cfg") (split_on ';' cfgs) in
           hex_of_bytes (encode_asc_stream l) = hex) in
        let m = S.concat ";" (L.map (fun (r, left) -> match r with
            | Ok a -> asc_obs (Ok a) ^ "@" ^ string_of_int (int_of_n left)
            | r -> asc_obs r) (decode_asc_stream (nat_of_int (int_of_string k)) data)) in
        if enc_ok && m = obs then Printf.printf "OK %s\n" id
        else if not enc_ok then Printf.printf "MISMATCH %s asc-stream-encode\n" id
        else Printf.printf "MISMATCH %s asc-stream-decode model=%s\n" id m
      | ["HS"; id; k; items; hex; obs] ->
        let data = bytes_of_hex hex in
        let enc_ok = items = "-" ||
          (let l = L.map (fun c -> match split_on ':' c with
               | [junk; fields] ->
                 (match L.map ni (split_on '/' fields) with
                  | [idd; ot; sfi; ch; hl; pl; bf] ->
                    (bytes_of_hex junk, { h_id = idd; h_ot = ot; h_sfi = sfi; h_chan = ch; h_hlen = hl; h_plen = pl; h_bf = bf })
                  | _ -> failwith "bad header")
               | _ -> failwith "bad item") (split_on ';' items) in
           hex_of_bytes (encode_adts_stream l) = hex) in
        let m = S.concat ";" (L.map (fun (r, left) -> match r with
            | Ok _ -> adts_obs r ^ "@" ^ string_of_int (int_of_n left)
            | r -> adts_obs r) (decode_adts_stream (nat_of_int (int_of_string k)) data)) in
        if enc_ok && m = obs then Printf.printf "OK %s\n" id
        else if not enc_ok then Printf.printf "MISMATCH %s adts-stream-encode\n" id
        else Printf.printf "MISMATCH %s adts-stream-decode model=%s\n" id m
      | ["DE"; id; hex; obs] ->
        let m = match decode_es_descriptor (bytes_of_hex hex) with
          | (Ok e, s) -> Printf.sprintf "ok/%s/%d/%d/%s" (es_str e) (int_of_n s.s_pos) (if s.s_err then 1 else 0)
                           (hex_of_bytes (encode_es e))
          | (OutOfFuel, _) -> "fuel"
          | _ -> "err" in
        if m = obs then Printf.printf "OK %s\n" id
        else Printf.printf "MISMATCH %s DecodeESDescriptor model=%s\n" id m
      | ["DG"; id; maxnr; hex; obs] ->
        let m = match decode_descriptor (z_of_int (int_of_string maxnr)) (bytes_of_hex hex) with
          | (Ok d, s) -> Printf.sprintf "ok/%s/%d/%d/%s" (desc_str d) (int_of_n s.s_pos) (if s.s_err then 1 else 0)
                           (hex_of_bytes (encode_desc d))
          | (OutOfFuel, _) -> "fuel"
          | _ -> "err" in
        if m = obs then Printf.printf "OK %s\n" id
        else Printf.printf "MISMATCH %s DecodeDescriptor model=%s\n" id m
      | ["EB"; id; hex; obs; obs_sr] ->
        let data = bytes_of_hex hex in
        let m = match decode_box_header data with
          | EUnmodelled -> "skip"
          | EErr -> "err"
          | EOk (((name, _), body), _) -> if list_eqb name fourcc_esds then esds_body_obs body else "skip" in
        let m_sr = match decode_box_header_sr (data, n_of_int 0) with
          | EUnmodelled -> "skip"
          | EErr -> "err"
          | EOk ((name, size), (rest, _)) ->
            if not (list_eqb name fourcc_esds) then "skip"
            else if L.length rest + 8 < int_of_n size then "err"
            else
              (* DecodeEsdsSR (repo fix 27ea537) reads version/flags and the descriptors from a reader of its own
                 over the payload of the box: the bytes after the box are not seen *)
              esds_body_obs (L.filteri (fun i _ -> i < int_of_n size - 8) rest) in
        if (m = "skip" || m = obs) && (m_sr = "skip" || m_sr = obs_sr) then
          Printf.printf "%s %s\n" (if m = "skip" && m_sr = "skip" then "SKIP" else "OK") id
        else if not (m = "skip" || m = obs) then Printf.printf "MISMATCH %s DecodeBox(esds) model=%s\n" id m
        else Printf.printf "MISMATCH %s DecodeBoxSR(esds) model=%s\n" id m_sr
      | ["AR"; id; hex; obs] ->
        (* decoder range: the hypothesis of C18_asc_roundtrip evaluated on what the decoder returned
           (C18_decode_asc_canonical says it always holds), then decode -> encode -> decode *)
        let r = decode_asc (bytes_of_hex hex) in
        (match r with
         | Ok a ->
           let m = match encode_asc a with
             | Ok bs -> asc_obs r ^ "|" ^ hex_of_bytes bs ^ "|" ^ asc_obs (decode_asc bs)
             | Err -> asc_obs r ^ "|err"
             | _ -> asc_obs r ^ "|panic" in
           if m <> obs then Printf.printf "MISMATCH %s asc-decode-encode-decode model=%s\n" id m
           else if not (canonical a) then Printf.printf "MISMATCH %s asc-decoder-result-not-canonical model=%s\n" id m
           else if not (asc_roundtrip_ok a) then Printf.printf "MISMATCH %s asc-decoder-result-does-not-roundtrip model=%s\n" id m
           else Printf.printf "OK %s hyp=1\n" id
         | _ ->
           let m = asc_obs r in
           if m = obs then Printf.printf "OK %s hyp=-\n" id
           else Printf.printf "MISMATCH %s asc-decode-encode-decode model=%s\n" id m)
      | ["HR"; id; hex; obs] ->
        (* the same for DecodeADTSHeader; hypothesis of C18_decode_adts_canonical: MPEG-4 id, 7-byte header,
           frame length >= 7 *)
        let r = decode_adts (bytes_of_hex hex) in
        (match r with
         | Ok (h, _) ->
           let bs = encode_adts h in
           let m = adts_obs r ^ "|" ^ hex_of_bytes bs ^ "|" ^ adts_obs (decode_adts bs) in
           let guard = int_of_n h.h_id = 0 && int_of_n h.h_hlen = 7 && int_of_n h.h_plen <= 8184 in
           if m <> obs then Printf.printf "MISMATCH %s adts-decode-encode-decode model=%s\n" id m
           else if guard && not (adts_canonical h) then Printf.printf "MISMATCH %s adts-decoder-result-not-canonical model=%s\n" id m
           else if guard && not (adts_roundtrip_ok [] h []) then Printf.printf "MISMATCH %s adts-decoder-result-does-not-roundtrip model=%s\n" id m
           else Printf.printf "OK %s hyp=%d\n" id (if guard then 1 else 0)
         | _ ->
           let m = adts_obs r in
           if m = obs then Printf.printf "OK %s hyp=-\n" id
           else Printf.printf "MISMATCH %s adts-decode-encode-decode model=%s\n" id m)
      | _ -> Printf.printf "BADLINE %s\n" line)
