(* Driver for the C18 model: reads the harness's case lines, recomputes the observables with the
   extracted model, prints one line per case: "OK <id>" or "MISMATCH <id> <what> <model>".
   Case lines (tab separated):
     AE id ot ch f e            cls hex        AudioSpecificConfig.Encode (f, e signed hex)
     AD id hex                  obs            DecodeAudioSpecificConfig on arbitrary bytes
     HN id f ch ot plen         obs            NewADTSHeader
     HE id idd ot sfi ch hl pl bf   hex        ADTSHeader.Encode
     HD id hex                  obs            DecodeADTSHeader on arbitrary bytes
     HX id ot sfi ch bf lo hi   hash           Encode + Decode for every payload length lo..hi
     EN id ot f                 cls hex        SetAACDescriptor: the encoded mp4a sample entry
     ED id hex                  obs            mp4.DecodeBox on the bytes of an mp4a entry (ES: mp4.DecodeBoxSR)
     BW id ops flush            hex            bits.Writer: ops = v:w;... (hex value, decimal width), Flush if flush=1
     BR id hex widths           obs            bits.Reader: Read(w) for each width: value/err,...
   ED cases outside the modelled decoder path are answered "SKIP <id>" *)
open Vx
open Base
open C18Model
open C18EntryModel

let ni s = n_of_int (int_of_string s)

let asc_obs (r : asc res) : string =
  match r with
  | Ok a -> Printf.sprintf "ok/%d/%d/%s/%s/%d/%d" (int_of_n a.a_ot) (int_of_n a.a_chan)
              (hex_of_z a.a_freq) (hex_of_z a.a_ext) (if a.a_sbr then 1 else 0) (if a.a_ps then 1 else 0)
  | Err -> "err"
  | Panic -> "panic"
  | OutOfFuel -> "fuel"

let adts_fields (h : adts) : string =
  Printf.sprintf "%d/%d/%d/%d/%d/%d/%d" (int_of_n h.h_id) (int_of_n h.h_ot) (int_of_n h.h_sfi)
    (int_of_n h.h_chan) (int_of_n h.h_hlen) (int_of_n h.h_plen) (int_of_n h.h_bf)

let adts_obs (r : (adts * BinNums.coq_Z) res) : string =
  match r with
  | Ok (h, off) -> Printf.sprintf "ok/%s/%d" (adts_fields h) (int_of_z off)
  | Err -> "err"
  | Panic -> "panic"
  | OutOfFuel -> "fuel"

(* the hash both sides compute over the complete payload-length range *)
let hmod = 2147483647
let hstep h b = (h * 1000003 + b + 1) mod hmod

let () =
  iter_lines (fun line ->
      match split_on '\t' line with
      | ["AE"; id; ot; ch; f; e; cls; hex] ->
        let a = { a_ot = ni ot; a_chan = ni ch; a_freq = z_of_hex f; a_ext = z_of_hex e;
                  a_sbr = false; a_ps = false } in
        let m = match encode_asc a with
          | Ok bs -> "ok\t" ^ hex_of_bytes bs
          | Err -> "err\t-"
          | _ -> "panic\t-" in
        if m = cls ^ "\t" ^ hex then Printf.printf "OK %s\n" id
        else Printf.printf "MISMATCH %s asc.Encode model=%s\n" id m
      | ["AD"; id; hex; obs] ->
        let m = asc_obs (decode_asc (bytes_of_hex hex)) in
        if m = obs then Printf.printf "OK %s\n" id
        else Printf.printf "MISMATCH %s DecodeAudioSpecificConfig model=%s\n" id m
      | ["HN"; id; f; ch; ot; plen; obs] ->
        let m = match new_adts (z_of_hex f) (ni ch) (ni ot) (ni plen) with
          | Ok h -> "ok/" ^ adts_fields h ^ "/" ^ string_of_int (int_of_n (adts_frequency h))
          | _ -> "err" in
        if m = obs then Printf.printf "OK %s\n" id
        else Printf.printf "MISMATCH %s NewADTSHeader model=%s\n" id m
      | ["HE"; id; idd; ot; sfi; ch; hl; pl; bf; hex] ->
        let h = { h_id = ni idd; h_ot = ni ot; h_sfi = ni sfi; h_chan = ni ch; h_hlen = ni hl;
                  h_plen = ni pl; h_bf = ni bf } in
        let m = hex_of_bytes (encode_adts h) in
        if m = hex then Printf.printf "OK %s\n" id
        else Printf.printf "MISMATCH %s ADTSHeader.Encode model=%s\n" id m
      | ["HD"; id; hex; obs] ->
        let data = bytes_of_hex hex in
        let r = decode_adts data in
        let m = adts_obs r in
        (* a reported offset must be the position of the first sync word of the naive scan *)
        let first_ok = match r with
          | Ok (_, off) -> (match first_sync data with Some p -> int_of_nat p = int_of_z off | None -> false)
          | _ -> true in
        if m = obs && first_ok then Printf.printf "OK %s\n" id
        else if not first_ok then Printf.printf "MISMATCH %s DecodeADTSHeader offset-is-not-the-first-sync model=%s\n" id m
        else Printf.printf "MISMATCH %s DecodeADTSHeader model=%s\n" id m
      | ["HX"; id; ot; sfi; ch; bf; lo; hi; hash] ->
        let lo = int_of_string lo and hi = int_of_string hi in
        let h = ref 0 in
        for pl = lo to hi do
          let hd = { h_id = n_of_int 0; h_ot = ni ot; h_sfi = ni sfi; h_chan = ni ch;
                     h_hlen = n_of_int 7; h_plen = n_of_int pl; h_bf = ni bf } in
          let bs = encode_adts hd in
          L.iter (fun b -> h := hstep !h (int_of_n b)) bs;
          (match decode_adts bs with
           | Ok (d, off) ->
             h := hstep !h 0;
             L.iter (fun v -> h := hstep !h v)
               [int_of_n d.h_id; int_of_n d.h_ot; int_of_n d.h_sfi; int_of_n d.h_chan;
                int_of_n d.h_hlen; int_of_n d.h_plen; int_of_n d.h_bf; int_of_z off]
           | _ -> h := hstep !h 1)
        done;
        let m = string_of_int !h in
        if m = hash then Printf.printf "OK %s\n" id
        else Printf.printf "MISMATCH %s adts-range model_hash=%s\n" id m
      | ["BW"; id; ops; fl; hex] ->
        let ops = if ops = "-" then [] else L.map (fun o -> match split_on ':' o with
            | [v; w] -> (n_of_hex v, nat_of_int (int_of_string w)) | _ -> failwith "bad op") (split_on ';' ops) in
        let bits = L.concat (L.map (fun (v, w) -> to_bits w v) ops) in
        let m = hex_of_bytes (pack (if fl = "1" then flush bits else bits)) in
        if m = hex then Printf.printf "OK %s\n" id
        else Printf.printf "MISMATCH %s bits.Writer model=%s\n" id m
      | ["BR"; id; hex; widths; obs] ->
        let ws = ints_of_csv widths in
        let (_, tr) = L.fold_left (fun (s, tr) w ->
            let (v, s') = rd (nat_of_int w) s in
            (s', (hex_of_n v ^ "/" ^ (if s'.rerr then "1" else "0")) :: tr)) (rinit (bytes_of_hex hex), []) ws in
        let m = match tr with [] -> "-" | _ -> S.concat "," (L.rev tr) in
        if m = obs then Printf.printf "OK %s\n" id
        else Printf.printf "MISMATCH %s bits.Reader model=%s\n" id m
      | ["EN"; id; ot; f; cls; hex] ->
        let m = match set_aac_descriptor (ni ot) (z_of_hex f) with
          | Ok bs -> "ok\t" ^ hex_of_bytes bs
          | _ -> "err\t-" in
        if m = cls ^ "\t" ^ hex then Printf.printf "OK %s\n" id
        else Printf.printf "MISMATCH %s SetAACDescriptor model=%s\n" id m
      | [("ED" | "ES") as kind; id; hex; obs] ->
        let data = bytes_of_hex hex in
        let (dec, casc, what) = if kind = "ED" then (decode_entry data, entry_asc, "DecodeBox(mp4a)")
          else (decode_entry_sr data, entry_asc_sr, "DecodeBoxSR(mp4a)") in
        (match dec with
         | EUnmodelled -> Printf.printf "SKIP %s\n" id
         | r ->
           let m = match r with
             | EOk e ->
               let a = match casc data with EOk a -> asc_obs (Ok a) | _ -> "err" in
               Printf.sprintf "ok/%d/%d/%d/%d/%s/%s" (int_of_n e.e_dri) (int_of_n e.e_cc) (int_of_n e.e_ss)
                 (int_of_n e.e_rate) (hex_of_bytes e.e_dc) a
             | _ -> "err" in
           if m = obs then Printf.printf "OK %s\n" id
           else Printf.printf "MISMATCH %s %s model=%s\n" id what m)
      | _ -> Printf.printf "BADLINE %s\n" line)
