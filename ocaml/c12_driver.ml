(* Driver for the C12 model: reads the harness's case lines, recomputes the observables with the
   extracted model, prints "OK <id>" or "MISMATCH <id> <what> model=<...>".
   Line kinds:
     A <id> <ism><som> <boxes> <class> <partition> <encode>      assembly + segment-mode encode
     U <id> <ism><som> <boxes> <add><nz> <class> <sidx obs>       UpdateSidx + encode (C12Sidx)   *)
open Vx
open Base
open C12Model
open C12Sidx
open C12Bytes

let kind_of_char c =
  match c with
  | 'f' -> KFtyp | 's' -> KStyp | 'v' -> KMoov | 'x' -> KSidx | 'o' -> KMoof
  | 'd' -> KMdat | 'e' -> KEmsg | 'r' -> KMfra | 'z' -> KOther
  | _ -> failwith "bad kind"

let split_nonempty c s = if s = "" then [] else split_on c s

let parse_ref s =
  match split_on ':' s with
  | [t; sz; d] -> { r_type = n_of_hex t; r_size = n_of_hex sz; r_dur = n_of_hex d }
  | _ -> failwith ("bad ref " ^ s)

let parse_tfra s =
  match split_on ':' s with
  | [t; offs] -> { tf_track = n_of_hex t; tf_offsets = L.map n_of_hex (split_nonempty '.' offs) }
  | _ -> failwith ("bad tfra " ^ s)

let parse_traf s =
  match split_on ':' s with
  | [t; b; c; truns] ->
    { t_track = n_of_hex t; t_base = n_of_hex b; t_cto0 = z_of_hex c;
      t_truns = L.map (fun tr -> L.map n_of_hex (split_nonempty '.' tr)) (split_nonempty '/' truns) }
  | _ -> failwith ("bad traf " ^ s)

let parse_trak s =
  match split_on ':' s with
  | [id; h; ts; trex] ->
    { k_id = n_of_hex id; k_handler = n_of_int (int_of_string h); k_timescale = n_of_hex ts; k_trex = (trex = "1") }
  | _ -> failwith ("bad trak " ^ s)

(* returns (box, class) *)
let parse_box (tag : int) (s : string) : topbox * int =
  match split_on '|' s with
  | [head; refs; tfras; trafs; traks] ->
    (match split_on ',' head with
     | [k; size; hdr; fo; stts; mfro; cls; ver] ->
       ({ b_kind = kind_of_char k.[0]; b_tag = n_of_int tag; b_size = n_of_hex size; b_hdr = n_of_hex hdr;
          b_first_offset = n_of_hex fo; b_refs = L.map parse_ref (split_nonempty '+' refs);
          b_stts_empty = (stts = "1"); b_tfras = L.map parse_tfra (split_nonempty '+' tfras);
          b_mfro = (mfro = "1"); b_trafs = L.map parse_traf (split_nonempty '+' trafs);
          b_traks = L.map parse_trak (split_nonempty '+' traks); b_version = n_of_int (int_of_string ver);
          b_refid = N0; b_timescale = N0; b_ept = N0 },
        int_of_string cls)
     | _ -> failwith ("bad box head " ^ head))
  | _ -> failwith ("bad box " ^ s)

let parse_boxes (s : string) : topbox list * int array =
  if s = "-" then ([], [||])
  else begin
    let l = L.mapi parse_box (split_on ';' s) in
    (L.map fst l, Array.of_list (L.map snd l))
  end

let tag b = string_of_int (int_of_n b.b_tag)
let tags l = S.concat "," (L.map tag l)
let opt_tag o = match o with Some b -> tag b | None -> ""

let partition_string (f : file) : string =
  let b = Buffer.create 256 in
  Buffer.add_string b (Printf.sprintf "frag=%d;sidx=%s;mfra=%s;mdat=%s;init=%s;segs="
                         (if f.f_fragmented then 1 else 0)
                         (tags (L.map (fun sx -> sx.sx_box) f.f_sidxs))
                         (opt_tag f.f_mfra) (opt_tag f.f_mdat)
                         (match f.f_init with None -> "" | Some cs -> "[" ^ tags cs ^ "]"));
  let seg_string (s : segment) =
    let frag_string (fr : fragment) =
      Printf.sprintf "%s:%s:%s:%s" (hex_of_n fr.fr_start) (tags fr.fr_children) (opt_tag fr.fr_moof) (opt_tag fr.fr_mdat) in
    Printf.sprintf "%s@%s@%s@%s"
      (match s.sg_styp with Some x -> tag x | None -> "-")
      (hex_of_n s.sg_start)
      (tags (L.map (fun sx -> sx.sx_box) s.sg_sidxs))
      (S.concat "/" (L.map frag_string s.sg_frags)) in
  Buffer.add_string b (S.concat "|" (L.map seg_string f.f_segs));
  Buffer.contents b

let class_string r = match r with Ok _ -> "ok" | Err -> "err" | Panic -> "panic" | OutOfFuel -> "fuel"

let opts_of s = { o_ism = (s.[0] = '1'); o_start_on_moof = (s.[1] = '1') }

let () =
  iter_lines (fun line ->
      match split_on '\t' line with
      | ["A"; id; fl; boxes; cls; part; enc] ->
        let (bs, classes) = parse_boxes boxes in
        let r = assemble (opts_of fl) bs in
        let mcls = class_string r in
        let (mpart, menc) =
          match r with
          | Ok f ->
            let e = match encode_file f with
              | Ok l -> "ok:" ^ (match l with [] -> "-" | _ ->
                  S.concat "," (L.map (fun b -> string_of_int classes.(int_of_n b.b_tag)) l))
              | Err -> "err" | Panic -> "panic" | OutOfFuel -> "fuel" in
            (partition_string f, e)
          | _ -> ("-", "-") in
        if mcls = cls && mpart = part && menc = enc then Printf.printf "OK %s\n" id
        else Printf.printf "MISMATCH %s assemble model_class=%s model_part=%s model_enc=%s\n" id mcls mpart menc
      | ["U"; id; fl; boxes; an; obs] ->
        let (bs, _) = parse_boxes boxes in
        let newtag = L.length bs in
        let kind_char k = match k with
          | KFtyp -> 'f' | KStyp -> 's' | KMoov -> 'v' | KSidx -> 'x' | KMoof -> 'o'
          | KMdat -> 'd' | KEmsg -> 'e' | KMfra -> 'r' | KOther -> 'z' in
        let m =
          match assemble (opts_of fl) bs with
          | Ok f ->
            (match update_sidx f (an.[0] = '1') (an.[1] = '1') (n_of_int newtag) with
             | Ok f' ->
               let b = Buffer.create 256 in
               Buffer.add_string b "ok;";
               (match f'.f_sidxs with
                | [] -> Buffer.add_string b "nosidx;"
                | sx :: _ ->
                  let x = sx.sx_box in
                  Buffer.add_string b (Printf.sprintf "%d,%s,%s,%s,%s,%s;" (int_of_n x.b_version) (hex_of_n x.b_refid)
                                         (hex_of_n x.b_timescale) (hex_of_n x.b_ept) (hex_of_n x.b_first_offset)
                                         (S.concat "+" (L.map (fun r -> Printf.sprintf "%d:%s:%s" (int_of_n r.r_type)
                                                                   (hex_of_n r.r_size) (hex_of_n r.r_dur)) x.b_refs))));
               Buffer.add_string b (S.concat "," (L.map (fun c -> let t = int_of_n c.b_tag in
                                                          if t = newtag then "N" else string_of_int t) f'.f_children));
               Buffer.add_string b ";";
               (match encode_file f' with
                | Ok l -> Buffer.add_string b ("ok:" ^ S.concat "," (L.map (fun c ->
                    Printf.sprintf "%c%s" (kind_char c.b_kind) (hex_of_n c.b_size)) l))
                | Err -> Buffer.add_string b "err" | Panic -> Buffer.add_string b "panic"
                | OutOfFuel -> Buffer.add_string b "fuel");
               Buffer.contents b
             | Err -> "err" | Panic -> "panic" | OutOfFuel -> "fuel")
          | r -> "decode-" ^ class_string r in
        if m = obs then Printf.printf "OK %s\n" id
        else Printf.printf "MISMATCH %s update_sidx model=%s\n" id m
      | ["B"; id; fl; boxes; an; obs] ->
        (* UpdateSidx on a (possibly huge, lazily decoded) multi-track file: the sidx in memory and the
           references as read back from the written words *)
        let (bs, _) = parse_boxes boxes in
        let newtag = L.length bs in
        let m =
          match assemble (opts_of fl) bs with
          | Ok f ->
            (match update_sidx f (an.[0] = '1') (an.[1] = '1') (n_of_int newtag) with
             | Ok f' ->
               (match f'.f_sidxs with
                | [] -> "ok;nosidx"
                | sx :: _ ->
                  let x = sx.sx_box in
                  Printf.sprintf "ok;%d,%s,%s,%s,%s,%s;wire=%s" (int_of_n x.b_version) (hex_of_n x.b_refid)
                    (hex_of_n x.b_timescale) (hex_of_n x.b_ept) (hex_of_n x.b_first_offset)
                    (S.concat "+" (L.map (fun r -> Printf.sprintf "%d:%s:%s" (int_of_n r.r_type)
                                              (hex_of_n r.r_size) (hex_of_n r.r_dur)) x.b_refs))
                    (S.concat "+" (L.map (fun r -> let (t, sz) = dec_ref_word (enc_ref_word r) in
                                           Printf.sprintf "%d:%s:%s" (int_of_n t) (hex_of_n sz) (hex_of_n (u32 r.r_dur))) x.b_refs)))
             | Err -> "err" | Panic -> "panic" | OutOfFuel -> "fuel")
          | r -> "decode-" ^ class_string r in
        if m = obs then Printf.printf "OK %s\n" id
        else Printf.printf "MISMATCH %s update_sidx_big model=%s\n" id m
      | ["R"; id; fl; boxes; minfo; obs] ->
        (* decode + File.Encode at byte level (C12Bytes): boxes that carry their bytes are re-encoded through C01's
           box model (C12C01Model.c01_reenc); a box without bytes is an opaque byte string that encodes to itself *)
        let (bs, classes) = parse_boxes boxes in
        let infos = Array.of_list (L.mapi (fun i s ->
            if s = "-" then { bi_in = [n_of_int (i + 1000)]; bi_enc = [n_of_int (i + 1000)]; bi_doff = None }
            else match split_on ':' s with
              | [p; h] -> let b = bytes_of_hex h in
                (* what Box.Encode writes for the decoded box: C01's model of DecodeBoxSR + Encode on these bytes *)
                { bi_in = b; bi_enc = C12C01Model.c01_reenc b; bi_doff = (if p = "-" then None else Some (n_of_hex p)) }
              | _ -> failwith "bad moof info") (split_nonempty ';' (if minfo = "-" then "" else minfo))) in
        let env t = infos.(int_of_n t) in
        let m =
          match assemble (opts_of fl) bs with
          | Ok f ->
            if not f.f_fragmented then "ok:" ^ S.concat "," (L.map (fun b -> string_of_int classes.(int_of_n b.b_tag)) f.f_children)
            else
            (match file_bytes env f, encode_segment_mode f with
             | Ok bl, Ok boxes ->
               "ok:" ^ S.concat "," (L.map2 (fun by b ->
                   if by = (env b.b_tag).bi_in then string_of_int classes.(int_of_n b.b_tag)
                   else "X:" ^ hex_of_bytes by) bl boxes)
             | Err, _ | _, Err -> "err" | Panic, _ | _, Panic -> "panic" | _ -> "fuel")
          | r -> "decode-" ^ class_string r in
        if m = obs then Printf.printf "OK %s\n" id
        else Printf.printf "MISMATCH %s reencode model=%s\n" id (if S.length m > 300 then S.sub m 0 300 else m)
      | _ -> Printf.printf "BADLINE %s\n" (if S.length line > 200 then S.sub line 0 200 else line))
