(* vx.ml — shared glue for the model drivers (trusted, hand-written).
   Converts between text (decimal for small ints, hex for big numbers / byte strings)
   and the extracted Coq datatypes (BinNums.positive / coq_N / coq_Z, Datatypes.nat).
   Only ExtrOcamlBasic mappings are in force: list/bool/option/prod/unit are OCaml's. *)
open BinNums

module L = Stdlib.List
module S = Stdlib.String

(* ---- positive / N / Z from and to OCaml int (63-bit; use hex for bigger) ---- *)
let rec pos_of_int (i : int) : positive =
  if i <= 1 then Coq_xH
  else if i land 1 = 1 then Coq_xI (pos_of_int (i lsr 1))
  else Coq_xO (pos_of_int (i lsr 1))

let n_of_int (i : int) : coq_N = if i <= 0 then N0 else Npos (pos_of_int i)

let rec int_of_pos (p : positive) : int =
  match p with
  | Coq_xH -> 1
  | Coq_xO q -> 2 * int_of_pos q
  | Coq_xI q -> 2 * int_of_pos q + 1

let int_of_n (n : coq_N) : int = match n with N0 -> 0 | Npos p -> int_of_pos p

let z_of_int (i : int) : coq_Z =
  if i = 0 then Z0 else if i > 0 then Zpos (pos_of_int i) else Zneg (pos_of_int (- i))

let int_of_z (z : coq_Z) : int =
  match z with Z0 -> 0 | Zpos p -> int_of_pos p | Zneg p -> - (int_of_pos p)

let rec nat_of_int (i : int) : Datatypes.nat =
  if i <= 0 then Datatypes.O else Datatypes.S (nat_of_int (i - 1))

let int_of_nat (n : Datatypes.nat) : int =
  let rec go acc = function Datatypes.O -> acc | Datatypes.S m -> go (acc + 1) m in
  go 0 n

(* ---- arbitrary-size numbers as hex strings (most significant digit first) ---- *)
let hexval c =
  match c with
  | '0' .. '9' -> Char.code c - 48
  | 'a' .. 'f' -> Char.code c - 87
  | 'A' .. 'F' -> Char.code c - 55
  | _ -> failwith "bad hex digit"

(* bits, least significant first *)
let bits_of_hex (s : string) : bool list =
  let acc = ref [] in
  S.iter (fun c ->
      let v = hexval c in
      (* prepend so that after the loop the list is LSB first *)
      acc := ((v land 1) = 1) :: ((v land 2) = 2) :: ((v land 4) = 4) :: ((v land 8) = 8) :: !acc)
    s;
  !acc

let n_of_hex (s : string) : coq_N =
  (* build from MSB side: fold over digits *)
  let rec build (bits_msb_first : bool list) (acc : positive option) : positive option =
    match bits_msb_first with
    | [] -> acc
    | b :: t ->
      let acc' =
        match acc with
        | None -> if b then Some Coq_xH else None
        | Some p -> Some (if b then Coq_xI p else Coq_xO p)
      in
      build t acc'
  in
  let lsb_first = bits_of_hex s in
  match build (L.rev lsb_first) None with None -> N0 | Some p -> Npos p

let hex_of_n (n : coq_N) : string =
  match n with
  | N0 -> "0"
  | Npos p ->
    let rec bits p acc = (* LSB first list *)
      match p with
      | Coq_xH -> L.rev (true :: acc)
      | Coq_xO q -> bits q (false :: acc)
      | Coq_xI q -> bits q (true :: acc)
    in
    let lsb = bits p [] in
    let rec digits l acc =
      match l with
      | [] -> acc
      | _ ->
        let take k l = let rec go k l a = if k = 0 then (L.rev a, l) else
                           match l with [] -> (L.rev a, []) | x :: t -> go (k-1) t (x :: a) in go k l [] in
        let (d, rest) = take 4 l in
        let v = L.fold_left (fun (a, w) b -> ((if b then a + w else a), w * 2)) (0, 1) d |> fst in
        digits rest ("0123456789abcdef".[v] :: acc)
    in
    let ds = digits lsb [] in
    S.init (L.length ds) (fun i -> L.nth ds i)

let z_of_hex (s : string) : coq_Z =
  if S.length s > 0 && s.[0] = '-' then
    (match n_of_hex (S.sub s 1 (S.length s - 1)) with N0 -> Z0 | Npos p -> Zneg p)
  else (match n_of_hex s with N0 -> Z0 | Npos p -> Zpos p)

let hex_of_z (z : coq_Z) : string =
  match z with Z0 -> "0" | Zpos p -> hex_of_n (Npos p) | Zneg p -> "-" ^ hex_of_n (Npos p)

(* ---- byte strings: "-" is the empty string, otherwise 2 hex digits per byte ---- *)
let small_n : coq_N array = Array.init 256 n_of_int

let bytes_of_hex (s : string) : coq_N list =
  if s = "-" || s = "" then []
  else begin
    let n = S.length s / 2 in
    let rec go i acc =
      if i < 0 then acc
      else go (i - 1) (small_n.(hexval s.[2*i] * 16 + hexval s.[2*i+1]) :: acc)
    in
    go (n - 1) []
  end

let hex_of_bytes (l : coq_N list) : string =
  match l with
  | [] -> "-"
  | _ ->
    let b = Buffer.create 64 in
    L.iter (fun x -> Buffer.add_string b (Printf.sprintf "%02x" ((int_of_n x) land 255))) l;
    Buffer.contents b

(* ---- line protocol helpers ---- *)
let split_on c s = S.split_on_char c s

let ints_of_csv (s : string) : int list =
  if s = "-" || s = "" then [] else L.map int_of_string (split_on ',' s)

let csv_of_ints (l : int list) : string =
  match l with [] -> "-" | _ -> S.concat "," (L.map string_of_int l)

let iter_lines (f : string -> unit) : unit =
  (try
     while true do
       let line = input_line stdin in
       if line <> "" then f line
     done
   with End_of_file -> ());
  flush stdout
