(* Driver for the aggregate model of C02 (coq/c02/C02AggModel.v): reads the case lines of `c02 corr`
     A <id> <kind> <tokens> <ops> <observations>
   rebuilds the structure, runs the history on the extracted model and prints
     "OK <id> <kind> wf=<0|1>"  or  "MISMATCH <id> model=<observations of the model>"
   (wf: the boolean hypothesis of the aggregate theorems -- afrag_wf / aseg_wf / obs_wf / afile_wf, senc_ok -- evaluated by the
   extracted C02AggWfModel on the structure of the case as handed over, before the history). *)
open BinNums
open Vx
open C05Model
open C05FragModel
open C02AggModel
open C02AggSencModel
open C02AggCapModel
open C02AggWfModel

let hexn s = n_of_hex s
let hn n = hex_of_n n
let hz z = hex_of_z z

(* ---- token stream *)
type ts = { toks : string array; mutable pos : int }
let next t = let x = t.toks.(t.pos) in t.pos <- t.pos + 1; x
let nint t = int_of_string (next t)
let nbool t = (next t = "1")
let nn t = hexn (next t)
let rec times k f = if k <= 0 then [] else let x = f () in x :: times (k - 1) f

(* opaque boxes that break the model's assumption (Encode succeeds but does not write Size() bytes with a
   correct size field, Size() taken before the box was first encoded) *)
let bad_oboxes : string list ref = ref []

let p_obox_body t : obox =
  let ty = bytes_of_hex (next t) in
  let sz = nn t in
  let by = bytes_of_hex (next t) in
  let e = nbool t in
  let o = { ob_type = ty; ob_size = sz; ob_bytes = by; ob_err = e } in
  if not e && not (ob_wf o) then
    bad_oboxes := Printf.sprintf "%s:Size()=%s,written=%x" (S.concat "" (L.map (fun x -> S.make 1 (Char.chr ((int_of_n x) land 255))) ty))
        (hn sz) (L.length by) :: !bad_oboxes;
  o

let p_obox t : obox =
  match next t with "O" -> p_obox_body t | x -> failwith ("expected O, got " ^ x)

let p_tfhd t : tfhd =
  let f = nn t in let tk = nn t in let bdo = nn t in let sdi = nn t in
  let dd = nn t in let ds = nn t in let df = nn t in
  { tf_flags = f; tf_track = tk; tf_bdo = bdo; tf_sdi = sdi; tf_ddur = dd; tf_dsize = ds; tf_dflags = df }

let p_trun t : trun =
  let v = nn t in let f = nn t in let d = z_of_hex (next t) in let fsf = nn t in let won = nn t in
  let n = nint t in
  let ss = times n (fun () ->
      let fl = nn t in let du = nn t in let sz = nn t in let c = z_of_hex (next t) in
      { s_flags = fl; s_dur = du; s_size = sz; s_cto = c }) in
  { tr_version = v; tr_flags = f; tr_doff = d; tr_fsf = fsf; tr_samples = ss; tr_won = won }

let p_tchild t : tchild =
  match next t with
  | "h" -> TcTfhd (p_tfhd t)
  | "d" -> let v = nn t in let b = nn t in TcTfdt { td_version = v; td_base = b }
  | "r" -> TcTrun (p_trun t)
  | "O" -> TcOther (p_obox_body t)
  | x -> failwith ("bad traf child " ^ x)

let p_moof t : mchild list =
  let n = nint t in
  times n (fun () ->
      match next t with
      | "H" -> McMfhd (nn t)
      | "T" -> let k = nint t in McTraf (times k (fun () -> p_tchild t))
      | "O" -> McOther (p_obox_body t)
      | x -> failwith ("bad moof child " ^ x))

let p_mdat t : mdat =
  let data = bytes_of_hex (next t) in
  let np = nint t in
  let parts = times np (fun () -> bytes_of_hex (next t)) in
  let lz = nn t in
  let large = nbool t in
  { md_data = data; md_parts = parts; md_lazy = lz; md_large = large }

let p_frag t : afrag =
  (match next t with "F" -> () | x -> failwith ("expected F, got " ^ x));
  let opt = nbool t in
  let npre = nint t in
  let pre = times npre (fun () -> p_obox t) in
  let moof = if nbool t then Some (p_moof t) else None in
  let nmid = nint t in
  let mid = times nmid (fun () -> p_obox t) in
  let md = if nbool t then Some (p_mdat t) else None in
  let npost = nint t in
  let post = times npost (fun () -> p_obox t) in
  { af_pre = pre; af_moof = moof; af_mid = mid; af_mdat = md; af_post = post; af_opt = opt }

let p_seg t : aseg =
  (match next t with "S" -> () | x -> failwith ("expected S, got " ^ x));
  let opt = nbool t in
  let styp = if nbool t then Some (p_obox t) else None in
  let ns = nint t in
  let sidxs = times ns (fun () -> p_obox t) in
  let nf = nint t in
  let frags = times nf (fun () -> p_frag t) in
  { sg_styp = styp; sg_sidxs = sidxs; sg_frags = frags; sg_opt = opt }

let p_init t : obox list =
  let n = nint t in times n (fun () -> p_obox t)

let p_file t : afile =
  (match next t with "L" -> () | x -> failwith ("expected L, got " ^ x));
  let fragm = nbool t in
  let mode = n_of_int (nint t) in
  let opt = nbool t in
  let shared = nbool t in
  let init = if nbool t then Some (p_init t) else None in
  let ns = nint t in
  let sidxs = times ns (fun () -> p_obox t) in
  let nseg = nint t in
  let segs = times nseg (fun () -> p_seg t) in
  let mfra = if nbool t then Some (p_obox t) else None in
  let nc = nint t in
  let cs = times nc (fun () ->
      match next t with
      | "M" -> FcMoof (p_moof t)
      | "D" -> FcMdat (p_mdat t)
      | "O" -> FcOther (p_obox_body t)
      | x -> failwith ("bad file child " ^ x)) in
  { fl_fragmented = fragm; fl_mode = mode; fl_opt = opt; fl_shared = shared; fl_init = init; fl_sidxs = sidxs; fl_segs = segs;
    fl_mfra = mfra; fl_children = cs }

(* ---- the mutated fields, in the text form of the harness *)
let dig_moof b (m : mchild list) =
  L.iter (fun c ->
      match c with
      | McTraf tr ->
        Buffer.add_string b "T(";
        L.iter (fun tc ->
            match tc with
            | TcTfhd h -> Buffer.add_string b (Printf.sprintf "h%s,%s,%s,%s;" (hn h.tf_flags) (hn h.tf_ddur) (hn h.tf_dsize) (hn h.tf_dflags))
            | TcTrun r -> Buffer.add_string b (Printf.sprintf "r%s,%s,%s;" (hn r.tr_flags) (hz r.tr_doff) (hn r.tr_fsf))
            | _ -> ()) tr;
        Buffer.add_string b ")"
      | _ -> ()) m

let dig_mdat b (m : mdat option) =
  match m with
  | None -> Buffer.add_string b "-"
  | Some m -> Buffer.add_string b (if m.md_large then "D1" else "D0")

let dig_frag b (f : afrag) =
  Buffer.add_string b (if f.af_opt then "F1[" else "F0[");
  (match f.af_moof with None -> Buffer.add_string b "-" | Some m -> dig_moof b m);
  Buffer.add_string b "]";
  dig_mdat b f.af_mdat

let dig_seg b (s : aseg) =
  Buffer.add_string b (if s.sg_opt then "S1" else "S0");
  L.iter (dig_frag b) s.sg_frags

let dig_file b (f : afile) =
  if afile_seg_mode f then begin
    Buffer.add_string b "L"; L.iter (dig_seg b) f.fl_segs
  end else begin
    Buffer.add_string b "C";
    L.iter (fun c ->
        match c with
        | FcMoof m -> Buffer.add_string b "["; dig_moof b m; Buffer.add_string b "]"
        | FcMdat m -> dig_mdat b (Some m)
        | FcOther _ -> ()) f.fl_children
  end

(* ---- outcome *)
let string_of_bytes (l : coq_N list) : string =
  let b = Buffer.create 1024 in
  L.iter (fun x -> Buffer.add_char b (Char.chr ((int_of_n x) land 255))) l;
  Buffer.contents b

let be32_at s p = (Char.code s.[p] lsl 24) lor (Char.code s.[p+1] lsl 16) lor (Char.code s.[p+2] lsl 8) lor Char.code s.[p+3]

(* the scanner of the harness: lengths of the top-level boxes according to the size fields *)
let top_lens (s : string) : int list option =
  let n = S.length s in
  let rec go pos acc =
    if pos >= n then Some (L.rev acc)
    else if n - pos < 8 then None
    else begin
      let sz = be32_at s pos in
      if sz = 1 then begin
        if n - pos < 16 then None
        else begin
          let hi = be32_at s (pos + 8) and lo = be32_at s (pos + 12) in
          if hi >= 0x40000000 then None
          else
            let sz = (hi lsl 32) lor lo in
            if sz < 16 || sz > n - pos then None else go (pos + sz) (sz :: acc)
        end
      end
      else if sz < 8 || sz > n - pos then None
      else go (pos + sz) (sz :: acc)
    end
  in go 0 []

exception Inconsistent of string

let out_string (lazy_data : bool) (o : aout) : string =
  match o with
  | OutSize n -> "S" ^ hn n
  | OutInfo -> "I"
  | OutErr -> "E"
  | OutPanic -> "P"
  | OutBytes boxes ->
    let strs = L.map string_of_bytes boxes in
    let s = S.concat "" strs in
    let lens =
      match top_lens s with
      | None -> "X"
      | Some [] -> "-"
      | Some l ->
        (* the box boundaries the model claims must be the ones a reader finds *)
        if not lazy_data && l <> L.map S.length strs then raise (Inconsistent "model box list differs from the size fields of its output");
        S.concat "," (L.map (Printf.sprintf "%x") l) in
    Printf.sprintf "B%x:%s:%s" (S.length s) (Digest.to_hex (Digest.string s)) lens

let op_of_char c =
  match c with
  | 's' -> OpSize | 'i' -> OpInfo | 'e' -> OpEncode | 'w' -> OpEncodeSW
  | _ -> failwith "bad op"

(* sized writers: a = exactly Size(), b = Size()+1, c = Size()+64, d = 2*Size() (the harness takes Size() first) *)
let sized_of_char c =
  match c with
  | 'a' -> Some (n_of_int 1, n_of_int 0) | 'b' -> Some (n_of_int 1, n_of_int 1)
  | 'c' -> Some (n_of_int 1, n_of_int 64) | 'd' -> Some (n_of_int 2, n_of_int 0)
  | _ -> None

(* the harness does not allocate writers above this capacity: the operation is then Size() alone *)
let cap_limit = 1 lsl 26

(* one history, state by state *)
let history (type s) (step : s -> xop -> s * aout) (dig : Buffer.t -> s -> unit) (lz : s -> bool) (s0 : s) (ops : string) : string =
  let st = ref s0 in
  let obs = ref [] in
  (try
     S.iter (fun c ->
         let (s', o) =
           match sized_of_char c with
           | None -> step !st (XOp (op_of_char c))
           | Some (mul, add) ->
             let (s1, o1) = step !st (XOp OpSize) in
             (match o1 with
              | OutSize n when (try int_of_n mul * int_of_n n + int_of_n add > cap_limit with _ -> true) -> (s1, o1)
              | _ -> step !st (XSizedSW (mul, add))) in
         st := s';
         match o with
         | OutPanic -> obs := "P" :: !obs; raise Exit
         | _ ->
           let b = Buffer.create 256 in
           dig b s';
           obs := (out_string (lz s0) o ^ "/" ^ Buffer.contents b) :: !obs) ops
   with Exit -> ());
  S.concat " " (L.rev !obs)

(* is there an mdat whose data the caller writes separately (lazyDataSize > 0)? then the size fields of the
   output need not tile it *)
let lz_md (m : mdat) = m.md_lazy <> N0
let lz_frag (f : afrag) = match f.af_mdat with Some m -> lz_md m | None -> false
let lz_seg (s : aseg) = L.exists lz_frag s.sg_frags
let lz_file (f : afile) =
  L.exists lz_seg f.fl_segs || L.exists (fun c -> match c with FcMdat m -> lz_md m | _ -> false) f.fl_children

(* ---- senc boxes *)
let p_subs t n = times n (fun () -> let c = nn t in let p = nn t in (c, p))

(* H n (iv nsub (clear prot)* )* : a history of AddSample from CreateSencBox; returns the box and the outcomes *)
let p_senc t : senc * string =
  match next t with
  | "H" ->
    let k = nint t in
    let s = ref senc_create in
    let oc = Buffer.create 8 in
    for _ = 1 to k do
      let iv = bytes_of_hex (next t) in
      let ns = nint t in
      let subs = p_subs t ns in
      (match senc_add !s iv subs with
       | Base.Ok s' -> s := s'; Buffer.add_char oc 'o'
       | Base.Err -> Buffer.add_char oc 'e'
       | _ -> Buffer.add_char oc 'p')
    done;
    (!s, if k = 0 then "-" else Buffer.contents oc)
  | "D" ->
    let v = nn t in let f = nn t in let c = nn t in let ivs = nn t in
    let ni = nint t in
    let ivl = times ni (fun () -> bytes_of_hex (next t)) in
    let nl = nint t in
    let subs = times nl (fun () -> let n = nint t in p_subs t n) in
    let np = nbool t in
    let raw = bytes_of_hex (next t) in
    let rd = nn t in
    ({ sn_version = v; sn_flags = f; sn_count = c; sn_ivsize = ivs; sn_ivs = ivl; sn_subs = subs; sn_raw = raw; sn_np = np; sn_read = rd }, "-")
  | x -> failwith ("bad senc form " ^ x)

(* the state a history step leaves: flags, and what the second decoding phase sets *)
let senc_dig (s : senc) : string =
  Printf.sprintf "%s.%s.%d.%d.%d" (hn s.sn_flags) (hn s.sn_ivsize) (L.length s.sn_ivs) (L.length s.sn_subs) (if s.sn_np then 1 else 0)

let senc_history (s0 : senc) (ops : string) : string =
  let st = ref s0 in
  let obs = ref [] in
  let bytes_obs l = let s = string_of_bytes l in Printf.sprintf "B%x:%s" (S.length s) (Digest.to_hex (Digest.string s)) in
  (try
     S.iter (fun c ->
         let o =
           match c with
           | 's' -> (match senc_size !st with Base.Ok n -> "S" ^ hn n | _ -> "P")
           | 'i' -> (match senc_info !st with Base.Ok s' -> st := s'; "I" | _ -> "P")
           | 'e' | 'w' ->
             let (s', r) = if c = 'e' then senc_encode_w !st else senc_encode_sw !st in
             st := s';
             (match r with Base.Ok b -> bytes_obs b | Base.Err -> "E" | _ -> "P")
           | _ -> failwith "bad op" in
         if o = "P" then (obs := "P" :: !obs; raise Exit)
         else obs := (o ^ "/" ^ senc_dig !st) :: !obs) ops
   with Exit -> ());
  S.concat " " (L.rev !obs)

(* a decoded senc: header size, header length, payload, then the second phase: x = none, else the perSampleIVSize
   handed to ParseReadBox; observations: decode outcome, parse outcome + state, then the history *)
let senc_decoded (hsize : coq_N) (hlen : coq_N) (payload : coq_N list) (piv : string) (ops : string) : string =
  match senc_decode hsize hlen payload with
  | Base.Ok s ->
    let (s1, pobs) =
      if piv = "x" then (s, "-")
      else
        let (s', r) = senc_parse s (hexn piv) in
        (s', (match r with Base.Ok _ -> "o" | Base.Err -> "e" | _ -> "p") ^ "/" ^ senc_dig s') in
    if S.length pobs > 0 && pobs.[0] = 'p' then "D " ^ "p"
    else "D " ^ pobs ^ " " ^ senc_history s1 ops
  | _ -> "E"

let () =
  iter_lines (fun line ->
      match split_on '\t' line with
      | ["A"; id; kind; toks; ops; obs] ->
        let t = { toks = Array.of_list (L.filter (fun x -> x <> "") (split_on ' ' toks)); pos = 0 } in
        bad_oboxes := [];
        let wf = ref false in
        let m =
          try
            (match kind with
             | "frag" -> let x = p_frag t in wf := x_afrag_wf x; history afrag_xstep dig_frag lz_frag x ops
             | "seg" -> let x = p_seg t in wf := x_aseg_wf x; history aseg_xstep dig_seg lz_seg x ops
             | "init" -> let x = p_init t in wf := x_obs_wf x;
               history ainit_xstep (fun b _ -> Buffer.add_string b "I") (fun _ -> false) x ops
             | "file" -> let x = p_file t in wf := x_afile_wf x; history afile_xstep dig_file lz_file x ops
             | _ -> failwith "bad kind")
          with Inconsistent w -> "INCONSISTENT " ^ w in
        if t.pos <> Array.length t.toks && not (S.length m > 12 && S.sub m 0 12 = "INCONSISTENT") then
          Printf.printf "MISMATCH %s driver: %d tokens left\n" id (Array.length t.toks - t.pos)
        else if !bad_oboxes <> [] then
          Printf.printf "MISMATCH %s opaque box not stateless / Size() vs bytes written: %s\n" id (S.concat " " (L.rev !bad_oboxes))
        else if m = obs then Printf.printf "OK %s %s wf=%d\n" id kind (if !wf then 1 else 0)
        else Printf.printf "MISMATCH %s model=%s\n" id m
      | ["A"; id; "sencd"; hsize; hlen; payload; piv; ops; obs] ->
        let m = senc_decoded (hexn hsize) (hexn hlen) (bytes_of_hex payload) piv ops in
        if m = obs then Printf.printf "OK %s sencd\n" id
        else Printf.printf "MISMATCH %s model=%s\n" id m
      | ["A"; id; "senc"; toks; ops; addobs; obs] ->
        let t = { toks = Array.of_list (L.filter (fun x -> x <> "") (split_on ' ' toks)); pos = 0 } in
        let (s, oc) = p_senc t in
        let m = senc_history s ops in
        if oc = addobs && m = obs then Printf.printf "OK %s senc wf=%d\n" id (if x_senc_ok s then 1 else 0)
        else Printf.printf "MISMATCH %s model=%s %s\n" id oc m
      | _ -> Printf.printf "MISMATCH ? bad line\n")
