(* Driver for the C08 model: reads the harness's case lines, recomputes the observables with the
   extracted model, prints one line per case: "OK <id>" or "MISMATCH <id> <what> <model>".
   F lines set the context (file, reader behaviour, the two model-decoded mdat boxes). *)
open BinNums
open Vx
open C08Model

let file : coq_N list ref = ref []
let zeof = ref false
let mm : mdat option ref = ref None
let ml : mdat option ref = ref None
let tb : stbl ref = ref { sample_sizes = []; uniform_size = N0; chunk_offsets = [] }

let b2s b = if b then "1" else "0"

let name_string (l : coq_N list) : string =
  if l = [] then "-" else S.concat "" (L.map (fun x -> Printf.sprintf "%02x" (int_of_n x)) l)

let top_string (r : topbox list Base.res) : string =
  match r with
  | Base.Ok [] -> "o:-"
  | Base.Ok l ->
    "o:" ^ S.concat ";" (L.map (fun t -> match t with
        | TBox (name, sp, size) -> Printf.sprintf "%s:%s:%s" (name_string name) (hex_of_n sp) (hex_of_n size)
        | TMdat (m, size) -> Printf.sprintf "6d646174:%s:%s:%s:%s:%d:%s" (hex_of_n m.coq_StartPos) (hex_of_n size)
                               (hex_of_n m.coq_StartPos) (b2s m.coq_LargeSize) (L.length m.coq_Data) (hex_of_n m.lazyDataSize)) l)
  | Base.Err -> "e"
  | Base.Panic -> "p"
  | Base.OutOfFuel -> "FUEL"

let parse_tops (s : string) : C08Spec.boxdesc list =
  L.map (fun d -> match split_on ':' d with
      | [name; large; plen] ->
        { C08Spec.bname = L.map (fun c -> n_of_int (Char.code c)) (L.init (S.length name) (S.get name));
          C08Spec.blarge = (large = "1"); C08Spec.bplen = n_of_int (int_of_string plen) }
      | _ -> failwith "bad top") (split_on ';' s)

let parse_chunks (s : string) : chunk list =
  if s = "-" then []
  else L.map (fun c -> match split_on ':' c with
      | [a; b; c] -> { cnr = n_of_int (int_of_string a); cstart = n_of_int (int_of_string b); cn = n_of_int (int_of_string c) }
      | _ -> failwith "bad chunk") (split_on ';' s)

let orc_of s = L.map n_of_int (ints_of_csv s)

let dec_string (lazy_ : bool) (start_pos : int) (orc : coq_N list) : string * mdat option =
  let r = { rpos = n_of_int start_pos; rorc = orc } in
  match decode_box_mdat lazy_ !file !zeof (n_of_int start_pos) r with
  | RfOk (m, r') ->
    let (sz, _) = mdat_size m in
    (Printf.sprintf "o:%d:%s:%d:%s:%s:%s" (int_of_n m.coq_StartPos) (b2s m.coq_LargeSize)
       (L.length m.coq_Data) (hex_of_n m.lazyDataSize) (hex_of_n sz) (hex_of_n r'.rpos), Some m)
  | RfEOF -> ("E", None)
  | RfErr -> ("e", None)
  | RfFuel -> ("FUEL", None)

let res_string (r : coq_N list Base.res) : string =
  match r with
  | Base.Ok l -> "o:" ^ hex_of_bytes l
  | Base.Err -> "e"
  | Base.Panic -> "p"
  | Base.OutOfFuel -> "FUEL"

let bytes_of_res (s : string) : coq_N list option =
  if S.length s >= 2 && S.sub s 0 2 = "o:" then
    (let h = S.sub s 2 (S.length s - 2) in Some (if h = "-" then [] else bytes_of_hex h))
  else None

(* ---- C08FragModel: the File built by DecodeFile ---- *)
let key_string (m : mdat) : string =
  let ((((sp, large), size), pao), psz) = C08FragModel.mkey m in
  Printf.sprintf "%s.%s.%s.%s.%s.%s" (hex_of_n sp) (b2s large) (hex_of_n size) (hex_of_n pao) (hex_of_n psz)
    (b2s (C08FragModel.mdat_is_lazy m))

let opt_string f = function None -> "-" | Some x -> f x

let child_string (b : mdat C08FragModel.tbox) : string =
  match b with C08FragModel.XBox (n, _, _) -> name_string n | C08FragModel.XMdat (_, _) -> "6d646174"

let state_string (r : mdat C08FragModel.fstate Base.res) : string =
  let open C08FragModel in
  match r with
  | Base.Err -> "e" | Base.Panic -> "p" | Base.OutOfFuel -> "FUEL"
  | Base.Ok s0 ->
    let s = fin_state s0 in
    let frag_s (f : mdat frag) =
      Printf.sprintf "%s,%s,%s,%s,%s" (hex_of_n f.fr_start) (opt_string hex_of_n f.fr_moof)
        (opt_string key_string f.fr_mdat) (hex_of_n f.fr_emsgs) (S.concat "+" (L.map child_string f.fr_children)) in
    let seg_s (g : mdat seg) =
      Printf.sprintf "%s,%s,%s[%s]" (b2s g.sg_styp) (hex_of_n g.sg_start) (hex_of_n g.sg_sidxs)
        (S.concat "/" (L.map frag_s g.sg_frags)) in
    Printf.sprintf "o:F%s|I%s|M%s|X%d|R%s|C%d|S%s" (b2s s.fs_frag)
      (opt_string (fun l -> S.concat "+" (L.map name_string l)) s.fs_init)
      (opt_string key_string s.fs_mdat) (L.length s.fs_sidxs) (b2s s.fs_mfra) (L.length s.fs_children)
      (S.concat ";" (L.map seg_s s.fs_segs))

let parse_aux (s : string) : coq_N -> C08FragModel.aux =
  let tbl = if s = "-" then [] else
      L.map (fun e -> match split_on ':' e with
          | [pos; "M"; n] -> (n_of_hex pos, C08FragModel.AMoov (if n = "-" then None else Some (n_of_int (int_of_string n))))
          | [pos; "S"; anchor; refs] ->
            let rl = if refs = "" || refs = "-" then [] else
                L.map (fun r -> match split_on '.' r with
                    | [t; z] -> (t = "1", n_of_hex z)
                    | _ -> failwith "bad ref") (split_on ',' refs) in
            (n_of_hex pos, C08FragModel.ASidx (n_of_hex anchor, rl))
          | _ -> failwith "bad aux") (split_on ';' s) in
  fun p -> match L.assoc_opt p tbl with Some a -> a | None -> C08FragModel.ANone

let () =
  iter_lines (fun line ->
      match split_on '\t' line with
      | ["F"; id; filehex; sp; z; orc; memdec; lazydec] ->
        file := bytes_of_hex filehex;
        zeof := (z = "1");
        let sp = int_of_string sp in
        let (s1, m1) = dec_string false sp (orc_of orc) in
        let (s2, m2) = dec_string true sp (orc_of orc) in
        mm := m1; ml := m2;
        if s1 = memdec && s2 = lazydec then Printf.printf "OK %s\n" id
        else Printf.printf "MISMATCH %s decode model_mem=%s model_lazy=%s\n" id s1 s2
      | ["R"; id; start; size; orc; mr; lr; mc; lc] ->
        (match !mm, !ml with
         | Some m1, Some m2 ->
           let st = z_of_int (int_of_string start) and sz = z_of_int (int_of_string size) in
           let rs () = Some { rpos = n_of_int 0; rorc = orc_of orc } in
           let a = res_string (read_data true !file !zeof m1 st sz (rs ())) in
           let b = res_string (read_data true !file !zeof m2 st sz (rs ())) in
           let c = res_string (copy_data true !file !zeof m1 st sz (rs ())) in
           let d = res_string (copy_data true !file !zeof m2 st sz (rs ())) in
           let pl = if int_of_n m2.lazyDataSize > 0 then m2.lazyDataSize else n_of_int (L.length m1.coq_Data) in
           let hyp = C08Spec.box_in_file !file m1.coq_StartPos m1.coq_LargeSize pl
                     && C08Spec.valid_range m1.coq_StartPos m1.coq_LargeSize pl st sz in
           if a = mr && b = lr && c = mc && d = lc then Printf.printf "OK %s%s\n" id (if hyp then " H" else "")
           else Printf.printf "MISMATCH %s range model=%s|%s|%s|%s\n" id a b c d
         | _ -> Printf.printf "MISMATCH %s range no-model-context\n" id)
      | ["H"; id; lenc; menc] ->
        (match !mm, !ml with
         | Some m1, Some m2 ->
           let a = res_string (mdat_encode m2) and b = res_string (mdat_encode m1) in
           if a = lenc && b = menc then Printf.printf "OK %s\n" id
           else Printf.printf "MISMATCH %s encode model_lazy=%s model_mem=%s\n" id a b
         | _ -> Printf.printf "MISMATCH %s encode no-model-context\n" id)
      | ["W"; id; filehex; z; orc; tops; mt; lt] ->
        let f = bytes_of_hex filehex in
        let zf = (z = "1") in
        let fuel = nat_of_int (L.length f / 8 + 4) in
        let r () = { rpos = n_of_int 0; rorc = orc_of orc } in
        let a = top_string (decode_file_top fuel false f zf (n_of_int 0) (r ())) in
        let b = top_string (decode_file_top fuel true f zf (n_of_int 0) (r ())) in
        let hyp = tops <> "-" && C08Spec.layout_at f (n_of_int 0) (parse_tops tops) in
        if a <> mt || b <> lt then Printf.printf "MISMATCH %s walk model_mem=%s model_lazy=%s\n" id a b
        else if tops <> "-" && not hyp then Printf.printf "MISMATCH %s walk layout_at-false-on-generated-file\n" id
        else Printf.printf "OK %s%s\n" id (if hyp then " H" else "")
      | ["M"; id; filehex; z; orc; ms; ls] ->
        (* File.Mdat selection of a progressive file in both modes (C08SelModel) *)
        let f = bytes_of_hex filehex in
        let zf = (z = "1") in
        let fuel = nat_of_int (L.length f / 8 + 4) in
        let r () = { rpos = n_of_int 0; rorc = orc_of orc } in
        let sel lz = match C08SelModel.decode_file_mdat fuel lz f zf (r ()) with
          | Base.Ok None -> "o:-"
          | Base.Ok (Some m) ->
            let (((sp, large), size), pao) = C08SelModel.mdat_view m in
            Printf.sprintf "o:%s:%s:%s:%s" (hex_of_n sp) (b2s large) (hex_of_n size) (hex_of_n pao)
          | Base.Err -> "e" | Base.Panic -> "p" | Base.OutOfFuel -> "FUEL" in
        let a = sel false and b = sel true in
        if a = ms && b = ls then Printf.printf "OK %s\n" id
        else Printf.printf "MISMATCH %s file-mdat model_mem=%s model_lazy=%s\n" id a b
      | ["G"; id; filehex; z; orc; onmoof; auxs; tops; ms; ls] ->
        (* the File DecodeFile builds (segments, fragments, moof/mdat pairing) in both modes *)
        let f = bytes_of_hex filehex in
        let zf = (z = "1") in
        let fuel = nat_of_int (L.length f / 8 + 4) in
        let ax = parse_aux auxs in
        let run lz = state_string (C08FragModel.decode_file_frag fuel lz f zf (onmoof = "1") ax
                                     { rpos = n_of_int 0; rorc = orc_of orc }) in
        let a = run false and b = run true in
        let hyp = tops <> "-" && C08Spec.layout_at f (n_of_int 0) (parse_tops tops) in
        if a <> ms || b <> ls then Printf.printf "MISMATCH %s file-state model_mem=%s model_lazy=%s\n" id a b
        else if tops <> "-" && not hyp then Printf.printf "MISMATCH %s file-state layout_at-false-on-generated-file\n" id
        else Printf.printf "OK %s%s\n" id (if hyp then " H" else "")
      | ["E"; id; filehex; z; orc; tops; me; le; sp] ->
        (* File.Encode of both decodings (children in order) and the header-then-CopyData writer on the lazy one *)
        let f = bytes_of_hex filehex in
        let zf = (z = "1") in
        let fuel = nat_of_int (L.length f / 8 + 4) in
        let r () = { rpos = n_of_int 0; rorc = orc_of orc } in
        let enc lz = match decode_file_top fuel lz f zf (n_of_int 0) (r ()) with
          | Base.Ok t -> res_string (C08EncModel.encode_tops f t)
          | Base.Err -> "e" | Base.Panic -> "p" | Base.OutOfFuel -> "FUEL" in
        let spl = match decode_file_top fuel true f zf (n_of_int 0) (r ()) with
          | Base.Ok t -> res_string (C08EncModel.encode_tops_splice f zf (fun _ -> orc_of orc) t)
          | Base.Err -> "e" | Base.Panic -> "p" | Base.OutOfFuel -> "FUEL" in
        let a = enc false and b = enc true in
        let hyp = tops <> "-" && C08Spec.layout_at f (n_of_int 0) (parse_tops tops) in
        let el = if hyp then "o:" ^ hex_of_bytes (C08EncModel.elide f (n_of_int 0) (parse_tops tops)) else "" in
        if a <> me || b <> le || spl <> sp then Printf.printf "MISMATCH %s file-encode model_mem=%s model_lazy=%s model_splice=%s\n" id a b spl
        else if hyp && (me <> "o:" ^ filehex || le <> el || sp <> "o:" ^ filehex) then
          Printf.printf "MISMATCH %s file-encode C08_file_encode-conclusion-false-on-implementation\n" id
        else Printf.printf "OK %s%s\n" id (if hyp then " H" else "")
      | ["Q"; id; cap; pre; perr; lr; mr] ->
        (* MdatBox.EncodeSW of both boxes on a FixedSliceWriter of cap bytes holding pre bytes (and an earlier error) *)
        (match !mm, !ml with
         | Some m1, Some m2 ->
           let cap = int_of_string cap and pre = int_of_string pre in
           let w0 = { C08SwModel.sw_cap = n_of_int cap; C08SwModel.sw_out = L.init pre (fun _ -> n_of_int 90);
                      C08SwModel.sw_err = (perr = "1") } in
           let run m = let (ok, w) = C08SwModel.mdat_encode_sw m w0 in
             Printf.sprintf "%s:%s:%s" (if ok then "o" else "e") (hex_of_bytes w.C08SwModel.sw_out) (b2s w.C08SwModel.sw_err) in
           let a = run m2 and b = run m1 in
           (* hypotheses of C08_lazy_encode_sw on the implementation's boxes, and its conclusion on the implementation's answers *)
           let pl = if int_of_n m2.lazyDataSize > 0 then m2.lazyDataSize else n_of_int (L.length m1.coq_Data) in
           let sp = m1.coq_StartPos and lg = m1.coq_LargeSize in
           let hyp = perr = "0" && C08Spec.box_in_file !file sp lg pl && C08Spec.header_at !file sp lg pl in
           let hl = int_of_n (C08Spec.hdr_len lg) in
           let prefix = S.concat "" (L.init pre (fun _ -> "5a")) in
           let starts_e s = S.length s > 0 && s.[0] = 'e' in
           let concl () =
             (if pre + hl <= cap then lr = "o:" ^ prefix ^ hex_of_bytes (sub !file sp (n_of_int hl)) ^ ":0" else starts_e lr)
             && (if pre + hl + int_of_n pl <= cap then mr = "o:" ^ prefix ^ hex_of_bytes (sub !file sp (n_of_int (hl + int_of_n pl))) ^ ":0"
                 else starts_e mr) in
           if a <> lr || b <> mr then Printf.printf "MISMATCH %s encode-sw model_lazy=%s model_mem=%s\n" id a b
           else if hyp && not (concl ()) then Printf.printf "MISMATCH %s encode-sw C08_lazy_encode_sw-conclusion-false-on-implementation\n" id
           else Printf.printf "OK %s%s\n" id (if hyp then " H" else "")
         | _ -> Printf.printf "MISMATCH %s encode-sw no-model-context\n" id)
      | ["V"; id; filehex; z; orc; tops; cap; ms; ls] ->
        (* File.EncodeSW of both decodings into a fresh FixedSliceWriter of cap bytes *)
        let f = bytes_of_hex filehex in
        let zf = (z = "1") in
        let cap = int_of_string cap in
        let fuel = nat_of_int (L.length f / 8 + 4) in
        let r () = { rpos = n_of_int 0; rorc = orc_of orc } in
        let run lz = match decode_file_top fuel lz f zf (n_of_int 0) (r ()) with
          | Base.Ok t ->
            let (ok, w) = C08SwModel.encode_tops_sw f t (C08SwModel.sw_new (n_of_int cap)) in
            if ok then "o:" ^ hex_of_bytes w.C08SwModel.sw_out else "e"
          | Base.Err -> "e" | Base.Panic -> "p" | Base.OutOfFuel -> "FUEL" in
        let a = run false and b = run true in
        let hyp = tops <> "-" && C08Spec.layout_at f (n_of_int 0) (parse_tops tops) in
        let concl () =
          let el = C08EncModel.elide f (n_of_int 0) (parse_tops tops) in
          (if L.length f <= cap then ms = "o:" ^ filehex else ms = "e")
          && (if L.length el <= cap then ls = "o:" ^ hex_of_bytes el else ls = "e") in
        if a <> ms || b <> ls then Printf.printf "MISMATCH %s file-encode-sw model_mem=%s model_lazy=%s\n" id a b
        else if hyp && not (concl ()) then Printf.printf "MISMATCH %s file-encode-sw C08_file_encode_sw-conclusion-false-on-implementation\n" id
        else Printf.printf "OK %s%s\n" id (if hyp then " H" else "")
      | ["Z"; id; sizes; lz; enc] ->
        (* Fragment.AddSampleToTrack for each size, then Encode of the fragment's (payload-less) mdat *)
        let zs = if sizes = "-" then [] else L.map (fun x -> n_of_int (int_of_string x)) (split_on ',' sizes) in
        let total = C08SwModel.lazy_size_after zs in
        let a = hex_of_n total and b = res_string (mdat_encode (C08EncModel.mdat_for_writing (n_of_int 0) total)) in
        if a = lz && b = enc then Printf.printf "OK %s\n" id
        else Printf.printf "MISMATCH %s prepared-mdat model_lazyDataSize=%s model_encode=%s\n" id a b
      | ["L"; id; valid; a; b; wl; orc; chunks; lz; enc; lr] ->
        (* the lazy writer end to end: prepared header, then CopySampleData from the lazily decoded input *)
        (match !mm, !ml with
         | Some m1, Some m2 ->
           let a = n_of_int (int_of_string a) and b = n_of_int (int_of_string b) in
           let ws = L.init (int_of_string wl) (fun _ -> n_of_int 170) in
           let cs = parse_chunks chunks in
           let cnt = nat_of_int (int_of_n b + 1 - int_of_n a) in
           let total = C08SwModel.lazy_size_after (C08Spec.sizes_from !tb a cnt) in
           let hd = mdat_encode (C08EncModel.mdat_for_writing (n_of_int 0) total) in
           let x = hex_of_n total and y = res_string hd in
           let pr = copy_sample_data true !file !zeof m2 (Some { rpos = n_of_int 0; rorc = orc_of orc }) !tb cs a b ws in
           let z = res_string pr in
           let pl = if int_of_n m2.lazyDataSize > 0 then m2.lazyDataSize else n_of_int (L.length m1.coq_Data) in
           let hyp = C08Spec.box_in_file !file m1.coq_StartPos m1.coq_LargeSize pl
                     && C08Spec.chunks_cover a b cs
                     && C08Spec.chunks_in_payload !tb m1.coq_StartPos m1.coq_LargeSize pl cs in
           (* conclusion of C08_lazy_writer_end_to_end evaluated on the implementation's answers *)
           let concl () =
             match bytes_of_res enc, bytes_of_res lr with
             | Some h, Some p ->
               let large = int_of_n total > 4294967296 - 1 - 8 in
               let box = h @ p in
               n_of_int (L.length p) = total && lz = x
               && p = C08Spec.expected_samples !file !tb cs a b
               && C08Spec.header_at box (n_of_int 0) large total
               && C08Spec.box_in_file box (n_of_int 0) large total
               && sub box (C08Spec.hdr_len large) total = p
             | _ -> false in
           if x <> lz || y <> enc || z <> lr then Printf.printf "MISMATCH %s lazy-writer model_lazyDataSize=%s model_encode=%s model_copy=%s\n" id x y z
           else if valid = "1" && not hyp then Printf.printf "MISMATCH %s lazy-writer hypotheses-of-C08_lazy_writer_end_to_end-not-met-by-implementation-chunks\n" id
           else if hyp && not (concl ()) then Printf.printf "MISMATCH %s lazy-writer C08_lazy_writer_end_to_end-conclusion-false-on-implementation\n" id
           else Printf.printf "OK %s%s\n" id (if hyp then " H" else "")
         | _ -> Printf.printf "MISMATCH %s lazy-writer no-model-context\n" id)
      | ["P"; id; sizes; uni; offs; a; b; chunks; segs] ->
        (* positions only (sparse file beyond 4 GiB): the (offset,size) the chunk loop computes per chunk *)
        let t = { sample_sizes = L.map n_of_int (ints_of_csv sizes); uniform_size = n_of_int (int_of_string uni);
                  chunk_offsets = if offs = "" then [] else L.map n_of_hex (split_on ',' offs) } in
        let a = n_of_int (int_of_string a) and b = n_of_int (int_of_string b) in
        let cs = parse_chunks chunks in
        let n = L.length cs in
        let out = L.mapi (fun i c -> match chunk_seg t c (i = 0) (i = n - 1) a b with
            | Base.Ok (o, z) -> Printf.sprintf "%s:%s" (hex_of_n o) (hex_of_n z)
            | Base.Err -> "e" | Base.Panic -> "p" | Base.OutOfFuel -> "FUEL") cs in
        let m = S.concat ";" out in
        if m = segs then Printf.printf "OK %s\n" id else Printf.printf "MISMATCH %s segs model=%s\n" id m
      | ["T"; id; sizes; uni; offs] ->
        tb := { sample_sizes = L.map n_of_int (ints_of_csv sizes); uniform_size = n_of_int (int_of_string uni);
                chunk_offsets = L.map n_of_int (ints_of_csv offs) };
        Printf.printf "OK %s\n" id
      | ["S"; id; valid; a; b; wl; orc; chunks; mr; lr] ->
        (match !mm, !ml with
         | Some m1, Some m2 ->
           let a = n_of_int (int_of_string a) and b = n_of_int (int_of_string b) in
           let ws = L.init (int_of_string wl) (fun _ -> n_of_int 170) in
           let cs = parse_chunks chunks in
           let rs () = Some { rpos = n_of_int 0; rorc = orc_of orc } in
           let x = res_string (copy_sample_data true !file !zeof m1 (rs ()) !tb cs a b ws) in
           let y = res_string (copy_sample_data true !file !zeof m2 (rs ()) !tb cs a b ws) in
           (* hypotheses of C08_copy_samples evaluated on what the implementation produced *)
           let pl = if int_of_n m2.lazyDataSize > 0 then m2.lazyDataSize else n_of_int (L.length m1.coq_Data) in
           let hyp = C08Spec.box_in_file !file m1.coq_StartPos m1.coq_LargeSize pl
                     && C08Spec.chunks_cover a b cs
                     && C08Spec.chunks_in_payload !tb m1.coq_StartPos m1.coq_LargeSize pl cs in
           let exp = "o:" ^ hex_of_bytes (C08Spec.expected_samples !file !tb cs a b) in
           if x <> mr || y <> lr then Printf.printf "MISMATCH %s samples model_mem=%s model_lazy=%s\n" id x y
           else if valid = "1" && not hyp then Printf.printf "MISMATCH %s samples hypotheses-of-C08_copy_samples-not-met-by-implementation-chunks\n" id
           else if hyp && (exp <> mr || exp <> lr) then Printf.printf "MISMATCH %s samples expected_samples=%s\n" id exp
           else Printf.printf "OK %s%s\n" id (if hyp then " H" else "")
         | _ -> Printf.printf "MISMATCH %s samples no-model-context\n" id)
      | _ -> Printf.printf "BADLINE %s\n" line)
