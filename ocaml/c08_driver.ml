(* Driver for the C08 model: reads the harness's case lines, recomputes the observables with the
   extracted model, prints one line per case: "OK <id>" or "MISMATCH <id> <what> <model>".
   F lines set the context (file, reader behaviour, the two model-decoded mdat boxes). *)
open BinNums
open Vx
open C08Model

let file : coq_N list ref = ref []
let zeof = ref false
let mm : mdat option ref = ref None
let ml : mdat option ref = ref None
let tb : stbl ref = ref { sample_sizes = []; uniform_size = N0; chunk_offsets = [] }

let b2s b = if b then "1" else "0"

let name_string (l : coq_N list) : string =
  if l = [] then "-" else S.concat "" (L.map (fun x -> Printf.sprintf "%02x" (int_of_n x)) l)

let top_string (r : topbox list Base.res) : string =
  match r with
  | Base.Ok [] -> "o:-"
  | Base.Ok l ->
    "o:" ^ S.concat ";" (L.map (fun t -> match t with
        | TBox (name, sp, size) -> Printf.sprintf "%s:%s:%s" (name_string name) (hex_of_n sp) (hex_of_n size)
        | TMdat (m, size) -> Printf.sprintf "6d646174:%s:%s:%s:%s:%d:%s" (hex_of_n m.coq_StartPos) (hex_of_n size)
                               (hex_of_n m.coq_StartPos) (b2s m.coq_LargeSize) (L.length m.coq_Data) (hex_of_n m.lazyDataSize)) l)
  | Base.Err -> "e"
  | Base.Panic -> "p"
  | Base.OutOfFuel -> "FUEL"

let parse_tops (s : string) : C08Spec.boxdesc list =
  L.map (fun d -> match split_on ':' d with
      | [name; large; plen] ->
        { C08Spec.bname = L.map (fun c -> n_of_int (Char.code c)) (L.init (S.length name) (S.get name));
          C08Spec.blarge = (large = "1"); C08Spec.bplen = n_of_int (int_of_string plen) }
      | _ -> failwith "bad top") (split_on ';' s)

let parse_chunks (s : string) : chunk list =
  if s = "-" then []
  else L.map (fun c -> match split_on ':' c with
      | [a; b; c] -> { cnr = n_of_int (int_of_string a); cstart = n_of_int (int_of_string b); cn = n_of_int (int_of_string c) }
      | _ -> failwith "bad chunk") (split_on ';' s)

let orc_of s = L.map n_of_int (ints_of_csv s)

let dec_string (lazy_ : bool) (start_pos : int) (orc : coq_N list) : string * mdat option =
  let r = { rpos = n_of_int start_pos; rorc = orc } in
  match decode_box_mdat lazy_ !file !zeof (n_of_int start_pos) r with
  | RfOk (m, r') ->
    let (sz, _) = mdat_size m in
    (Printf.sprintf "o:%d:%s:%d:%s:%s:%s" (int_of_n m.coq_StartPos) (b2s m.coq_LargeSize)
       (L.length m.coq_Data) (hex_of_n m.lazyDataSize) (hex_of_n sz) (hex_of_n r'.rpos), Some m)
  | RfEOF -> ("E", None)
  | RfErr -> ("e", None)
  | RfFuel -> ("FUEL", None)

let res_string (r : coq_N list Base.res) : string =
  match r with
  | Base.Ok l -> "o:" ^ hex_of_bytes l
  | Base.Err -> "e"
  | Base.Panic -> "p"
  | Base.OutOfFuel -> "FUEL"

let () =
  iter_lines (fun line ->
      match split_on '\t' line with
      | ["F"; id; filehex; sp; z; orc; memdec; lazydec] ->
        file := bytes_of_hex filehex;
        zeof := (z = "1");
        let sp = int_of_string sp in
        let (s1, m1) = dec_string false sp (orc_of orc) in
        let (s2, m2) = dec_string true sp (orc_of orc) in
        mm := m1; ml := m2;
        if s1 = memdec && s2 = lazydec then Printf.printf "OK %s\n" id
        else Printf.printf "MISMATCH %s decode model_mem=%s model_lazy=%s\n" id s1 s2
      | ["R"; id; start; size; orc; mr; lr; mc; lc] ->
        (match !mm, !ml with
         | Some m1, Some m2 ->
           let st = z_of_int (int_of_string start) and sz = z_of_int (int_of_string size) in
           let rs () = Some { rpos = n_of_int 0; rorc = orc_of orc } in
           let a = res_string (read_data true !file !zeof m1 st sz (rs ())) in
           let b = res_string (read_data true !file !zeof m2 st sz (rs ())) in
           let c = res_string (copy_data true !file !zeof m1 st sz (rs ())) in
           let d = res_string (copy_data true !file !zeof m2 st sz (rs ())) in
           let pl = if int_of_n m2.lazyDataSize > 0 then m2.lazyDataSize else n_of_int (L.length m1.coq_Data) in
           let hyp = C08Spec.box_in_file !file m1.coq_StartPos m1.coq_LargeSize pl
                     && C08Spec.valid_range m1.coq_StartPos m1.coq_LargeSize pl st sz in
           if a = mr && b = lr && c = mc && d = lc then Printf.printf "OK %s%s\n" id (if hyp then " H" else "")
           else Printf.printf "MISMATCH %s range model=%s|%s|%s|%s\n" id a b c d
         | _ -> Printf.printf "MISMATCH %s range no-model-context\n" id)
      | ["H"; id; lenc; menc] ->
        (match !mm, !ml with
         | Some m1, Some m2 ->
           let a = res_string (mdat_encode m2) and b = res_string (mdat_encode m1) in
           if a = lenc && b = menc then Printf.printf "OK %s\n" id
           else Printf.printf "MISMATCH %s encode model_lazy=%s model_mem=%s\n" id a b
         | _ -> Printf.printf "MISMATCH %s encode no-model-context\n" id)
      | ["W"; id; filehex; z; orc; tops; mt; lt] ->
        let f = bytes_of_hex filehex in
        let zf = (z = "1") in
        let fuel = nat_of_int (L.length f / 8 + 4) in
        let r () = { rpos = n_of_int 0; rorc = orc_of orc } in
        let a = top_string (decode_file_top fuel false f zf (n_of_int 0) (r ())) in
        let b = top_string (decode_file_top fuel true f zf (n_of_int 0) (r ())) in
        let hyp = tops <> "-" && C08Spec.layout_at f (n_of_int 0) (parse_tops tops) in
        if a <> mt || b <> lt then Printf.printf "MISMATCH %s walk model_mem=%s model_lazy=%s\n" id a b
        else if tops <> "-" && not hyp then Printf.printf "MISMATCH %s walk layout_at-false-on-generated-file\n" id
        else Printf.printf "OK %s%s\n" id (if hyp then " H" else "")
      | ["M"; id; filehex; z; orc; ms; ls] ->
        (* File.Mdat selection of a progressive file in both modes (C08SelModel) *)
        let f = bytes_of_hex filehex in
        let zf = (z = "1") in
        let fuel = nat_of_int (L.length f / 8 + 4) in
        let r () = { rpos = n_of_int 0; rorc = orc_of orc } in
        let sel lz = match C08SelModel.decode_file_mdat fuel lz f zf (r ()) with
          | Base.Ok None -> "o:-"
          | Base.Ok (Some m) ->
            let (((sp, large), size), pao) = C08SelModel.mdat_view m in
            Printf.sprintf "o:%s:%s:%s:%s" (hex_of_n sp) (b2s large) (hex_of_n size) (hex_of_n pao)
          | Base.Err -> "e" | Base.Panic -> "p" | Base.OutOfFuel -> "FUEL" in
        let a = sel false and b = sel true in
        if a = ms && b = ls then Printf.printf "OK %s\n" id
        else Printf.printf "MISMATCH %s file-mdat model_mem=%s model_lazy=%s\n" id a b
      | ["T"; id; sizes; uni; offs] ->
        tb := { sample_sizes = L.map n_of_int (ints_of_csv sizes); uniform_size = n_of_int (int_of_string uni);
                chunk_offsets = L.map n_of_int (ints_of_csv offs) };
        Printf.printf "OK %s\n" id
      | ["S"; id; valid; a; b; wl; orc; chunks; mr; lr] ->
        (match !mm, !ml with
         | Some m1, Some m2 ->
           let a = n_of_int (int_of_string a) and b = n_of_int (int_of_string b) in
           let ws = L.init (int_of_string wl) (fun _ -> n_of_int 170) in
           let cs = parse_chunks chunks in
           let rs () = Some { rpos = n_of_int 0; rorc = orc_of orc } in
           let x = res_string (copy_sample_data true !file !zeof m1 (rs ()) !tb cs a b ws) in
           let y = res_string (copy_sample_data true !file !zeof m2 (rs ()) !tb cs a b ws) in
           (* hypotheses of C08_copy_samples evaluated on what the implementation produced *)
           let pl = if int_of_n m2.lazyDataSize > 0 then m2.lazyDataSize else n_of_int (L.length m1.coq_Data) in
           let hyp = C08Spec.box_in_file !file m1.coq_StartPos m1.coq_LargeSize pl
                     && C08Spec.chunks_cover a b cs
                     && C08Spec.chunks_in_payload !tb m1.coq_StartPos m1.coq_LargeSize pl cs in
           let exp = "o:" ^ hex_of_bytes (C08Spec.expected_samples !file !tb cs a b) in
           if x <> mr || y <> lr then Printf.printf "MISMATCH %s samples model_mem=%s model_lazy=%s\n" id x y
           else if valid = "1" && not hyp then Printf.printf "MISMATCH %s samples hypotheses-of-C08_copy_samples-not-met-by-implementation-chunks\n" id
           else if hyp && (exp <> mr || exp <> lr) then Printf.printf "MISMATCH %s samples expected_samples=%s\n" id exp
           else Printf.printf "OK %s%s\n" id (if hyp then " H" else "")
         | _ -> Printf.printf "MISMATCH %s samples no-model-context\n" id)
      | _ -> Printf.printf "BADLINE %s\n" line)
