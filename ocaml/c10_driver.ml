(* Driver for the C10 model. Input lines (harness c10 join; harness c10 files -cases for op tool):
     K <id> <op> <arg> (<stts> <ctts> <stsc> <stsz> <offsets> <stss> <sdtp>)+ <result tokens of the real routines>
   Output: "OK <id>" or "MISMATCH <id> <what> model=<..> impl=<..>". *)
open Vx
open Base
open C09Model
open C10Model
open C10FileModel
open C10TreeModel

(* decimal <-> N of any size (OCaml ints hold 62 bits only; offsets and durations are 64-bit) *)
let n10 = n_of_int 10
let n_of_dec (s : string) : BinNums.coq_N =
  if S.length s <= 17 then n_of_int (int_of_string s)
  else begin
    let acc = ref BinNums.N0 in
    S.iter (fun c -> acc := BinNat.N.add (BinNat.N.mul !acc n10) (n_of_int (Char.code c - 48))) s;
    !acc
  end
let z_of_dec (s : string) : BinNums.coq_Z = z_of_int (int_of_string s)
let n_small = n_of_int 1000000000000000000
let rec dec_of_n n =
  if BinNat.N.ltb n n_small then string_of_int (int_of_n n)
  else dec_of_n (BinNat.N.div n n10) ^ string_of_int (int_of_n (BinNat.N.modulo n n10))
let dec_of_z z = string_of_int (int_of_z z)
let csv f s = if s = "-" || s = "" then [] else L.map f (split_on ',' s)
let ncsv = csv n_of_dec
let join sep f l = match l with [] -> "-" | _ -> S.concat sep (L.map f l)
let join0 sep f l = S.concat sep (L.map f l)

exception Build_err
let get r = match r with Ok a -> a | _ -> raise Build_err

let parse_tables (f : string array) (o : int) : tables =
  let stts_c, stts_d =
    match split_on ';' f.(o) with [c; d] -> (ncsv c, ncsv d) | _ -> failwith "stts" in
  let ctts =
    match split_on ';' f.(o+1) with
    | ["N"] -> None
    | [mode; c; ofs] ->
      let cs = ncsv c and os = csv z_of_dec ofs in
      if mode = "A" then Some (get (ctts_add { ct_end = []; ct_off = [] } cs os))
      else Some (ctts_decode (L.combine cs os))
    | _ -> failwith "ctts" in
  let stsc =
    match split_on ';' f.(o+2) with
    | [mode; es] ->
      let raw = csv (fun e -> match split_on ':' e with
          | [a; b; c] -> ((n_of_dec a, n_of_dec b), n_of_dec c) | _ -> failwith "stsc entry") es in
      if mode = "A" then get (stsc_add_entries { sc_entries = []; sc_single = N0; sc_ids = [] } raw)
      else get (stsc_decode raw)
    | _ -> failwith "stsc" in
  let stsz =
    match split_on ';' f.(o+3) with
    | [u; n; s] -> { sz_uniform = n_of_dec u; sz_number = n_of_dec n; sz_sizes = ncsv s }
    | _ -> failwith "stsz" in
  let stco, co64 =
    match split_on ';' f.(o+4) with
    | ["S"; ofs] -> (Some (ncsv ofs), None)
    | ["C"; ofs] -> (None, Some (ncsv ofs))
    | ["N"; _] -> (None, None)
    | _ -> failwith "offsets" in
  let opt s = match split_on ';' s with ["N"] -> None | ["Y"; l] -> Some (ncsv l) | _ -> failwith "opt" in
  { t_stts_count = stts_c; t_stts_delta = stts_d; t_ctts = ctts; t_stsc = stsc; t_stsz = stsz;
    t_stco = stco; t_co64 = co64; t_stss = opt f.(o+5); t_sdtp = opt f.(o+6) }

let res_str (f : 'a -> string) (r : 'a res) : string =
  match r with Ok a -> f a | Err -> "err" | Panic -> "panic" | OutOfFuel -> "outoffuel"

let pinned = ref false

let offs_str (t : tables) : string =
  match t.t_stco, t.t_co64 with
  | Some l, _ -> join0 "," dec_of_n l
  | None, Some l -> join0 "," dec_of_n l
  | None, None -> "none"

let with_offsets (t : tables) (f : BinNums.coq_N -> BinNums.coq_N) : tables =
  { t with t_stco = (match t.t_stco with Some l -> Some (L.map f l) | None -> None);
           t_co64 = (match t.t_co64 with Some l -> Some (L.map f l) | None -> None) }

(* the content of the virtual input files of the test driver at position p *)
let file_byte (p : int) : BinNums.coq_N = small_n.((p * 7 + p / 3 + p / 251) mod 256)

let shift_model (tbs : tables list) swm first : string =
  if !pinned then
    "ok/" ^ S.concat "|" (L.map (fun t ->
        let d = shift_delta mdat_out_hdr swm first in
        match t.t_stco with
        | Some l -> join0 "," dec_of_n (shift_stco_pinned d l)
        | None -> (match t.t_co64 with Some l -> join0 "," dec_of_n (L.map (fun o -> Base.u64 (BinNat.N.add o d)) l) | None -> "none")) tbs)
  else
    res_str (fun l -> "ok/" ^ S.concat "|" (L.map offs_str l)) (update_chunk_offsets swm first tbs)

let groups_str (gs : BinNums.coq_N list list) : string = S.concat "|" (L.map (join0 "," dec_of_n) gs)

let hdr_model (a : string array) : string =
  let tks = L.map (fun t -> match split_on ';' t with
      | [tk; md; el] ->
        ((n_of_dec tk, n_of_dec md),
         (if el = "-" then None else Some (L.map (fun g -> if g = "" then [] else L.map n_of_dec (split_on ',' g)) (split_on '|' el))))
      | _ -> failwith "hdr track") (Array.to_list (Array.sub a 4 (Array.length a - 4))) in
  res_str (fun (nd, tks') ->
      "ok/" ^ dec_of_n nd ^ "/" ^ S.concat ":" (L.map (fun ((tk, md), el) ->
          dec_of_n tk ^ ";" ^ dec_of_n md ^ ";" ^ (match el with None -> "-" | Some gs -> groups_str gs)) tks'))
    (write_upto_mdat_durs (n_of_dec a.(0)) (n_of_dec a.(1)) (n_of_dec a.(2)) tks)

let mdat_model (a : string array) : string =
  let flen = int_of_string a.(0) in
  let file = L.init flen file_byte in
  let large = a.(2) = "16" in
  let m = if a.(4) = "1" then C08Model.mdat_lazy (n_of_dec a.(1)) large (n_of_dec a.(3))
    else C08Model.mdat_mem file (n_of_dec a.(1)) large (n_of_dec a.(3)) in
  let rs = if a.(5) = "-" then [] else L.map (fun r -> match split_on '-' r with
      | [s; e] -> (n_of_dec s, n_of_dec e) | _ -> failwith "range") (split_on ',' a.(5)) in
  res_str (fun out -> "ok/" ^ (match out with [] -> "" | _ -> hex_of_bytes out)) (write_mdat file true m rs)

(* cropMP4 on the virtual file: observed = <base>/<old size without mdat>/<rest>/(err | ok/<new mdat start>/...)
   arg = ms:mdatFirst:inHdr:between:pad:mvts:payloadLen:zero:timescales[:handlers[:mem|lazy[:dup]]] *)
let virt_model (tbs : tables list) (a : string array) (obs : string) : string =
  match split_on '/' obs with
  | base :: oldswm :: rest :: _ ->
    let base_n = n_of_dec base in
    let tss = L.map n_of_dec (split_on ',' a.(8)) in
    let mvts = n_of_dec a.(5) in
    let handlers =
      if Array.length a >= 10 then
        L.map (fun h -> n_of_int (match h with "v" -> 0 | "s" -> 1 | _ -> 2)) (split_on ',' a.(9))
      else L.mapi (fun i _ -> n_of_int (if i = 0 then 0 else 1)) tbs in
    let mem = Array.length a >= 11 && a.(10) = "mem" in
    let dup = Array.length a >= 12 && a.(11) = "dup" in
    let hs = L.mapi (fun i ((t, ts), h) ->
        { th_handler = h;
          th_trak = { ti_id = n_of_int (if dup && i > 0 then i else i + 1); ti_ts = ts; ti_tb = with_offsets t (fun o -> BinNat.N.add o base_n) } })
        (L.combine (L.combine tbs tss) handlers) in
    let total t = L.fold_left2 (fun acc c d -> BinNat.N.add acc (BinNat.N.mul c d)) BinNums.N0 t.t_stts_count t.t_stts_delta in
    let tks = L.map (fun h -> let tr = h.th_trak in
                      ((BinNat.N.div (BinNat.N.mul (total tr.ti_tb) mvts) tr.ti_ts, total tr.ti_tb), None)) hs in
    let r = match crop_mp4_all hs mvts tks (n_of_dec a.(0)) (n_of_dec rest) with
      | Ok (((_, _), (((tbs', ranges), ks), swm)), (nd, tks')) ->
        let fin msz cks =
          S.concat "/" ["ok"; dec_of_n swm; dec_of_n msz; dec_of_n (BinNat.N.add swm msz);
                        S.concat "," (L.map dec_of_n ks); S.concat "|" (L.map offs_str tbs'); dec_of_n nd;
                        S.concat "," (L.map (fun ((tk, _), _) -> dec_of_n tk) tks'); cks] in
        if a.(7) = "1" then begin
          (* multi-gigabyte virtual payload: sizes only *)
          let psz = ranges_size ranges BinNums.N0 in
          if BinNat.N.leb (n_of_dec "4294967296") (BinNat.N.add psz (n_of_int 8)) then "err"
          else fin (BinNat.N.add psz (n_of_int 8)) "-"
        end else begin
          let in_hdr = int_of_string a.(2) and pay = int_of_string a.(6) in
          let b = int_of_string base in
          let flen = int_of_string oldswm + in_hdr + pay in
          let file = L.init flen (fun p -> if p >= b && p < b + pay then file_byte p else BinNums.N0) in
          let sp = n_of_int (b - in_hdr) and large = in_hdr = 16 and pl = n_of_int pay in
          let m = if mem then C08Model.mdat_mem file sp large pl else C08Model.mdat_lazy sp large pl in
          match write_mdat file true m ranges with
          | Ok mb ->
            let c = ref 0 and i = ref 0 in
            L.iter (fun x -> (if !i >= 8 then c := (!c + (!i - 7) * int_of_n x) mod 1000000007); incr i) mb;
            fin (n_of_int (L.length mb)) (string_of_int !c)
          | Err -> "err" | Panic -> "panic" | OutOfFuel -> "outoffuel"
        end
      | Err -> "err" | Panic -> "panic" | OutOfFuel -> "outoffuel" in
    base ^ "/" ^ oldswm ^ "/" ^ rest ^ "/" ^ r
  | _ -> "badobs"

(* the struct part of the stsc token: entries;single;ids (the 4th field, what Encode writes, is derived) *)
let stsc_str (b : stsc_box) : string =
  let enc =
    (* EncodeSW: single if non-zero, else ids[i] (index out of range -> panic) *)
    let rec go i es = match es with
      | [] -> Some []
      | e :: t ->
        let id = if int_of_n b.sc_single <> 0 then Some b.sc_single else nthN b.sc_ids (n_of_int i) in
        (match id, go (i + 1) t with
         | Some id, Some r -> Some ((dec_of_n e.first_chunk ^ ":" ^ dec_of_n e.spc ^ ":" ^ dec_of_n id) :: r)
         | _, _ -> None) in
    match go 0 b.sc_entries with Some [] -> "-" | Some l -> S.concat "," l | None -> "encpanic" in
  join "," (fun e -> dec_of_n e.first_chunk ^ ":" ^ dec_of_n e.spc ^ ":" ^ dec_of_n e.first_sample) b.sc_entries
  ^ ";" ^ dec_of_n b.sc_single ^ ";" ^ join "," dec_of_n b.sc_ids ^ ";" ^ enc

let crop_tokens (tb : tables) (k : BinNums.coq_N) : (string * string) list =
  let t1 = ("stts", res_str (fun (c, d) -> join "," dec_of_n c ^ ";" ^ join "," dec_of_n d)
              (crop_stts tb.t_stts_count tb.t_stts_delta k)) in
  let t2 = match tb.t_ctts with
    | None -> []
    | Some c -> [("ctts", res_str (fun c' -> join "," dec_of_n c'.ct_end ^ ";" ^ join "," dec_of_z c'.ct_off)
                    (crop_ctts c k))] in
  let t3 = ("stsc", res_str stsc_str ((if !pinned then crop_stsc_pinned else crop_stsc) tb.t_stsc k)) in
  let t4 = ("stsz", res_str (fun z -> dec_of_n z.sz_uniform ^ ";" ^ dec_of_n z.sz_number ^ ";" ^ join "," dec_of_n z.sz_sizes)
              (crop_stsz tb.t_stsz k)) in
  let t5 = match tb.t_stss with None -> [] | Some l -> [("stss", join "," dec_of_n (crop_stss l k))] in
  let t6 = match tb.t_sdtp with None -> [] | Some l -> [("sdtp", join "," dec_of_n (crop_sdtp l k))] in
  [t1] @ t2 @ [t3; t4] @ t5 @ t6

let () =
  if Array.length Sys.argv > 1 && Sys.argv.(1) = "pinned" then pinned := true;
  iter_lines (fun line ->
      let f = Array.of_list (split_on '\t' line) in
      let nf = Array.length f in
      if nf < 5 || f.(0) <> "K" then Printf.printf "BADLINE %s\n" (S.sub line 0 (min 60 (S.length line)))
      else if f.(2) = "tool" then begin
        (* K <id> tool <ms> <input file hex> <class> <output file hex | ->: the whole tool on C01's box-tree model *)
        let id = f.(1) in
        let input = bytes_of_hex f.(4) in
        let ms = n_of_dec f.(3) in
        let cls = f.(5) and outhex = f.(6) in
        let model_cls, model_out, sizes_ok, hyps =
          match crop_tool_report input ms with
          | None -> ("unmodelled", "-", true, "?")
          | Some (Ok ((out, (a, b)), (ex, fi))) ->
            ("ok", (match out with [] -> "-" | _ -> hex_of_bytes out), BinNat.N.eqb a b,
             (if ex then "exact" else "INEXACT") ^ "," ^ (if fi then "fits" else "NOFIT"))
          | Some Err -> ("err", "-", true, "?") | Some Panic -> ("panic", "-", true, "?")
          | Some OutOfFuel -> ("outoffuel", "-", true, "?") in
        if model_cls <> cls then Printf.printf "MISMATCH %s tool class model=%s impl=%s\n" id model_cls cls
        else if cls = "ok" && S.lowercase_ascii model_out <> S.lowercase_ascii outhex then begin
          let n = min (S.length model_out) (S.length outhex) in
          let i = ref 0 in
          while !i < n && model_out.[!i] = outhex.[!i] do incr i done;
          Printf.printf "MISMATCH %s tool bytes differ at byte %d (model %d bytes, impl %d bytes) model=..%s impl=..%s\n" id (!i / 2)
            (S.length model_out / 2) (S.length outhex / 2)
            (S.sub model_out (!i / 2 * 2) (min 32 (S.length model_out - !i / 2 * 2)))
            (S.sub outhex (!i / 2 * 2) (min 32 (S.length outhex - !i / 2 * 2)))
        end
        else if not sizes_ok then Printf.printf "MISMATCH %s tool encoded-size-vs-sizeWithoutMdat model-internal\n" id
        else begin
          (* the hypotheses of C10_output_decodes on this case (reported, not a mismatch) *)
          let hy = if cls <> "ok" then "" else " hyps=" ^ hyps in
          Printf.printf "OK %s%s\n" id hy
        end
      end
      else if f.(2) = "hdr" || f.(2) = "mdat" then begin
        let id = f.(1) and op = f.(2) in
        let a = Array.of_list (split_on ':' f.(3)) in
        let obs = f.(nf - 1) in
        let model = op ^ "=" ^ (if op = "hdr" then hdr_model a else mdat_model a) in
        if model = obs then Printf.printf "OK %s\n" id
        else Printf.printf "MISMATCH %s %s model=%s impl=%s\n" id op
            (S.sub model 0 (min 300 (S.length model))) (S.sub obs 0 (min 300 (S.length obs)))
      end
      else begin
        let id = f.(1) and op = f.(2) and arg = f.(3) in
        let obs = f.(nf - 1) in
        let ntab = (nf - 5) / 7 in
        match (try Some (L.init ntab (fun i -> parse_tables f (4 + 7 * i))) with Build_err -> None) with
        | None ->
          if obs = "build=err" then Printf.printf "OK %s\n" id
          else Printf.printf "MISMATCH %s build model=err impl=%s\n" id obs
        | Some tbs ->
          let tb = L.hd tbs in
          let a = Array.of_list (split_on ':' arg) in
          let num i = n_of_dec a.(i) in
          let model =
            match op with
            | "crop" -> S.concat " " (L.map (fun (k, v) -> k ^ "=" ^ v) (crop_tokens tb (num 0)))
            | "endtime" ->
              "endtime=" ^ (match (if !pinned then find_end_time_pinned else find_end_time) tb (num 0) (num 1) with
                  | Ok t -> "ok/" ^ dec_of_n t ^ "/" ^ a.(0) | Err -> "err" | Panic -> "panic" | OutOfFuel -> "outoffuel")
            | "ends" ->
              "ends=" ^ (match find_trak_end tb (num 0) (num 1) (num 2) with
                  | Ok ((k, t), c) -> "ok/" ^ dec_of_n k ^ "/" ^ dec_of_n t ^ "/" ^ dec_of_n c.ch_nr ^ "." ^
                                      dec_of_n c.ch_start ^ "." ^ dec_of_n c.ch_n
                  | Err -> "err" | Panic -> "panic" | OutOfFuel -> "outoffuel")
            | "fill" ->
              let states = L.mapi (fun i t ->
                  let k = num i in
                  match stsc_chunk_nr_from_sample_nr t.t_stsc.sc_entries k with
                  | Ok (cn, _) ->
                    (match stsc_get_chunk t.t_stsc.sc_entries cn with
                     | Ok ch -> Some { ts_id = n_of_int (i + 1); ts_tb = t; ts_last_sample = k; ts_last_chunk = ch.ch_nr;
                                       ts_next = n_of_int 1; ts_offsets = [] }
                     | _ -> None)
                  | _ -> None) tbs in
              if L.exists (fun s -> s = None) states then "fill=panic"
              else begin
                let sts = L.map (fun s -> match s with Some x -> x | None -> assert false) states in
                let fuel = fill_fuel sts in
                "fill=" ^ (match fill_loop fuel sts [] N0 N0 with
                    | Ok ((ts', rs), first) ->
                      "ok/" ^ dec_of_n first ^ "/" ^ S.concat "|" (L.map (fun s -> join0 "," dec_of_n s.ts_offsets) ts')
                      ^ "/" ^ join0 "," (fun (s, e) -> dec_of_n s ^ "-" ^ dec_of_n e) rs
                    | Err -> "err" | Panic -> "panic" | OutOfFuel -> "outoffuel")
              end
            | "shift" -> "shift=" ^ shift_model tbs (num 0) (num 1)
            | "virt" ->
              let pre = "virt=" in
              let o = if S.length obs > 5 then S.sub obs 5 (S.length obs - 5) else "" in
              pre ^ virt_model tbs a o
            | _ -> "badop" in
          if model = obs then Printf.printf "OK %s\n" id
          else begin
            (* first differing token *)
            let mt = split_on ' ' model and ot = split_on ' ' obs in
            let rec diff m o = match m, o with
              | x :: m', y :: o' -> if x = y then diff m' o' else (x, y)
              | x :: _, [] -> (x, "(none)") | [], y :: _ -> ("(none)", y) | [], [] -> ("", "") in
            let (x, y) = diff mt ot in
            Printf.printf "MISMATCH %s %s model=%s impl=%s\n" id op x y
          end
      end)
