(* Driver for the C10 model. Input lines (harness c10 join):
     K <id> <op> <arg> (<stts> <ctts> <stsc> <stsz> <offsets> <stss> <sdtp>)+ <result tokens of the real routines>
   Output: "OK <id>" or "MISMATCH <id> <what> model=<..> impl=<..>". *)
open Vx
open Base
open C09Model
open C10Model

let n_of_dec (s : string) : BinNums.coq_N = n_of_int (int_of_string s)
let z_of_dec (s : string) : BinNums.coq_Z = z_of_int (int_of_string s)
let dec_of_n n = string_of_int (int_of_n n)
let dec_of_z z = string_of_int (int_of_z z)
let csv f s = if s = "-" || s = "" then [] else L.map f (split_on ',' s)
let ncsv = csv n_of_dec
let join sep f l = match l with [] -> "-" | _ -> S.concat sep (L.map f l)
let join0 sep f l = S.concat sep (L.map f l)

exception Build_err
let get r = match r with Ok a -> a | _ -> raise Build_err

let parse_tables (f : string array) (o : int) : tables =
  let stts_c, stts_d =
    match split_on ';' f.(o) with [c; d] -> (ncsv c, ncsv d) | _ -> failwith "stts" in
  let ctts =
    match split_on ';' f.(o+1) with
    | ["N"] -> None
    | [mode; c; ofs] ->
      let cs = ncsv c and os = csv z_of_dec ofs in
      if mode = "A" then Some (get (ctts_add { ct_end = []; ct_off = [] } cs os))
      else Some (ctts_decode (L.combine cs os))
    | _ -> failwith "ctts" in
  let stsc =
    match split_on ';' f.(o+2) with
    | [mode; es] ->
      let raw = csv (fun e -> match split_on ':' e with
          | [a; b; c] -> ((n_of_dec a, n_of_dec b), n_of_dec c) | _ -> failwith "stsc entry") es in
      if mode = "A" then get (stsc_add_entries { sc_entries = []; sc_single = N0; sc_ids = [] } raw)
      else get (stsc_decode raw)
    | _ -> failwith "stsc" in
  let stsz =
    match split_on ';' f.(o+3) with
    | [u; n; s] -> { sz_uniform = n_of_dec u; sz_number = n_of_dec n; sz_sizes = ncsv s }
    | _ -> failwith "stsz" in
  let stco, co64 =
    match split_on ';' f.(o+4) with
    | ["S"; ofs] -> (Some (ncsv ofs), None)
    | ["C"; ofs] -> (None, Some (ncsv ofs))
    | ["N"; _] -> (None, None)
    | _ -> failwith "offsets" in
  let opt s = match split_on ';' s with ["N"] -> None | ["Y"; l] -> Some (ncsv l) | _ -> failwith "opt" in
  { t_stts_count = stts_c; t_stts_delta = stts_d; t_ctts = ctts; t_stsc = stsc; t_stsz = stsz;
    t_stco = stco; t_co64 = co64; t_stss = opt f.(o+5); t_sdtp = opt f.(o+6) }

let res_str (f : 'a -> string) (r : 'a res) : string =
  match r with Ok a -> f a | Err -> "err" | Panic -> "panic" | OutOfFuel -> "outoffuel"

let pinned = ref false

(* the struct part of the stsc token: entries;single;ids (the 4th field, what Encode writes, is derived) *)
let stsc_str (b : stsc_box) : string =
  let enc =
    (* EncodeSW: single if non-zero, else ids[i] (index out of range -> panic) *)
    let rec go i es = match es with
      | [] -> Some []
      | e :: t ->
        let id = if int_of_n b.sc_single <> 0 then Some b.sc_single else nthN b.sc_ids (n_of_int i) in
        (match id, go (i + 1) t with
         | Some id, Some r -> Some ((dec_of_n e.first_chunk ^ ":" ^ dec_of_n e.spc ^ ":" ^ dec_of_n id) :: r)
         | _, _ -> None) in
    match go 0 b.sc_entries with Some [] -> "-" | Some l -> S.concat "," l | None -> "encpanic" in
  join "," (fun e -> dec_of_n e.first_chunk ^ ":" ^ dec_of_n e.spc ^ ":" ^ dec_of_n e.first_sample) b.sc_entries
  ^ ";" ^ dec_of_n b.sc_single ^ ";" ^ join "," dec_of_n b.sc_ids ^ ";" ^ enc

let crop_tokens (tb : tables) (k : BinNums.coq_N) : (string * string) list =
  let t1 = ("stts", res_str (fun (c, d) -> join "," dec_of_n c ^ ";" ^ join "," dec_of_n d)
              (crop_stts tb.t_stts_count tb.t_stts_delta k)) in
  let t2 = match tb.t_ctts with
    | None -> []
    | Some c -> [("ctts", res_str (fun c' -> join "," dec_of_n c'.ct_end ^ ";" ^ join "," dec_of_z c'.ct_off)
                    (crop_ctts c k))] in
  let t3 = ("stsc", res_str stsc_str ((if !pinned then crop_stsc_pinned else crop_stsc) tb.t_stsc k)) in
  let t4 = ("stsz", res_str (fun z -> dec_of_n z.sz_uniform ^ ";" ^ dec_of_n z.sz_number ^ ";" ^ join "," dec_of_n z.sz_sizes)
              (crop_stsz tb.t_stsz k)) in
  let t5 = match tb.t_stss with None -> [] | Some l -> [("stss", join "," dec_of_n (crop_stss l k))] in
  let t6 = match tb.t_sdtp with None -> [] | Some l -> [("sdtp", join "," dec_of_n (crop_sdtp l k))] in
  [t1] @ t2 @ [t3; t4] @ t5 @ t6

let () =
  if Array.length Sys.argv > 1 && Sys.argv.(1) = "pinned" then pinned := true;
  iter_lines (fun line ->
      let f = Array.of_list (split_on '\t' line) in
      let nf = Array.length f in
      if nf < 12 || f.(0) <> "K" then Printf.printf "BADLINE %s\n" (S.sub line 0 (min 60 (S.length line)))
      else begin
        let id = f.(1) and op = f.(2) and arg = f.(3) in
        let obs = f.(nf - 1) in
        let ntab = (nf - 5) / 7 in
        match (try Some (L.init ntab (fun i -> parse_tables f (4 + 7 * i))) with Build_err -> None) with
        | None ->
          if obs = "build=err" then Printf.printf "OK %s\n" id
          else Printf.printf "MISMATCH %s build model=err impl=%s\n" id obs
        | Some tbs ->
          let tb = L.hd tbs in
          let a = Array.of_list (split_on ':' arg) in
          let num i = n_of_dec a.(i) in
          let model =
            match op with
            | "crop" -> S.concat " " (L.map (fun (k, v) -> k ^ "=" ^ v) (crop_tokens tb (num 0)))
            | "endtime" ->
              "endtime=" ^ (match (if !pinned then find_end_time_pinned else find_end_time) tb (num 0) (num 1) with
                  | Ok t -> "ok/" ^ dec_of_n t ^ "/" ^ a.(0) | Err -> "err" | Panic -> "panic" | OutOfFuel -> "outoffuel")
            | "ends" ->
              "ends=" ^ (match find_trak_end tb (num 0) (num 1) (num 2) with
                  | Ok ((k, t), c) -> "ok/" ^ dec_of_n k ^ "/" ^ dec_of_n t ^ "/" ^ dec_of_n c.ch_nr ^ "." ^
                                      dec_of_n c.ch_start ^ "." ^ dec_of_n c.ch_n
                  | Err -> "err" | Panic -> "panic" | OutOfFuel -> "outoffuel")
            | "fill" ->
              let states = L.mapi (fun i t ->
                  let k = num i in
                  match stsc_chunk_nr_from_sample_nr t.t_stsc.sc_entries k with
                  | Ok (cn, _) ->
                    (match stsc_get_chunk t.t_stsc.sc_entries cn with
                     | Ok ch -> Some { ts_id = n_of_int (i + 1); ts_tb = t; ts_last_sample = k; ts_last_chunk = ch.ch_nr;
                                       ts_next = n_of_int 1; ts_offsets = [] }
                     | _ -> None)
                  | _ -> None) tbs in
              if L.exists (fun s -> s = None) states then "fill=panic"
              else begin
                let sts = L.map (fun s -> match s with Some x -> x | None -> assert false) states in
                let fuel = nat_of_int (1 + L.fold_left (fun acc s -> acc + int_of_n s.ts_last_chunk) 0 sts) in
                "fill=" ^ (match fill_loop fuel sts [] N0 N0 with
                    | Ok ((ts', rs), first) ->
                      "ok/" ^ dec_of_n first ^ "/" ^ S.concat "|" (L.map (fun s -> join0 "," dec_of_n s.ts_offsets) ts')
                      ^ "/" ^ join0 "," (fun (s, e) -> dec_of_n s ^ "-" ^ dec_of_n e) rs
                    | Err -> "err" | Panic -> "panic" | OutOfFuel -> "outoffuel")
              end
            | _ -> "badop" in
          if model = obs then Printf.printf "OK %s\n" id
          else begin
            (* first differing token *)
            let mt = split_on ' ' model and ot = split_on ' ' obs in
            let rec diff m o = match m, o with
              | x :: m', y :: o' -> if x = y then diff m' o' else (x, y)
              | x :: _, [] -> (x, "(none)") | [], y :: _ -> ("(none)", y) | [], [] -> ("", "") in
            let (x, y) = diff mt ot in
            Printf.printf "MISMATCH %s %s model=%s impl=%s\n" id op x y
          end
      end)
