(* Driver for the C01/C02 box model.
   stdin lines:  C <tab> id <tab> inputhex <tab> observables      (observables as printed by the Go harness)
   stdout:       OK id | MISMATCH id model=<observables>
   `modeld names` prints the modelled leaf and container box types (hex of the 4 bytes). *)
open BinNums
open Vx
open C01Model
open C01FileModel
open C01GenModel
open C01GenFileModel

let res_str (r : coq_N list Base.res) : string =
  match r with
  | Base.Ok b -> "ok:" ^ hex_of_bytes b
  | Base.Err -> "err"
  | Base.Panic -> "panic"
  | Base.OutOfFuel -> "fuel"

let observe (bs : coq_N list) : string =
  match decode bs with
  | Base.Ok (t, rest) ->
    let used = L.length bs - L.length rest in
    Printf.sprintf "dec=ok;used=%d;size=%d;exact=%d;encw=%s;encsw=%s" used (int_of_n (size_box t))
      (if exact_box t then 1 else 0) (res_str (encode_w t)) (res_str (encode_sw t))
  | Base.Err -> "dec=err"
  | Base.Panic -> "dec=panic"
  | Base.OutOfFuel -> "dec=fuel"

(* whole files: DecodeFileSR with the File-level rules, File.Encode / File.EncodeSW in box-tree mode.  A file that reaches
   TrafBox.ParseReadSenc is outside the model (separate outcome, compared with nothing). *)
let observe_file (bs : coq_N list) : string =
  match decode_file_sr bs with
  | FOk ts ->
    Printf.sprintf "dec=ok;names=%s;frag=%d;exact=%d;encw=%s;encsw=%s"
      (S.concat "," (L.map (fun t -> hex_of_bytes (box_name t)) ts)) (if file_frag ts then 1 else 0)
      (if L.for_all exact_box ts then 1 else 0) (res_str (file_encode_w ts)) (res_str (file_encode_sw ts))
  | FErr -> "dec=err"
  | FPanic -> "dec=panic"
  | FFuel -> "dec=fuel"
  | FSencParse -> "outside"

(* drop the exact= field (model-only information) before comparing *)
let strip_exact (s : string) : string =
  S.concat ";" (L.filter (fun f -> not (S.length f > 6 && S.sub f 0 6 = "exact=")) (split_on ';' s))

(* reserved-byte positions of a leaf: encode it with every captured reserved chunk set to 00.. and to ff..
   (same lengths as the defaults) and report the body offsets where the two encodings differ *)
let dontcare_of ?(maxv = 255) (box : string) (version : int) (l : leaf) : unit =
  let d = dflt_rsv l in
  (* only the chunks the model marks as listed don't-care (rsv_dc) are varied; the others keep their default *)
  let dc = rsv_dc l in
  let is_dc i = match L.nth_opt dc i with Some b -> b | None -> true in
  let fill v = L.mapi (fun i c -> if is_dc i then L.map (fun _ -> n_of_int (if v = 0 then 0 else maxv)) c else c) d in
  let h = { h_name = []; h_size = N0; h_len = n_of_int 8 } in
  match raw_box true (MLeaf (h, l, fill 0)), raw_box true (MLeaf (h, l, fill 1)) with
  | Base.Ok a, Base.Ok b ->
    let a = Array.of_list (L.map int_of_n a) and b = Array.of_list (L.map int_of_n b) in
    let i = ref 8 in
    while !i < Array.length a do
      if a.(!i) lxor b.(!i) = 255 then begin
        let j = ref !i in
        while !j < Array.length a && a.(!j) lxor b.(!j) = 255 do incr j done;
        Printf.printf "dontcare %s %d %d %d\n" box version (!i - 8) (!j - !i);
        i := !j
      end else incr i
    done
  | _ -> ()

let z = N0
let n = n_of_int

(* ---- why mode: the model's reasons for a decoded tree not being reproduced ---- *)
let rec int_of_nat (k : Datatypes.nat) : int = match k with Datatypes.O -> 0 | Datatypes.S m -> 1 + int_of_nat m
let str_of_name (nm : coq_N list) : string = S.concat "" (L.map (fun c -> S.make 1 (Char.chr (int_of_n c land 255))) nm)
let visual_names = ["avc1"; "avc3"; "hvc1"; "hev1"; "encv"; "av01"; "vp08"; "vp09"]
let audio_names = ["mp4a"; "enca"; "ac-3"; "ec-3"]
(* names of the captured chunks that are NOT on the don't-care list (rsv_dc = false) *)
let chunk_name (site : string) (dc : bool) (i : int) : string =
  if L.mem site visual_names && i = 3 then "compressorname-padding-zeroed"
  else if L.mem site visual_names && i = 4 then "depth-rewritten-0x0018"
  else if L.mem site audio_names && i = 3 then "samplerate-fraction-dropped"
  else if (site = "avcC" || site = "hvcC") && i = 5 then "bytes-after-record-dropped"
  else if site = "elng" && i = 0 then "elng-unterminated-language-rewritten"
  else if site = "esds" then "esds-size-field-rewritten"
  else if site = "data" && i = 0 then "data-type-indicator-rewritten-1"
  else if site = "data" && i = 1 then "data-locale-rewritten-0"
  else if dc then "reserved-bits-rewritten" else Printf.sprintf "chunk%d-rewritten" i
let reason_str (site : string) (r : reason) : string =
  match r with
  | RLarge -> "large-size-header-compacted"
  | RSizeBig -> "size-field-above-fields"
  | RSizeSmall -> "size-field-below-fields"
  | RGuard -> if site = "senc" then "senc-sample-count-zero-data-dropped"
              else if site = "uuid" then "piff-senc-sample-count-zero-data-dropped"
              else if site = "sgpd" then "reserved-bits-rewritten"   (* the reserved byte of a seig entry *)
              else if site = "esds" then "esds-noncanonical-size-field-or-unknown-data"
              else if site = "wvtt" then "wvtt-prefix-cut-short"
              else if site = "dac3" then "dac3-payload-not-zeroes-plus-3-bytes"
              else if site = "dec3" then "dec3-reserved-bits-rewritten" else "trun-data-offset-zero"
  | RMoov -> "trak-reordered"
  | RMoof -> "moof-trun-data-offset-zero"
  | RRsv (dc, i) -> chunk_name site dc (int_of_nat i)
  | RShape -> "shape"
let why (bs : coq_N list) : string =
  match decode bs with
  | Base.Ok (t, rest) ->
    let rs = L.map (fun (nm, r) -> let site = str_of_name nm in site ^ ":" ^ reason_str site r) (why_box t) in
    Printf.sprintf "ok rest=%d %s" (L.length rest) (S.concat ";" rs)
  | Base.Err -> "rej"
  | Base.Panic -> "panic"
  | Base.OutOfFuel -> "fuel"

(* ---- second generation (G lines): the input was accepted and NOT reproduced by Box.Encode; obs2 = what the real decoder and
   encoders do with the bytes Box.Encode wrote.  The model recomputes those bytes (already compared on the C line), observes them
   itself, and evaluates the hypothesis gen2_ok of C01_fixpoint (second conjunct) on them; where it holds the theorem's conclusion (everything
   consumed, Size() = length, Box.Encode and Box.EncodeSW give the same bytes again) is checked on the IMPLEMENTATION's answer. *)
(* where a second generation that is not a fixed point comes from: the deepest box whose own re-encoding is not a fixed point *)
let bytes_of_str (x : string) : coq_N list = L.init (S.length x) (fun i -> n_of_int (Char.code x.[i]))
let is_fixed (e : coq_N list) : bool =
  match decode e with Base.Ok (t2, []) -> (match encode_w t2 with Base.Ok e2 -> e2 = e | _ -> false) | _ -> false
let rec culprit (t : mbox) : string =
  let kids = match t with MCont (_, cs) -> cs | MPre (_, _, _, cs) -> cs | _ -> [] in
  let bad c = match encode_w c with Base.Ok e -> not (is_fixed e) | _ -> false in
  match L.filter bad kids with
  | c :: _ -> culprit c
  | [] -> S.concat "" (L.map (fun c -> S.make 1 (Char.chr (int_of_n c land 255))) (box_name t))

let second_generation (id : string) (bs : coq_N list) (obs2 : string) : unit =
  match decode bs with
  | Base.Ok (t, _) ->
    (match encode_w t with
     | Base.Ok enc ->
       let m2 = observe enc in
       if strip_exact m2 <> obs2 then Printf.printf "MISMATCH %s gen2 model=%s\n" id m2
       else begin
         let first = if exact_box t then "exact" else "inexact" in
         let cls = match gen2 enc with
           | G2Fix -> "fix" | G2Why -> "why" | G2Rest -> "rest" | G2Rej -> "rej" | G2Bytes -> "bytes" in
         let len = L.length enc in
         let e = hex_of_bytes enc in
         let concl = obs2 = Printf.sprintf "dec=ok;used=%d;size=%d;encw=ok:%s;encsw=ok:%s" len len e e in
         if gen2_ok enc && not concl then
           Printf.printf "MISMATCH %s gen2 hypothesis of C01_fixpoint (second conjunct) holds, conclusion does not on the implementation\n" id
         else if concl then Printf.printf "OK %s gen2-%s-%s%s\n" id first cls (if gen2_ok enc then "" else "-fixed-anyway")
         else Printf.printf "OK %s gen2-%s-%s NOTFIXED %s\n" id first cls (hex_of_bytes (bytes_of_str (culprit t)))
       end
     | _ -> Printf.printf "MISMATCH %s gen2 model does not encode the first generation\n" id)
  | _ -> Printf.printf "MISMATCH %s gen2 model does not accept the first generation\n" id

(* the same for whole files (H lines): DecodeFileSR / File.Encode / File.EncodeSW applied to the bytes File.Encode wrote for an
   accepted file it did not reproduce; hypothesis gen2_file_ok of C01_file_boxtree (third conjunct) *)
let second_generation_file (id : string) (bs : coq_N list) (obs2 : string) : unit =
  match decode_file_sr bs with
  | FOk ts ->
    (match file_encode_w ts with
     | Base.Ok enc ->
       let m2 = observe_file enc in
       if m2 = "outside" then Printf.printf "OK %s gen2file-outside\n" id
       else if strip_exact m2 <> obs2 then Printf.printf "MISMATCH %s gen2 model=%s\n" id m2
       else begin
         let first = if L.for_all exact_box ts then "exact" else "inexact" in
         let cls = match gen2_file enc with
           | G2Fix -> "fix" | G2Why -> "why" | G2Rest -> "rest" | G2Rej -> "rej" | G2Bytes -> "bytes" in
         let e = hex_of_bytes enc in
         let suffix = Printf.sprintf ";encw=ok:%s;encsw=ok:%s" e e in
         let ls = S.length suffix and lo = S.length obs2 in
         let concl = lo >= ls && S.sub obs2 (lo - ls) ls = suffix && lo > 6 && S.sub obs2 0 6 = "dec=ok" in
         if gen2_file_ok enc && not concl then
           Printf.printf "MISMATCH %s gen2 hypothesis of C01_file_boxtree (third conjunct) holds, conclusion does not on the implementation\n" id
         else if concl then Printf.printf "OK %s gen2file-%s-%s%s\n" id first cls (if gen2_file_ok enc then "" else "-fixed-anyway")
         else begin
           let bad c = match encode_w c with Base.Ok e -> not (is_fixed e) | _ -> false in
           let site = match L.filter bad ts with c :: _ -> culprit c | [] -> "File" in
           Printf.printf "OK %s gen2file-%s-%s NOTFIXED %s\n" id first cls (hex_of_bytes (bytes_of_str site))
         end
       end
     | _ -> Printf.printf "MISMATCH %s gen2 model does not encode the first generation\n" id)
  | FSencParse -> Printf.printf "OK %s gen2file-outside\n" id
  | _ -> Printf.printf "MISMATCH %s gen2 model does not accept the first generation\n" id

let () =
  if Array.length Sys.argv > 1 && Sys.argv.(1) = "dontcare" then begin
    L.iter (fun v ->
        dontcare_of "mvhd" v (LMvhd (n v, z, z, z, z, z, z, z, z));
        dontcare_of "tkhd" v (LTkhd (n v, z, z, z, z, z, z, z, z, z, z));
        dontcare_of "sidx" v (LSidx (n v, z, z, z, z, z, []));
        dontcare_of "mdhd" v (LMdhd (n v, z, z, z, z, z, z));
        dontcare_of "hdlr" v (LHdlr (n v, z, z, [z; z; z; z], [], false));
        dontcare_of "smhd" v (LSmhd (n v, z, z));
        dontcare_of "tenc" v (LTenc (n v, z, z, z, z, z, L.init 16 (fun _ -> z), []));
        dontcare_of ~maxv:67108863 "tfra" v (LTfra (n v, z, z, z, z, z, []))) [0; 1; 2; 3];
    (* boxes without version: printed with version -1 *)
    L.iter (fun nm -> dontcare_of nm (-1) (LVisual (bytes_of_hex "00000000", z, z, z, z, z, z, [])))
      ["avc1"; "avc3"; "hvc1"; "hev1"; "encv"; "av01"; "vp08"; "vp09"];
    L.iter (fun nm -> dontcare_of nm (-1) (LAudio (bytes_of_hex "00000000", z, z, z, z))) ["mp4a"; "enca"; "ac-3"; "ec-3"];
    dontcare_of "wvtt" (-1) (LWvtt (z, false))
  end else
  if Array.length Sys.argv > 1 && Sys.argv.(1) = "names" then begin
    L.iter (fun (n, _) -> Printf.printf "leaf %s\n" (hex_of_bytes n)) leaf_table;
    L.iter (fun (n, _) -> Printf.printf "leaf %s\n" (hex_of_bytes n)) pre_table;
    L.iter (fun n -> Printf.printf "cont %s\n" (hex_of_bytes n)) cont_table
  end else
    iter_lines (fun line ->
        match split_on '\t' line with
        | ["C"; id; inhex; obs] ->
          let m = observe (bytes_of_hex inhex) in
          if strip_exact m = obs then Printf.printf "OK %s %s\n" id
              (if S.length m > 7 && S.sub m 0 6 = "dec=ok" then
                 (if L.mem "exact=1" (split_on ';' m) then "exact" else "inexact") else "rej")
          else Printf.printf "MISMATCH %s model=%s\n" id m
        | ["F"; id; inhex; obs] ->
          let m = observe_file (bytes_of_hex inhex) in
          if m = "outside" then Printf.printf "OK %s outside\n" id
          else if strip_exact m = obs then Printf.printf "OK %s %s\n" id
              (if S.length m > 7 && S.sub m 0 6 = "dec=ok" then
                 (if L.mem "exact=1" (split_on ';' m) then "file-exact" else "file-inexact") else "file-rej")
          else Printf.printf "MISMATCH %s model=%s\n" id m
        | ["G"; id; inhex; obs2] -> second_generation id (bytes_of_hex inhex) obs2
        | ["H"; id; inhex; obs2] -> second_generation_file id (bytes_of_hex inhex) obs2
        | ["W"; id; inhex] -> Printf.printf "WHY %s %s\n" id (why (bytes_of_hex inhex))
        | _ -> Printf.printf "BADLINE %s\n" line)
