(* Driver for the C05 model: reads the harness's case lines, recomputes the observables with the
   extracted model, prints one line per case: "OK <id>" or "MISMATCH <id> <model observables>". *)
open BinNums
open Vx
open C05Model
open C05FragModel
open C05CodecModel
open C05SegModel
open C05SegCodecModel
open C05EmsgModel
open C05EncHistModel

let hexn s = n_of_hex s
let hn n = hex_of_n n
let hz z = hex_of_z z
let string_of_int_hex (i : int) : string = Printf.sprintf "%x" i

let parse_sample (s : string) : sample =
  match split_on '.' s with
  | [f; d; z; c] -> { s_flags = hexn f; s_dur = hexn d; s_size = hexn z; s_cto = z_of_hex c }
  | _ -> failwith ("bad sample " ^ s)

let parse_samples (s : string) : sample list =
  if s = "-" then [] else L.map parse_sample (split_on ',' s)

let sample_string (s : sample) : string =
  hn s.s_flags ^ "." ^ hn s.s_dur ^ "." ^ hn s.s_size ^ "." ^ hz s.s_cto

let samples_string (l : sample list) : string =
  match l with [] -> "-" | _ -> S.concat "," (L.map sample_string l)

let tf_string (t : tfhd) : string =
  hn t.tf_flags ^ "." ^ hn t.tf_ddur ^ "." ^ hn t.tf_dsize ^ "." ^ hn t.tf_dflags

let tr_string (t : trun) : string =
  hn t.tr_version ^ "." ^ hn t.tr_flags ^ "." ^ hn t.tr_fsf

let parse_trex (track : coq_N) (s : string) : trex option =
  if s = "-" then None else
    match split_on '.' s with
    | [d; z; f] -> Some { tx_track = track; tx_ddur = hexn d; tx_dsize = hexn z; tx_dflags = hexn f }
    | _ -> failwith ("bad trex " ^ s)

(* ---- O cases *)
let case_o id opt tfs trs smps txs obs =
  let tf = match split_on '.' tfs with
    | [f; d; z; g; tk] -> { tf_flags = hexn f; tf_track = hexn tk; tf_bdo = N0; tf_sdi = n_of_int 1;
                        tf_ddur = hexn d; tf_dsize = hexn z; tf_dflags = hexn g }
    | _ -> failwith "bad tfhd" in
  let tr = match split_on '.' trs with
    | [v; f; x] -> { tr_version = hexn v; tr_flags = hexn f; tr_doff = z_of_int 0; tr_fsf = hexn x;
                     tr_samples = parse_samples smps; tr_won = N0 }
    | _ -> failwith "bad trun" in
  let tx = parse_trex (n_of_int 1) txs in
  let r = if opt = "1" then optimize tf tr else Base.Ok (tf, tr) in
  let m =
    match r with
    | Base.Err -> "e"
    | Base.Panic -> "p"
    | Base.OutOfFuel -> "fuel"
    | Base.Ok (tf', tr') ->
      let w = wire_trun tr' in
      let rs = resolve tf' tx w in
      let rm = resolve tf' tx tr' in
      let tr100 = { tr' with tr_doff = z_of_int 100 } in
      let tb = match enc_trun tr100 with Base.Ok b -> hex_of_bytes b | _ -> "panic" in
      (* the harness decodes the written trun with DecodeBox / DecodeBoxSR and panics on an error (a hand-set flag word
         without per-sample fields and more than 1024 samples is refused by the decoder's count guard) *)
      (match dec_trun (trun_size tr100) (enc_trun_body tr100) with
       | Base.Ok _ ->
         S.concat "|" [ "o"; tf_string tf'; tr_string tr'; hex_of_bytes (enc_tfhd tf'); tb; tr_string w; samples_string w.tr_samples;
                        samples_string rs; hn (total_dur rs); samples_string rm; hn (total_dur rm) ]
       | _ -> "p") in
  if m = obs then Printf.printf "OK %s\n" id else Printf.printf "MISMATCH %s model=%s\n" id m


(* ---- H cases *)

let kv (cfg : string) : (string * string) list =
  L.map (fun f -> match S.index_opt f '=' with
      | Some i -> (S.sub f 0 i, S.sub f (i + 1) (S.length f - i - 1))
      | None -> (f, "")) (split_on ';' cfg)

let hexlist s = if s = "-" then [] else L.map hexn (split_on ',' s)

let parse_op (s : string) : op * coq_N list (* lazily written data *) =
  match split_on ':' s with
  | ["F"; sm; dts; data] -> (OFull (parse_sample sm, hexn dts, bytes_of_hex data), [])
  | ["A"; sm; dts; data] -> (OMeta (parse_sample sm, hexn dts), bytes_of_hex data)
  | ["T"; tr; sm; dts; data] -> (OFullTo (hexn tr, parse_sample sm, hexn dts, bytes_of_hex data), [])
  | ["M"; tr; sm; dts; data] -> (OMetaTo (hexn tr, parse_sample sm, hexn dts), bytes_of_hex data)
  | ["S"; dts; sms; data] -> (OMetas (parse_samples sms, hexn dts), bytes_of_hex data)
  | ["I"; dts; sms; data] -> (OInterval (hexn dts, parse_samples sms, bytes_of_hex data), [])
  | _ -> failwith ("bad op " ^ s)

let class_char = function COk -> "o" | CErr -> "e" | CPanic -> "p"

let traf_state (fr : frag) : string =
  S.concat "" (L.map (fun t ->
      " T" ^ hn t.tf_hd.tf_track ^ ":" ^ hn t.tf_dt.td_base ^ ":" ^
      (match t.tf_truns with
       | [] -> "-"
       | l -> S.concat "," (L.map (fun r -> hn r.tr_won ^ "." ^ string_of_int_hex (L.length r.tr_samples)) l)))
      fr.fr_trafs)

let traf_enc (fr : frag) : string =
  S.concat "" (L.map (fun t ->
      let h = t.tf_hd in
      " T" ^ hn h.tf_track ^ ":" ^ tf_string h ^ ":" ^ hn t.tf_dt.td_version ^ ":" ^
      (match t.tf_truns with
       | [] -> "-"
       | l -> S.concat "," (L.map (fun r -> hn r.tr_flags ^ "." ^ hn r.tr_fsf ^ "." ^ hz r.tr_doff) l)))
      fr.fr_trafs)

let full_string (l : fullsample list) : string =
  match l with
  | [] -> "-"
  | _ -> S.concat "," (L.map (fun f -> sample_string f.fs_s ^ "." ^ hn f.fs_dts ^ "." ^ hex_of_bytes f.fs_data) l)

let res_class = function Base.Ok _ -> "o" | Base.Err -> "e" | Base.Panic -> "p" | Base.OutOfFuel -> "fuel"

(* ---- histories: sample additions interleaved with AddEmsg (E), AddChild (C) and Encode calls in the middle of the
   history (N: plain, O: with OptimizeTrun), which the model runs as the state transformer encode_state of
   C05EncHistModel.v: outcome class + tfhd / trun flags and data offsets right after each of them are compared (n=) *)
let parse_xbox (s : string) : xbox =
  match split_on '.' s with
  | [k; sz; first; refs] ->
    let kind = (match k with "s" -> XStyp | "x" -> XSidx | "e" -> XEmsg | _ -> XOther) in
    let rl = if refs = "-" then [] else
        L.map (fun r -> match split_on ':' r with
            | [t; z] -> { sr_type = hexn t; sr_size = hexn z }
            | _ -> failwith ("bad ref " ^ r)) (split_on '/' refs) in
    { x_kind = kind; x_size = hexn sz; x_first = hexn first; x_refs = rl }
  | _ -> failwith ("bad xbox " ^ s)

let parse_xboxes (s : string) : xbox list = if s = "-" then [] else L.map parse_xbox (split_on ',' s)

type hop = HS of op * coq_N list | HE of xbox | HC of xbox | HN of bool

let parse_hop (s : string) : hop =
  if s = "N" then HN false
  else if s = "O" then HN true
  else if S.length s > 2 && S.sub s 0 2 = "E:" then HE (parse_xbox (S.sub s 2 (S.length s - 2)))
  else if S.length s > 2 && S.sub s 0 2 = "C:" then HC (parse_xbox (S.sub s 2 (S.length s - 2)))
  else let (o, d) = parse_op s in HS (o, d)

let parse_hops (s : string) : hop list = if s = "-" then [] else L.map parse_hop (split_on ';' s)

(* runs a history from the created fragment fr0 with boxes p0 put in front of the moof; returns the class string,
   the final state (None after a panic), the data the caller writes for the accepted metadata-only additions and the
   observables after every Encode in the middle *)
let nobs_acc : string list ref = ref []

let run_hops (fr0 : frag) (p0 : xbox list) (hops : hop list) : string * lstate option * coq_N list =
  let st = ref (Some (l_start fr0 p0 [])) in
  let b = Buffer.create 16 in
  let lz = ref [] in
  nobs_acc := [];
  (try
     L.iter (fun h ->
         match !st with
         | None -> raise Exit
         | Some s ->
           (match h with
            | HN opt ->
              (match encode_state opt (l_sync s) with
               | (c, Some fr') ->
                 Buffer.add_string b (class_char c);
                 st := Some { l_children = s.l_children; l_frag = fr' };
                 nobs_acc := traf_enc fr' :: !nobs_acc
               | (c, None) -> Buffer.add_string b (class_char c); st := None)
            | _ ->
              let lo = (match h with HS (o, _) -> LSample o | HE x -> LEmsg x | HC x -> LChild x | HN _ -> assert false) in
              (match lstep s lo with
               | Base.Ok s' ->
                 Buffer.add_string b "o";
                 (match h with HS (_, d) -> lz := d :: !lz | _ -> ());
                 st := Some s'
               | Base.Err -> Buffer.add_string b "e"
               | _ -> Buffer.add_string b "p"; st := None))) hops
   with Exit -> ());
  (Buffer.contents b, !st, L.concat (L.rev !lz))

let layout_string (cs : child list) : string =
  match cs with
  | [] -> "-"
  | _ -> S.concat "," (L.map (function
      | KMoof -> "M" | KMdat -> "D"
      | KX x -> (match x.x_kind with XEmsg -> "e" | _ -> "o") ^ hn x.x_size) cs)

let case_h id cfg opss obs =
  let c = kv cfg in
  let g k = L.assoc k c in
  let tracks = hexlist (g "t") in
  let p0 = parse_xboxes (g "lp") in
  let fr0 = if g "m" = "1" then create_multi tracks else create_fragment (L.hd tracks) in
  let fr0 = with_extras fr0 (xsum p0) (hexn (g "mx")) N0 (hexlist (g "tx")) in
  let (classes, sto, lazy_data) = run_hops fr0 p0 (parse_hops opss) in
  let b = Buffer.create 256 in
  Buffer.add_string b ("ops=" ^ classes);
  (match !nobs_acc with [] -> () | l -> Buffer.add_string b ("|n=" ^ S.concat "/" (L.rev l)));
  (match sto with
   | None -> ()
   | Some st ->
     let fr = l_sync st in
     let m = fr.fr_mdat in
     Buffer.add_string b ("|lay=" ^ layout_string st.l_children);
     Buffer.add_string b ("|st=" ^ hn fr.fr_next ^ "/" ^ string_of_int_hex (L.length m.md_data) ^ "/" ^ hn m.md_lazy
                          ^ "/" ^ string_of_int_hex (L.length m.md_parts));
     Buffer.add_string b (traf_state fr);
     if g "enc" = "1" then begin
       let r = encode_frag (g "o" = "1") fr in
       Buffer.add_string b ("|enc=" ^ res_class r);
       match r with
       | Base.Ok fe ->
         Buffer.add_string b ("/" ^ hn (moof_size fe) ^ "/" ^ hn (md_header_size fe.fr_mdat) ^ "/" ^ hn (encoded_len fe));
         Buffer.add_string b (traf_enc fe);
         if g "plain" = "1" then
           Buffer.add_string b ("|moof=" ^ (match enc_moof (hexn (g "seq")) fe with Base.Ok l -> hex_of_bytes l | _ -> "panic"));
         if g "dec" = "1" then begin
           let d = decoded_view fe (hexn (g "p0")) lazy_data in
           Buffer.add_string b "|dec=";
           let trexs = split_on ',' (g "trex") in
           let q name tx =
             let r = get_full_samples d tx in
             Buffer.add_string b (" R" ^ name ^ "=" ^ res_class r);
             (match r with Base.Ok l -> Buffer.add_string b (":" ^ full_string l) | _ -> ()) in
           q "n" None;
           L.iteri (fun i s -> let t = n_of_int (i + 1) in q (hn t) (parse_trex t s)) trexs
         end
       | _ -> ()
     end);
  let m = Buffer.contents b in
  if m = obs then Printf.printf "OK %s\n" id else Printf.printf "MISMATCH %s model=%s\n" id m

(* ---- L cases: Fragment.Children under AddEmsg / AddChild, from any starting layout *)
let parse_layout (s : string) : child list =
  if s = "-" then [] else
    L.map (fun t ->
        if t = "M" then KMoof else if t = "D" then KMdat
        else
          let k = if t.[0] = 'e' then XEmsg else XOther in
          KX { x_kind = k; x_size = hexn (S.sub t 1 (S.length t - 1)); x_first = N0; x_refs = [] }) (split_on ',' s)

let case_l id init opss obs =
  let hops = parse_hops opss in
  let cs = L.fold_left (fun cs h -> match h with HE x -> add_emsg cs x | HC x -> add_child cs x | _ -> cs) (parse_layout init) hops in
  let m = "ops=" ^ S.concat "" (L.map (fun _ -> "o") hops) ^ "|lay=" ^ layout_string cs in
  if m = obs then Printf.printf "OK %s\n" id else Printf.printf "MISMATCH %s model=%s\n" id m

(* ---- G cases: a whole segment as a box stream *)
let case_g id cfg frss obs =
  let c = kv cfg in
  let g k = L.assoc k c in
  let opt = (g "o" = "1") in
  let head = parse_xboxes (g "head") in
  let frs = split_on '#' frss in
  (* every fragment is built and encoded by the model *)
  let items = L.map (fun fs ->
      match split_on '@' fs with
      | [fcfg; opss; pre; post; between] ->
        let fc = kv fcfg in
        let fg k = L.assoc k fc in
        let tracks = hexlist (fg "t") in
        let p0 = parse_xboxes pre and between = parse_xboxes between in
        ignore post;
        let fr0 = if fg "m" = "1" then create_multi tracks else create_fragment (L.hd tracks) in
        let fr0 = with_extras fr0 (xsum p0) (hexn (fg "mx")) N0 (hexlist (fg "tx")) in
        let (_, sto, lazy_data) = run_hops fr0 p0 (parse_hops opss) in
        (match sto with
         | None -> None
         | Some st ->
           (match encode_frag opt (l_sync st) with
            | Base.Ok fe -> Some { ei_pre = pre_of st.l_children; ei_fe = fe; ei_post = post_of st.l_children;
                                   ei_lz = lazy_data; ei_between = between }
            | _ -> None))
      | _ -> failwith "bad fragment spec") frs in
  let m =
    if L.exists (fun o -> o = None) items then "model-does-not-encode"
    else begin
      let its = L.map (function Some i -> i | None -> assert false) items in
      let b = Buffer.create 256 in
      let fr = L.map item_framed its in
      Buffer.add_string b ("fr=" ^ S.concat "" (L.map (fun x -> if x then "1" else "0") fr));
      if L.for_all (fun x -> x) fr then begin
        let r = seg_decode (g "f0" = "1") (hexn (g "p0")) (seg_stream head its) in
        Buffer.add_string b ("|dec=" ^ res_class r);
        (match r with
         | Base.Ok st ->
           Buffer.add_string b ("|segs=" ^ S.concat "," (L.map (fun sg ->
               (if sg.dg_styp then "1" else "0") ^ "." ^ string_of_int_hex (L.length sg.dg_frags)) (L.rev st.fs_segs)));
           Buffer.add_string b ("|frags=" ^ S.concat "," (L.map (fun f ->
               (match f.dr_moof with Some (p, _) -> hn p | None -> "-") ^ "." ^
               (match f.dr_mdat with Some (p, _) -> hn p | None -> "-")) (file_frags st)));
           if g "rd" = "1" then begin
           Buffer.add_string b "|rd=";
           let trexs = split_on ',' (g "trex") in
           let q name tx =
             let r = seg_read st tx in
             Buffer.add_string b (" R" ^ name ^ "=" ^ res_class r);
             (match r with Base.Ok l -> Buffer.add_string b (":" ^ full_string l) | _ -> ()) in
           q "n" None;
           L.iteri (fun i s -> let t = n_of_int (i + 1) in q (hn t) (parse_trex t s)) trexs
           end
         | _ -> ())
      end;
      Buffer.contents b
    end in
  if m = obs then Printf.printf "OK %s\n" id else Printf.printf "MISMATCH %s model=%s\n" id m

(* ---- B cases: malformed sequences of top-level boxes; "m" is the moof of the fixed single-track fragment *)
let case_b id cfg opstr toks obs =
  let c = kv cfg in
  let g k = L.assoc k c in
  let (o, _) = parse_op opstr in
  let fe = match run_ops (create_fragment (n_of_int 1)) [o] with
    | (_, Some fr) -> (match encode_frag false fr with Base.Ok fe -> fe | _ -> failwith "fixed fragment does not encode")
    | _ -> failwith "fixed fragment does not build" in
  let boxes = L.map (fun t ->
      if t = "m" then TMoof (moof_size fe, wire_trafs fe)
      else if S.length t > 0 && t.[0] = 'd' then
        let n = int_of_string ("0x" ^ S.sub t 1 (S.length t - 1)) in
        TMdat (n_of_int 8, L.init n (fun _ -> N0))
      else TX (parse_xbox t)) (split_on ',' toks) in
  let r = seg_decode (g "f0" = "1") (hexn (g "p0")) boxes in
  let b = Buffer.create 128 in
  Buffer.add_string b ("dec=" ^ res_class r);
  (match r with
   | Base.Ok st ->
     Buffer.add_string b ("|segs=" ^ S.concat "," (L.map (fun sg ->
         (if sg.dg_styp then "1" else "0") ^ "." ^ string_of_int_hex (L.length sg.dg_frags)) (L.rev st.fs_segs)));
     let tx k = Some { tx_track = n_of_int k; tx_ddur = N0; tx_dsize = N0; tx_dflags = N0 } in
     Buffer.add_string b ("|frags=" ^ S.concat "," (L.map (fun f ->
         (match f.dr_moof with Some (p, _) -> hn p | None -> "-") ^ "." ^
         (match f.dr_mdat with Some (p, _) -> hn p | None -> "-") ^ "." ^
         res_class (seg_get_full f None) ^ res_class (seg_get_full f (tx 1)) ^ res_class (seg_get_full f (tx 2)))
         (file_frags st)))
   | _ -> ());
  let m = Buffer.contents b in
  if m = obs then Printf.printf "OK %s\n" id else Printf.printf "MISMATCH %s model=%s\n" id m

(* ---- M cases: moof bytes (partly mutated) through the byte-level decoders *)
let case_m id kind boxhex obs =
  let b = bytes_of_hex boxhex in
  let trun_s t = hn t.tr_version ^ "." ^ hn t.tr_flags ^ "." ^ hn t.tr_fsf ^ "." ^ hz t.tr_doff ^ "|" ^ samples_string t.tr_samples in
  let tfhd_s h = hn h.tf_flags ^ "." ^ hn h.tf_track ^ "." ^ hn h.tf_bdo ^ "." ^ hn h.tf_sdi ^ "." ^ hn h.tf_ddur ^ "." ^ hn h.tf_dsize ^ "." ^ hn h.tf_dflags in
  let m =
    match next_box b with
    | Base.Ok ((((typ, _), _), body), _) ->
      if typ = coq_T_MOOF then
        (match dec_moof body with
         | Base.Ok dm ->
           "o|" ^ (match dm.dm_seq with Some s -> hn s | None -> "-") ^
           S.concat "" (L.map (fun t ->
               "|T" ^ (match t.dt_hd with Some h -> tfhd_s h | None -> "-") ^
               ";" ^ (match t.dt_dt with Some d -> hn d.td_version ^ "." ^ hn d.td_base | None -> "-") ^
               S.concat "" (L.map (fun r -> ";" ^ trun_s r) t.dt_truns)) dm.dm_trafs)
         | r -> res_class r)
      else "o|other"
    | r -> res_class r in
  (* one byte changed: the model's framing is stricter than the real decoders (see C05SegCodecModel.v) *)
  if m = obs || (kind = "f" && m = "e") then Printf.printf "OK %s\n" id else Printf.printf "MISMATCH %s model=%s\n" id m

(* ---- D cases: box decoders *)
let rec drop n l = if n = 0 then l else match l with [] -> [] | _ :: t -> drop (n - 1) t
let rec take n l = if n = 0 then [] else match l with [] -> [] | x :: t -> x :: take (n - 1) t

let case_d id kind boxhex obs =
  let b = bytes_of_hex boxhex in
  let size = match rd32 b with Some (sz, _) -> sz | None -> N0 in
  let body = drop 8 b in
  let m =
    if kind = "trun" then
      (match dec_trun size body with
       | Base.Ok t -> "o|" ^ hn t.tr_version ^ "." ^ hn t.tr_flags ^ "." ^ hn t.tr_fsf ^ "." ^ hz t.tr_doff ^ "|" ^ samples_string t.tr_samples
       | Base.Err -> "e" | Base.Panic -> "p" | Base.OutOfFuel -> "fuel")
    else
      (match dec_tfhd body with
       | Base.Ok h -> "o|" ^ hn h.tf_flags ^ "." ^ hn h.tf_track ^ "." ^ hn h.tf_bdo ^ "." ^ hn h.tf_sdi ^ "." ^ hn h.tf_ddur ^ "." ^ hn h.tf_dsize ^ "." ^ hn h.tf_dflags
       | Base.Err -> "e" | Base.Panic -> "p" | Base.OutOfFuel -> "fuel") in
  if m = obs then Printf.printf "OK %s\n" id else Printf.printf "MISMATCH %s model=%s\n" id m

let () =
  iter_lines (fun line ->
      match split_on '\t' line with
      | ["O"; id; opt; tfs; trs; smps; txs; obs] -> case_o id opt tfs trs smps txs obs
      | ["H"; id; cfg; ops; obs] -> case_h id cfg ops obs
      | ["D"; id; kind; boxhex; obs] -> case_d id kind boxhex obs
      | ["G"; id; cfg; frs; obs] -> case_g id cfg frs obs
      | ["B"; id; cfg; op; toks; obs] -> case_b id cfg op toks obs
      | ["M"; id; kind; boxhex; obs] -> case_m id kind boxhex obs
      | ["L"; id; init; ops; obs] -> case_l id init ops obs
      | "STAT" :: _ -> ()
      | _ -> Printf.printf "BADLINE %s\n" (if S.length line > 80 then S.sub line 0 80 else line))
