(* Driver for the C05 model: reads the harness's case lines, recomputes the observables with the
   extracted model, prints one line per case: "OK <id>" or "MISMATCH <id> <model observables>". *)
open BinNums
open Vx
open C05Model

let hexn s = n_of_hex s
let hn n = hex_of_n n
let hz z = hex_of_z z

let parse_sample (s : string) : sample =
  match split_on '.' s with
  | [f; d; z; c] -> { s_flags = hexn f; s_dur = hexn d; s_size = hexn z; s_cto = z_of_hex c }
  | _ -> failwith ("bad sample " ^ s)

let parse_samples (s : string) : sample list =
  if s = "-" then [] else L.map parse_sample (split_on ',' s)

let sample_string (s : sample) : string =
  hn s.s_flags ^ "." ^ hn s.s_dur ^ "." ^ hn s.s_size ^ "." ^ hz s.s_cto

let samples_string (l : sample list) : string =
  match l with [] -> "-" | _ -> S.concat "," (L.map sample_string l)

let tf_string (t : tfhd) : string =
  hn t.tf_flags ^ "." ^ hn t.tf_ddur ^ "." ^ hn t.tf_dsize ^ "." ^ hn t.tf_dflags

let tr_string (t : trun) : string =
  hn t.tr_version ^ "." ^ hn t.tr_flags ^ "." ^ hn t.tr_fsf

let parse_trex (track : coq_N) (s : string) : trex option =
  if s = "-" then None else
    match split_on '.' s with
    | [d; z; f] -> Some { tx_track = track; tx_ddur = hexn d; tx_dsize = hexn z; tx_dflags = hexn f }
    | _ -> failwith ("bad trex " ^ s)

(* ---- O cases *)
let case_o id opt tfs trs smps txs obs =
  let tf = match split_on '.' tfs with
    | [f; d; z; g] -> { tf_flags = hexn f; tf_track = n_of_int 1; tf_bdo = N0; tf_sdi = n_of_int 1;
                        tf_ddur = hexn d; tf_dsize = hexn z; tf_dflags = hexn g }
    | _ -> failwith "bad tfhd" in
  let tr = match split_on '.' trs with
    | [v; f; x] -> { tr_version = hexn v; tr_flags = hexn f; tr_doff = z_of_int 0; tr_fsf = hexn x;
                     tr_samples = parse_samples smps; tr_won = N0 }
    | _ -> failwith "bad trun" in
  let tx = parse_trex (n_of_int 1) txs in
  let r = if opt = "1" then optimize tf tr else Base.Ok (tf, tr) in
  let m =
    match r with
    | Base.Err -> "e"
    | Base.Panic -> "p"
    | Base.OutOfFuel -> "fuel"
    | Base.Ok (tf', tr') ->
      let w = wire_trun tr' in
      let rs = resolve tf' tx w in
      let rm = resolve tf' tx tr' in
      S.concat "|" [ "o"; tf_string tf'; tr_string tr'; tr_string w; samples_string w.tr_samples;
                     samples_string rs; hn (total_dur rs); samples_string rm; hn (total_dur rm) ] in
  if m = obs then Printf.printf "OK %s\n" id else Printf.printf "MISMATCH %s model=%s\n" id m

let () =
  iter_lines (fun line ->
      match split_on '\t' line with
      | ["O"; id; opt; tfs; trs; smps; txs; obs] -> case_o id opt tfs trs smps txs obs
      | "STAT" :: _ -> ()
      | _ -> Printf.printf "BADLINE %s\n" (if S.length line > 80 then S.sub line 0 80 else line))
