(* Driver for the C09 model: reads the harness's case lines
     T <id> <V|M> <stts> <ctts> <stsc> <stsz> <offsets> <stss> <sdtp> <queries>
   rebuilds the Go structs with the model's own decode/AddEntry functions, recomputes every query with the
   extracted model and prints "OK <id>" or "MISMATCH <id> <query> model=<outcome> impl=<outcome>".
   For V (valid) cases it also checks that the theorems' hypothesis `consistent` holds. *)
open Vx
open Base
open C09Model
open C09BuildModel

let n_of_dec (s : string) : BinNums.coq_N = n_of_int (int_of_string s)
let z_of_dec (s : string) : BinNums.coq_Z = z_of_int (int_of_string s)
(* decimal text of an N; values of 2^62 and more (uint64 decode times) do not fit an OCaml int: from the hex text *)
let dec_of_n n =
  let rec pos_bits p = match p with BinNums.Coq_xH -> 1 | BinNums.Coq_xO q | BinNums.Coq_xI q -> 1 + pos_bits q in
  if (match n with BinNums.N0 -> 0 | BinNums.Npos p -> pos_bits p) <= 60 then string_of_int (int_of_n n)
  else begin
    let h = hex_of_n n in
    let digits = ref [0] in     (* little-endian base-10 digits *)
    S.iter (fun c ->
        let carry = ref (hexval c) in
        let ds = L.map (fun d -> let v = d * 16 + !carry in carry := v / 10; v mod 10) !digits in
        let rec ext acc c = if c = 0 then acc else ext (acc @ [c mod 10]) (c / 10) in
        digits := ext ds !carry) h;
    let rec strip l = match l with 0 :: (_ :: _ as t) -> strip t | _ -> l in
    S.concat "" (L.map string_of_int (strip (L.rev !digits)))
  end
let dec_of_z z = string_of_int (int_of_z z)
(* any Z (time codes are int64 nanoseconds: beyond an OCaml int) *)
let dec_of_zbig z = match z with
  | BinNums.Z0 -> "0"
  | BinNums.Zpos p -> dec_of_n (BinNums.Npos p)
  | BinNums.Zneg p -> "-" ^ dec_of_n (BinNums.Npos p)

let triple_colon e = match split_on ':' e with
  | [a; b; c] -> ((n_of_dec a, n_of_dec b), n_of_dec c) | _ -> failwith "stsc entry"
let csv f s = if s = "-" || s = "" then [] else L.map f (split_on ',' s)
let ncsv = csv n_of_dec

let res_str (f : 'a -> string) (r : 'a res) : string =
  match r with
  | Ok a -> "ok/" ^ f a
  | Err -> "err"
  | Panic -> "panic"
  | OutOfFuel -> "outoffuel"

exception Build_err

let get r = match r with Ok a -> a | _ -> raise Build_err

(* ---- build plans (harness/c09/plan.go Encode): start state + explicit builder calls ---- *)
type hist = {
  ctts_start : ctts_box option;                       (* None: no ctts box *)
  ctts_rows0 : (BinNums.coq_N * BinNums.coq_Z) list;  (* the decoded rows *)
  ctts_calls : (BinNums.coq_N list * BinNums.coq_Z list) list;
  stsc_start : stsc_box;
  stsc_rows0 : ((BinNums.coq_N * BinNums.coq_N) * BinNums.coq_N) list;
  stsc_calls : stsc_call list;
}

let lst f s = if s = "" then [] else L.map f (split_on ',' s)
let pair_of s = match split_on ':' s with
  | [c; o] -> (lst n_of_dec c, lst z_of_dec o)
  | [c] -> (lst n_of_dec c, [])
  | _ -> failwith "ctts call"
let triple s = match split_on '.' s with
  | [a; b; c] -> ((n_of_dec a, n_of_dec b), n_of_dec c) | _ -> failwith "stsc row"

let rec take n l = if n <= 0 then [] else match l with [] -> [] | x :: t -> x :: take (n - 1) t

let parse_plan (p : string) : hist =
  match split_on ';' p with
  | [pc; ps; _modes] ->
    let ctts_start, ctts_rows0, ctts_calls =
      if pc = "N" then (None, [], []) else
        match split_on '/' pc with
        | st :: calls ->
          let calls = L.map pair_of calls in
          if st = "E" then (Some ctts_empty, [], calls)
          else
            let (c, o) = pair_of (S.sub st 1 (S.length st - 1)) in
            let rows = L.combine c o in
            (Some (ctts_decode rows), rows, calls)
        | [] -> failwith "ctts plan" in
    let stsc_start, stsc_rows0, stsc_calls =
      match split_on '/' ps with
      | st :: calls ->
        let calls = L.map (fun c ->
            let rest = S.sub c 1 (S.length c - 1) in
            if c.[0] = 's' then SSetSingle (n_of_dec rest)
            else (match triple rest with ((a, b), c) -> SAdd (a, b, c))) calls in
        if st = "E" then (stsc_empty, [], calls)
        else
          let rows = lst triple (S.sub st 1 (S.length st - 1)) in
          (get (stsc_decode rows), rows, calls)
      | [] -> failwith "stsc plan" in
    { ctts_start; ctts_rows0; ctts_calls; stsc_start; stsc_rows0; stsc_calls }
  | _ -> failwith "plan"

let parse_tables (f : string array) (h : hist) : tables =
  (* f.(0..6) = stts ctts stsc stsz offsets stss sdtp ; ctts and stsc are BUILT by the history h with the
     functions the builder theorems are about (ctts_run / stsc_run) *)
  let stts_c, stts_d =
    match split_on ';' f.(0) with [c; d] -> (ncsv c, ncsv d) | _ -> failwith "stts" in
  let ctts = match h.ctts_start with None -> None | Some b -> Some (ctts_run b h.ctts_calls) in
  let stsc = stsc_run h.stsc_start h.stsc_calls in
  let stsz =
    match split_on ';' f.(3) with
    | [u; n; s] -> { sz_uniform = n_of_dec u; sz_number = n_of_dec n; sz_sizes = ncsv s }
    | _ -> failwith "stsz" in
  let stco, co64 =
    match split_on ';' f.(4) with
    | ["S"; o] -> (Some (ncsv o), None)
    | ["C"; o] -> (None, Some (ncsv o))
    | ["N"; _] -> (None, None)
    | _ -> failwith "offsets" in
  let opt s = match split_on ';' s with ["N"] -> None | ["Y"; l] -> Some (ncsv l) | _ -> failwith "opt" in
  { t_stts_count = stts_c; t_stts_delta = stts_d; t_ctts = ctts; t_stsc = stsc; t_stsz = stsz;
    t_stco = stco; t_co64 = co64; t_stss = opt f.(5); t_sdtp = opt f.(6) }

(* the file-level tables of the case line *)
let ctts_rows_of f1 = match split_on ';' f1 with
  | [_; c; o] -> Some (L.combine (ncsv c) (csv z_of_dec o)) | _ -> None
let stsc_rows_of f2 = match split_on ';' f2 with
  | [_; es] -> csv triple_colon es | _ -> failwith "stsc"

let join sep f l = match l with [] -> "-" | _ -> S.concat sep (L.map f l)
let join0 sep f l = S.concat sep (L.map f l)

let pinned = ref false

(* the harness does not call GetContainingChunks when the library's own arithmetic predicts a walk over more than
   2^12 chunks (harness/c09/main.go chunkSpanUnsafe); the same prediction from the model's state *)
let span_unsafe (es : stsc_entry list) a b : bool =
  let ai = int_of_n a and bi = int_of_n b in
  if ai = 0 || bi < ai then false else
    match stsc_find_entry_for_sample es a N0 with
    | Ok sen ->
      (match stsc_find_entry_for_sample es b sen with
       | Ok een ->
         (match idx es sen, idx es een with
          | Ok se, Ok ee ->
            (match div_go (sub32 a se.first_sample) se.spc, div_go (sub32 b ee.first_sample) ee.spc with
             | Ok ks, Ok ke ->
               let m = 4294967296 in
               let sc = (int_of_n ks + int_of_n se.first_chunk) mod m and ec = (int_of_n ke + int_of_n ee.first_chunk) mod m in
               ((ec - sc + m) mod m) > 4096
             | _ -> false)
          | _ -> false)
       | _ -> false)
    | _ -> false

let run_query (tb : tables) (q : string) : string =
  let f = split_on ':' q in
  let a i = n_of_dec (L.nth f i) in
  let cs = tb.t_stts_count and ds = tb.t_stts_delta in
  let es = tb.t_stsc.sc_entries in
  match L.hd f with
  | "dt" -> res_str (fun (t, d) -> dec_of_n t ^ "/" ^ dec_of_n d) (stts_get_decode_time cs ds (a 1))
  | "du" -> res_str dec_of_n (stts_get_dur cs ds (a 1))
  | "tc" -> res_str dec_of_zbig ((if !pinned then C09TimeCodeModel.stts_get_time_code_pinned
                                  else C09TimeCodeModel.stts_get_time_code) cs ds (a 1) (a 2))
  | "st" -> res_str dec_of_n (stts_get_sample_nr_at_time cs ds (a 1))
  | "ct" -> (match tb.t_ctts with None -> "panic" | Some c -> res_str dec_of_z (ctts_get_cto c (a 1)))
  | "ce" -> (match tb.t_ctts with None -> "panic" | Some c -> "ok/" ^ join0 "," dec_of_n c.ct_end)
  | "sy" -> (match tb.t_stss with None -> "panic" | Some l ->
      res_str (fun b -> if b then "1" else "0") (stss_is_sync l (a 1)))
  | "ns" -> "ok/" ^ dec_of_n (stsz_get_nr_samples tb.t_stsz)
  | "sz" -> res_str dec_of_n (stsz_get_sample_size tb.t_stsz (a 1))
  | "ts" -> res_str dec_of_n (stsz_get_total_sample_size tb.t_stsz (a 1) (a 2))
  | "of" -> (match tb.t_stco, tb.t_co64 with
      | Some l, _ -> res_str dec_of_n (get_offset l (a 1))
      | None, Some l -> res_str dec_of_n (get_offset l (a 1))
      | None, None -> "panic")
  | "cn" -> res_str (fun (c, s) -> dec_of_n c ^ "/" ^ dec_of_n s) (stsc_chunk_nr_from_sample_nr es (a 1))
  | "gc" -> res_str (fun c -> dec_of_n c.ch_nr ^ "/" ^ dec_of_n c.ch_start ^ "/" ^ dec_of_n c.ch_n)
              (stsc_get_chunk es (a 1))
  | "cc" when span_unsafe es (a 1) (a 2) -> "unsafe-chunk-span"
  | "gr" when int_of_n (a 1) >= 1 && int_of_n (a 2) <= int_of_n (stsz_get_nr_samples tb.t_stsz)
              && span_unsafe es (a 1) (a 2) -> "unsafe-chunk-span"
  | "cc" -> res_str (join ";" (fun c -> dec_of_n c.ch_nr ^ "." ^ dec_of_n c.ch_start ^ "." ^ dec_of_n c.ch_n))
              (stsc_get_containing_chunks es (a 1) (a 2))
  | "sd" -> res_str dec_of_n ((if !pinned then stsc_get_sample_description_id_pinned
                               else stsc_get_sample_description_id) tb.t_stsc (a 1))
  | "fs" -> "ok/" ^ join0 "," (fun e -> dec_of_n e.first_sample) es ^ "/" ^ dec_of_n tb.t_stsc.sc_single
            ^ "/" ^ join0 "," dec_of_n tb.t_stsc.sc_ids
  | "gd" -> res_str (join ";" (fun s -> dec_of_n s.s_flags ^ "." ^ dec_of_n s.s_dur ^ "." ^ dec_of_n s.s_size
                                        ^ "." ^ dec_of_z s.s_cto))
              ((if !pinned then trak_get_sample_data_pinned else trak_get_sample_data) tb (a 1) (a 2))
  | "gr" -> res_str (join ";" (fun r -> dec_of_n r.r_off ^ "." ^ dec_of_n r.r_size)) (trak_get_ranges tb (a 1) (a 2))
  | _ -> "unknown-query"

(* "pu": the queries of the case line as ONE sequence of state transformers (C09PureModel.run_all) on the case's
   boxes: the state at the end must be the initial state and every answer the answer on the initial state
   (C09_queries_pure / C09_queries_order_independent, here evaluated; the harness compares a snapshot of every field
   of the real boxes before and after its queries) *)
let pure_query (q : string) : C09PureModel.query option =
  let f = split_on ':' q in
  let a i = n_of_dec (L.nth f i) in
  let open C09PureModel in
  match L.hd f with
  | "dt" -> Some (QDecodeTime (a 1)) | "du" -> Some (QDur (a 1)) | "st" -> Some (QSampleAtTime (a 1))
  | "ct" -> Some (QCto (a 1)) | "sy" -> Some (QIsSync (a 1)) | "ns" -> Some QNrSamples
  | "sz" -> Some (QSize (a 1)) | "ts" -> Some (QTotalSize (a 1, a 2)) | "of" -> Some (QOffset (a 1))
  | "cn" -> Some (QChunkOfSample (a 1)) | "gc" -> Some (QGetChunk (a 1)) | "sd" -> Some (QSdid (a 1))
  | "gd" -> Some (QSampleData (a 1, a 2))
  | _ -> None     (* cc / gr: skipped when the harness's runaway-span guard may have skipped them *)
let pure_token (tb : tables) (toks : string list) : string =
  let qs = L.filter_map (fun tok -> match S.index_opt tok '=' with
      | None -> None | Some k -> pure_query (S.sub tok 0 k)) toks in
  let s0 = { C09PureModel.f_frag = false; f_mdat_start = N0; f_mdat_data = []; f_mdat_lazy = N0; f_tb = tb } in
  let (answers, s1) = C09PureModel.run_all qs s0 in
  if s1 = s0 && answers = L.map (fun q -> C09PureModel.eval q s0) qs then "ok/1" else "ok/0"

(* the cache fields after the first i+1 calls of the history, and the outcome class of call i *)
let ctts_state (b : ctts_box) = join0 "," dec_of_n b.ct_end ^ "/" ^ string_of_int (L.length b.ct_off)
let stsc_state (b : stsc_box) =
  join0 "," (fun e -> dec_of_n e.first_sample) b.sc_entries ^ "/" ^ dec_of_n b.sc_single ^ "/" ^ join0 "," dec_of_n b.sc_ids
let cls r = match r with Ok _ -> "ok" | Err -> "err" | Panic -> "panic" | OutOfFuel -> "outoffuel"

let trace_token (h : hist) (q : string) : string =
  let i = int_of_string (S.sub q 2 (S.length q - 2)) in
  if S.sub q 0 2 = "bc" then
    match h.ctts_start with
    | None -> "no-ctts"
    | Some b0 ->
      let before = ctts_run b0 (take i h.ctts_calls) in
      let (c, o) = L.nth h.ctts_calls i in
      cls (ctts_add before c o) ^ "/" ^ ctts_state (ctts_run b0 (take (i + 1) h.ctts_calls))
  else
    let before = stsc_run h.stsc_start (take i h.stsc_calls) in
    cls (stsc_call_res before (L.nth h.stsc_calls i)) ^ "/" ^ stsc_state (stsc_run h.stsc_start (take (i + 1) h.stsc_calls))

(* ---- the hypotheses of the round-4 theorems EVALUATED on the cases of the run (valid stream) ----
   C09_builder_consistent_rows: ids_ok, rows_ok, first chunk 1, the runs hold N samples, N + 1 and C + 1 uint32
   (no raw_ok).  C09_time_code: sample number 1..N, timescale > 0, floor(10^9 t / ts) an int64; its conclusion
   (model = S_time_code of the expansion's decode time) is evaluated too. *)
let hyp_rows = ref 0 and hyp_rows_n = ref 0 and hyp_tc = ref 0 and hyp_tc_n = ref 0
let rows_hyp (tb : tables) (h : hist) : bool =
  let t = stsc_table h.stsc_rows0 h.stsc_calls in
  let c = C09Spec.nchunks tb and n = C09Spec.nsamples tb in
  let one = n_of_int 1 in
  C09RowsModel.ids_ok t && rows_ok t c
  && (match t with ((fc, _), _) :: _ -> fc = one | [] -> false)
  && L.fold_left BinNat.N.add BinNums.N0 (C09Spec.chunk_counts (C09Spec.coq_S_entries t) c) = n
  && C09Spec.is_u32 (BinNat.N.add n one) && C09Spec.is_u32 (BinNat.N.add c one)
let fits_i64 (s : string) : bool =
  let m = "9223372036854775808" in
  S.length s > 0 && s.[0] <> '-' && (S.length s < S.length m || (S.length s = S.length m && compare s m < 0))
(* Some true / Some false: hypotheses hold and the conclusion is true / false; None: hypotheses do not hold *)
let tc_hyp (tb : tables) (q : string) : bool option =
  match split_on ':' q with
  | ["tc"; n; ts] ->
    let ni = int_of_string n and tsi = int_of_string ts in
    if tsi < 1 then None
    else if ni < 1 || ni > int_of_n (C09Spec.nsamples tb) then begin
      (* C09_time_code_past_end: number 0 or past the last sample -> the time code of the end of the track *)
      let total = L.fold_left BinNat.N.add BinNums.N0 (C09Spec.durs tb) in
      let want = C09TimeCodeModel.coq_S_time_code total (n_of_int tsi) in
      if not (fits_i64 (dec_of_zbig want)) then None
      else Some (C09TimeCodeModel.stts_get_time_code tb.t_stts_count tb.t_stts_delta (n_of_int ni) (n_of_int tsi) = Ok want)
    end else
      (match C09Spec.coq_S_decode_time tb (n_of_int ni) with
       | Some t ->
         let want = C09TimeCodeModel.coq_S_time_code t (n_of_int tsi) in
         if not (fits_i64 (dec_of_zbig want)) then None
         else Some (C09TimeCodeModel.stts_get_time_code tb.t_stts_count tb.t_stts_delta (n_of_int ni) (n_of_int tsi) = Ok want)
       | None -> None)
  | _ -> None

let () =
  if Array.length Sys.argv > 1 && Sys.argv.(1) = "pinned" then pinned := true;
  iter_lines (fun line ->
      match split_on '\t' line with
      | ["T"; id; kind; f0; f1; f2; f3; f4; f5; f6; plan; obs] ->
        let toks = split_on ' ' obs in
        (match (try let h = parse_plan plan in Some (h, parse_tables [| f0; f1; f2; f3; f4; f5; f6 |] h)
                with Build_err -> None) with
         | None ->
           if L.hd toks = "build=err" then Printf.printf "OK %s\n" id
           else Printf.printf "MISMATCH %s build model=err impl=ok\n" id
         | Some (h, tb) ->
           if L.hd toks <> "build=ok" then Printf.printf "MISMATCH %s build model=ok impl=err\n" id
           else if kind = "V" && not (C09Spec.consistent tb) then
             Printf.printf "MISMATCH %s consistent model=false (generator promised a consistent table)\n" id
           else if kind = "V" && ctts_rows_of f1 <> None
                   && ctts_rows_of f1 <> Some (L.append h.ctts_rows0 (ctts_table h.ctts_calls)) then
             Printf.printf "MISMATCH %s ctts_table of the history is not the case's ctts table\n" id
           else if kind = "V" && stsc_rows_of f2 <> stsc_table h.stsc_rows0 h.stsc_calls then
             Printf.printf "MISMATCH %s stsc_table of the history is not the case's stsc table\n" id
           else if kind = "V" && not (C09Spec.raw_ok (stsc_table h.stsc_rows0 h.stsc_calls)
                                      && rows_ok (stsc_table h.stsc_rows0 h.stsc_calls) (C09Spec.nchunks tb)) then
             Printf.printf "MISMATCH %s builder-hypotheses model=false (generator promised a history within C09_builder_consistent)\n" id
           else begin
             let bad = ref None in
             if kind = "V" then begin
               incr hyp_rows_n; if rows_hyp tb h then incr hyp_rows
             end;
             L.iter (fun tok ->
                 if !bad = None then
                   match S.index_opt tok '=' with
                   | None -> ()
                   | Some k ->
                     let q = S.sub tok 0 k and r = S.sub tok (k + 1) (S.length tok - k - 1) in
                     if kind = "V" && S.length q > 3 && S.sub q 0 3 = "tc:" && not !pinned then begin
                       incr hyp_tc_n;
                       match tc_hyp tb q with
                       | Some true -> incr hyp_tc
                       | Some false -> bad := Some (q, "C09_time_code-evaluates-false", r)
                       | None -> ()
                     end;
                     let m = if q = "pu" then pure_token tb (L.tl toks)
                       else if S.length q > 2 && (S.sub q 0 2 = "bc" || S.sub q 0 2 = "bs")
                       then trace_token h q else run_query tb q in
                     if m <> r then bad := Some (q, m, r))
               (L.tl toks);
             match !bad with
             | None -> Printf.printf "OK %s\n" id
             | Some (q, m, r) -> Printf.printf "MISMATCH %s %s model=%s impl=%s\n" id q m r
           end)
      | _ -> Printf.printf "BADLINE %s\n" (S.sub line 0 (min 80 (S.length line))));
  Printf.printf "OK #hyp rows=%d/%d tc=%d/%d\n" !hyp_rows !hyp_rows_n !hyp_tc !hyp_tc_n
