(* Driver for the C11 model: reads the case lines (input + implementation observables), recomputes the
   observables with the extracted model, prints "OK <id>" or "MISMATCH <id> <what> <model>". *)
open BinNums
open Vx
open Base
open C11Model

let n_of_dec (s : string) : coq_N = n_of_int (int_of_string s)
let z_of_dec (s : string) : coq_Z = z_of_int (int_of_string s)
let dec_of_n (n : coq_N) : string = string_of_int (int_of_n n)

let parse_track (s : string) : track =
  match split_on ',' s with
  | [k; ts; n; stts; stss; ctts] ->
    let pair f g e = match split_on '*' e with [a; b] -> (f a, g b) | _ -> failwith ("bad entry " ^ e) in
    let stts = if stts = "-" then [] else L.map (pair n_of_dec n_of_dec) (split_on '.' stts) in
    let stss = if stss = "x" then None else if stss = "-" then Some [] else Some (L.map n_of_dec (split_on '.' stss)) in
    let ctts = if ctts = "x" then None else if ctts = "-" then Some [] else Some (L.map (pair n_of_dec z_of_dec) (split_on '.' ctts)) in
    { t_video = (k = "v"); t_timescale = n_of_dec ts; t_nsamples = n_of_dec n; t_stts = stts; t_stss = stss; t_ctts = ctts }
  | _ -> failwith ("bad track " ^ s)

let class_of (r : 'a res) : string =
  match r with Ok _ -> "ok" | Err -> "err" | Panic -> "panic" | OutOfFuel -> "fuel"

let ivs_string (r : (coq_N * coq_N) list res) : string =
  match r with
  | Ok [] -> "ok:-"
  | Ok l -> "ok:" ^ S.concat "," (L.map (fun (a, b) -> dec_of_n a ^ "-" ^ dec_of_n b) l)
  | r -> class_of r

let starts_string (r : (coq_N * sync_point list) res) : string =
  match r with
  | Ok (ts, []) -> "ok:" ^ dec_of_n ts ^ ":-"
  | Ok (ts, l) ->
    "ok:" ^ dec_of_n ts ^ ":" ^
    S.concat "," (L.map (fun p -> dec_of_n p.sp_nr ^ "/" ^ dec_of_n p.sp_dts ^ "/" ^ dec_of_n p.sp_pts) l)
  | r -> class_of r

(* plan observable of the built tool: ok:<ivs>;<ivs> | err | panic *)
let plan_string (r : (coq_N * coq_N) list list res) : string =
  match r with
  | Ok l -> "ok:" ^ S.concat ";" (L.map (fun iv -> match ivs_string (Ok iv) with s -> S.sub s 3 (S.length s - 3)) l)
  | r -> class_of r

let () =
  iter_lines (fun line ->
      match split_on '\t' line with
      | ["S"; id; d; tracks; starts; ivs] ->
        let ts = L.map parse_track (split_on ';' tracks) in
        let st = get_segment_starts ts (n_of_dec d) in
        let ms = starts_string st in
        let mi =
          match st with
          | Ok (sts, sps) -> S.concat ";" (L.map (fun t -> ivs_string (get_segment_intervals sts sps t)) ts)
          | _ -> "-" in
        if ms = starts && mi = ivs then Printf.printf "OK %s\n" id
        else Printf.printf "MISMATCH %s segmenter model_starts=%s model_intervals=%s\n" id ms mi
      | ["T"; id; d; tracks; plan] ->
        let ts = L.map parse_track (split_on ';' tracks) in
        let mp = plan_string (segment_plan ts (n_of_dec d)) in
        if mp = plan then Printf.printf "OK %s\n" id
        else Printf.printf "MISMATCH %s segmenter-tool model_plan=%s\n" id mp
      | _ -> Printf.printf "BADLINE %s\n" line)
