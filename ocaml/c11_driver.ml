(* Driver for the C11 model: reads the case lines (input + implementation observables), recomputes the
   observables with the extracted model, prints "OK <id>" or "MISMATCH <id> <what> <model>". *)
open BinNums
open Vx
open Base
open C11Model

let n_of_dec (s : string) : coq_N = n_of_int (int_of_string s)
let z_of_dec (s : string) : coq_Z = z_of_int (int_of_string s)
let dec_of_n (n : coq_N) : string = string_of_int (int_of_n n)

let parse_track (s : string) : track =
  match split_on ',' s with
  | [k; ts; n; stts; stss; ctts] ->
    let pair f g e = match split_on '*' e with [a; b] -> (f a, g b) | _ -> failwith ("bad entry " ^ e) in
    let stts = if stts = "-" then [] else L.map (pair n_of_dec n_of_dec) (split_on '.' stts) in
    let stss = if stss = "x" then None else if stss = "-" then Some [] else Some (L.map n_of_dec (split_on '.' stss)) in
    let ctts = if ctts = "x" then None else if ctts = "-" then Some [] else Some (L.map (pair n_of_dec z_of_dec) (split_on '.' ctts)) in
    { t_video = (k = "v"); t_timescale = n_of_dec ts; t_nsamples = n_of_dec n; t_stts = stts; t_stss = stss; t_ctts = ctts }
  | _ -> failwith ("bad track " ^ s)

let class_of (r : 'a res) : string =
  match r with Ok _ -> "ok" | Err -> "err" | Panic -> "panic" | OutOfFuel -> "fuel"

let ivs_string (r : (coq_N * coq_N) list res) : string =
  match r with
  | Ok [] -> "ok:-"
  | Ok l -> "ok:" ^ S.concat "," (L.map (fun (a, b) -> dec_of_n a ^ "-" ^ dec_of_n b) l)
  | r -> class_of r

let starts_string (r : (coq_N * sync_point list) res) : string =
  match r with
  | Ok (ts, []) -> "ok:" ^ dec_of_n ts ^ ":-"
  | Ok (ts, l) ->
    "ok:" ^ dec_of_n ts ^ ":" ^
    S.concat "," (L.map (fun p -> dec_of_n p.sp_nr ^ "/" ^ dec_of_n p.sp_dts ^ "/" ^ dec_of_n p.sp_pts) l)
  | r -> class_of r

(* plan observable of the built tool: ok:<ivs>;<ivs> | err | panic *)
let plan_string (r : (coq_N * coq_N) list list res) : string =
  match r with
  | Ok l -> "ok:" ^ S.concat ";" (L.map (fun iv -> match ivs_string (Ok iv) with s -> S.sub s 3 (S.length s - 3)) l)
  | r -> class_of r

(* dts:dur:cto:flags *)
let parse_sample (x : string) : fsample =
  match split_on ':' x with
  | [dts; dur; cto; flags] ->
    { fs_dts = n_of_dec dts; fs_dur = n_of_dec dur; fs_cto = z_of_dec cto; fs_flags = n_of_dec flags; fs_data = [] }
  | _ -> failwith ("bad sample " ^ x)
let parse_samples (s : string) : fsample list = if s = "-" then [] else L.map parse_sample (split_on '/' s)

let counts_string (r : fsample list list res) : string =
  match r with
  | Ok [] -> "ok:-"
  | Ok l -> "ok:" ^ S.concat "," (L.map (fun seg -> string_of_int (L.length seg)) l)
  | r -> class_of r

let layout_string (fo : frag_out) : string =
  match trun_layout fo with
  | [] -> "-"
  | l -> S.concat "," (L.map (fun ((id, w), c) -> dec_of_n id ^ ":" ^ dec_of_n w ^ ":" ^ dec_of_n c) l)


(* ---- the per-sample fetch (G lines): tables of C09Model, file bytes ---- *)
let ten = n_of_int 10
let n_of_bigdec (s : string) : coq_N =
  let acc = ref N0 in
  S.iter (fun c -> acc := BinNat.N.add (BinNat.N.mul !acc ten) (n_of_int (Char.code c - 48))) s;
  !acc
let bigdec_of_n (n : coq_N) : string =
  (* values here fit OCaml ints except hostile co64 offsets, which never reach the output *)
  string_of_int (int_of_n n)
let ncsv (s : string) : coq_N list = if s = "-" || s = "" then [] else L.map n_of_bigdec (split_on ',' s)
let zcsv (s : string) : coq_Z list = if s = "-" || s = "" then [] else L.map z_of_dec (split_on ',' s)

let fetch_tables (f : string array) : C09Model.tables =
  let open C09Model in
  let c, d = match split_on ';' f.(0) with [c; d] -> (ncsv c, ncsv d) | _ -> failwith "stts" in
  let ctts = match split_on ';' f.(1) with
    | ["N"] -> None
    | [e; o] -> Some { ct_end = ncsv e; ct_off = zcsv o }
    | _ -> failwith "ctts" in
  let entries = if f.(2) = "-" then [] else
      L.map (fun e -> match split_on ':' e with
          | [a; b; c] -> { first_chunk = n_of_bigdec a; spc = n_of_bigdec b; first_sample = n_of_bigdec c }
          | _ -> failwith "stsc") (split_on ',' f.(2)) in
  let stsz = match split_on ';' f.(3) with
    | [u; n; s] -> { sz_uniform = n_of_bigdec u; sz_number = n_of_bigdec n; sz_sizes = ncsv s }
    | _ -> failwith "stsz" in
  let stco, co64 = match split_on ';' f.(4) with
    | ["N"] -> (None, None)
    | ["S"; o] -> (Some (ncsv o), None)
    | ["C"; o] -> (None, Some (ncsv o))
    | ["B"; o; o2] -> (Some (ncsv o), Some (ncsv o2))
    | _ -> failwith "offsets" in
  let opt s = match split_on ';' s with ["N"] -> None | ["Y"; l] -> Some (ncsv l) | _ -> failwith "opt" in
  { t_stts_count = c; t_stts_delta = d; t_ctts = ctts;
    t_stsc = { sc_entries = entries; sc_single = n_of_int 1; sc_ids = [] };
    t_stsz = stsz; t_stco = stco; t_co64 = co64; t_stss = opt f.(5); t_sdtp = opt f.(6) }

let full_string (r : C05Model.fullsample list res) : string =
  match r with
  | Ok [] -> "ok:-"
  | Ok l -> "ok:" ^ S.concat ";" (L.map (fun (x : C05Model.fullsample) ->
      let s = x.C05Model.fs_s in
      Printf.sprintf "%s.%s.%s.%d.%s.%s" (dec_of_n s.C05Model.s_flags) (dec_of_n s.C05Model.s_dur)
        (dec_of_n s.C05Model.s_size) (int_of_z s.C05Model.s_cto) (dec_of_n x.C05Model.fs_dts)
        (hex_of_bytes x.C05Model.fs_data)) l)
  | r -> class_of r

let meta_string (r : C05Model.sample list res) : string =
  match r with
  | Ok [] -> "ok:-"
  | Ok l -> "ok:" ^ S.concat ";" (L.map (fun (s : C05Model.sample) ->
      Printf.sprintf "%s.%s.%s.%d" (dec_of_n s.C05Model.s_flags) (dec_of_n s.C05Model.s_dur)
        (dec_of_n s.C05Model.s_size) (int_of_z s.C05Model.s_cto)) l)
  | r -> class_of r

let fetch_case (f : string array) : string option =
  (* f = [| G; id; mode; a; b; stts; ctts; stsc; stsz; offs; stss; sdtp; mstart; mlen; file; full; meta; copy; flags |] *)
  let tb = fetch_tables (Array.sub f 5 7) in
  let a = n_of_bigdec f.(3) and b = n_of_bigdec f.(4) in
  let pf = { C11FetchModel.pf_bytes = bytes_of_hex f.(14); pf_mdat_start = n_of_bigdec f.(12);
             pf_mdat_len = n_of_bigdec f.(13); pf_lazy = (f.(2) = "lazy") } in
  let m_full = full_string (C11FetchModel.fetch_interval pf tb a b) in
  let m_meta = meta_string (C11FetchModel.fetch_meta_interval tb a b) in
  let m_copy = match C11FetchModel.copy_media_data pf tb a b with
    | Ok l -> "ok:" ^ hex_of_bytes l | r -> class_of r in
  let m_flags = match C09Model.create_sample_flags tb.C09Model.t_stss tb.C09Model.t_sdtp a with
    | Ok x -> "ok:" ^ dec_of_n x | r -> class_of r in
  let valid = S.length f.(1) > 1 && f.(1).[1] = 'v' in
  if m_full <> f.(15) then Some ("fetch-full model=" ^ m_full)
  else if m_meta <> f.(16) then Some ("fetch-meta model=" ^ m_meta)
  else if m_copy <> f.(17) then Some ("copy-media-data model=" ^ m_copy)
  else if m_flags <> f.(18) then Some ("translate-flags model=" ^ m_flags)
  else if valid && not (C09Spec.consistent tb && C11Spec.data_ok pf tb && C11Spec.one_offset_box tb) then
    Some "hypotheses model=false (generator promised consistent tables pointing into the file)"
  else if valid && f.(3) = "1" && int_of_n b = int_of_n (C09Spec.nsamples tb) &&
          (match C11FetchModel.fetch_interval pf tb a b with
           | Ok l -> L.map (fun x -> Some x) l <> C11Spec.expansion pf tb || int_of_n b <> L.length l
           | _ -> true) then
    Some "expansion model-fetch-differs-from-expansion"
  else None

(* ---- the writers (W lines): plan -> seg_track / seg_track_lazy / mux_segments -> read_back ---- *)
let md5_8 (l : coq_N list) : string =
  let b = Bytes.create (L.length l) in
  L.iteri (fun i x -> Bytes.set b i (Char.chr ((int_of_n x) land 255))) l;
  S.sub (Digest.to_hex (Digest.bytes b)) 0 8

let wsample (x : C05Model.fullsample) : string =
  let s = x.C05Model.fs_s in
  Printf.sprintf "%s.%s.%d.%d.%s.%s" (dec_of_n x.C05Model.fs_dts) (dec_of_n s.C05Model.s_dur)
    (L.length x.C05Model.fs_data) (int_of_z s.C05Model.s_cto) (dec_of_n s.C05Model.s_flags) (md5_8 x.C05Model.fs_data)

let wfiles (ll : C05Model.fullsample list list) : string =
  match ll with
  | [] -> "-"
  | _ -> S.concat "+" (L.map (fun l -> match l with [] -> "e" | _ -> S.concat "," (L.map wsample l)) ll)

exception Wclass of string
let wget (r : 'a res) : 'a = match r with Ok a -> a | r -> raise (Wclass (class_of r))

let writers_case (mode : string) (d : string) (mstart : string) (mlen : string) (file : string) (tracks : string) : string =
  let trs = L.map (fun t -> match split_on '/' t with
      | [k; ts; f0; f1; f2; f3; f4; f5; f6] ->
        (((k = "v"), n_of_bigdec ts), fetch_tables [| f0; f1; f2; f3; f4; f5; f6 |])
      | _ -> failwith "bad W track") (split_on '|' tracks) in
  let pf = { C11FetchModel.pf_bytes = bytes_of_hex file; pf_mdat_start = n_of_bigdec mstart;
             pf_mdat_len = n_of_bigdec mlen; pf_lazy = (mode = "lazy" || mode = "muxlazy") } in
  let pos0 = n_of_int 24 in
  let trex id = { C05Model.tx_track = id; tx_ddur = N0; tx_dsize = N0; tx_dflags = N0 } in
  try
    let ivss = wget (segment_plan (L.map C11Spec.itrack_of trs) (n_of_bigdec d)) in
    let one = n_of_int 1 in
    let per =
      match mode with
      | "single" ->
        L.map2 (fun (_, tb) ivs ->
            let fes = wget (C11FetchModel.seg_track false pf tb one ivs) in
            wget (C11FetchModel.read_all (C11FetchModel.read_back (trex one) pos0 []) fes)) trs ivss
      | "lazy" ->
        L.map2 (fun (_, tb) ivs ->
            let outs = wget (C11FetchModel.seg_track_lazy false pf tb one ivs) in
            wget (C11FetchModel.read_all (fun (fe, data) -> C11FetchModel.read_back (trex one) pos0 data fe) outs)) trs ivss
      | _ ->
        let strs = L.mapi (fun i ((_, tb), ivs) -> ((tb, n_of_int (i + 1)), ivs)) (L.combine trs ivss) in
        let nsegs = match ivss with ivs :: _ -> nat_of_int (L.length ivs) | [] -> nat_of_int 0 in
        let fes = wget (C11FetchModel.mux_segments false pf strs nsegs) in
        L.mapi (fun i _ -> wget (C11FetchModel.read_all (C11FetchModel.read_back (trex (n_of_int (i + 1))) pos0 []) fes)) trs
    in
    "ok:" ^ S.concat "|" (L.map wfiles per)
  with Wclass c -> c

(* ---- the decoded-level sync theorems on the files the built tool was run on (W lines) ----
   C11Spec.ref_sync_hyps (extracted) = the hypotheses of C11_segmenter_segments_start_sync_applies (modes single / mux:
   lz = false) resp. C11_segmenter_lazy_segments_start_sync_applies (lazy / muxlazy: lz = true), evaluated on the tables
   DecodeFile saw.  When they hold and the tool wrote, the OBSERVED files of the reference track (what the Go reader got
   from the tool's output) must each start with a sample whose flags have bit 16 (sample_is_non_sync_sample) clear; for
   the single-track writers (the theorems' subject) no written file may be empty.  The multiplexed modes are evaluated
   the same way (explored, not proved).  Returns (mismatch, tag for the OK line). *)
let first_sample_sync (file : string) : bool =
  match split_on ',' file with
  | s :: _ -> (match split_on '.' s with
      | [_; _; _; _; fl; _] -> (int_of_string fl) land 65536 = 0
      | _ -> false)
  | [] -> false

let sync_case (mode : string) (d : string) (mstart : string) (mlen : string) (file : string) (tracks : string)
    (obs : string) : string option * string =
  let trs = L.map (fun t -> match split_on '/' t with
      | [k; ts; f0; f1; f2; f3; f4; f5; f6] ->
        (((k = "v"), n_of_bigdec ts), fetch_tables [| f0; f1; f2; f3; f4; f5; f6 |])
      | _ -> failwith "bad W track") (split_on '|' tracks) in
  let lz = (mode = "lazy" || mode = "muxlazy") in
  let mux = (mode = "mux" || mode = "muxlazy") in
  let pf = { C11FetchModel.pf_bytes = bytes_of_hex file; pf_mdat_start = n_of_bigdec mstart;
             pf_mdat_len = n_of_bigdec mlen; pf_lazy = lz } in
  let rec first_video i = function
    | [] -> -1
    | ((v, _), _) :: r -> if v then i else first_video (i + 1) r in
  let k = first_video 0 trs in
  if k < 0 || not (C11Spec.ref_sync_hyps lz pf trs (nat_of_int k) (n_of_bigdec d)) then (None, "")
  else if S.length obs < 3 || S.sub obs 0 3 <> "ok:" then (None, " synchyp=" ^ mode ^ ":tool-refused")
  else
    let per = split_on '|' (S.sub obs 3 (S.length obs - 3)) in
    let files = match L.nth_opt per k with
      | None | Some "-" -> []
      | Some t -> split_on '+' t in
    let bad = L.exists (fun fl -> if fl = "e" then not mux else not (first_sample_sync fl)) files in
    if files = [] || bad then
      (Some ("theorem-instance: ref_sync_hyps hold for the reference track but a written file of it does not start with a sync sample (mode " ^ mode ^ ")"), "")
    else (None, " synchyp=" ^ mode)

(* ---- decoded output of Resegment / Fragmentify (V / Y lines) ---- *)
let parse_data_sample (x : string) : fsample =
  match split_on ':' x with
  | [dts; dur; cto; flags; data] ->
    { fs_dts = n_of_bigdec dts; fs_dur = n_of_dec dur; fs_cto = z_of_dec cto; fs_flags = n_of_dec flags;
      fs_data = bytes_of_hex data }
  | _ -> failwith ("bad data sample " ^ x)
let parse_data_samples (s : string) : fsample list = if s = "-" then [] else L.map parse_data_sample (split_on '/' s)

let pieces_string (tid : coq_N) (r : fsample list list res) : string =
  try
    let pieces = wget r in
    let trex = { C05Model.tx_track = tid; tx_ddur = N0; tx_dsize = N0; tx_dflags = N0 } in
    let outs = L.map (fun seg ->
        let fe = wget (C11FetchModel.write_segment false tid (L.map C11Spec.to_full seg)) in
        wget (C11FetchModel.read_back trex (n_of_int 24) [] fe)) pieces in
    wfiles outs
  with Wclass c -> c


(* ---- combine-segs at the decoded level (C lines) ---- *)
let parse_wire_sample (x : string) : C05Model.sample =
  match split_on '.' x with
  | [fl; du; sz; cto] -> { C05Model.s_flags = n_of_bigdec fl; s_dur = n_of_bigdec du; s_size = n_of_bigdec sz; s_cto = z_of_dec cto }
  | _ -> failwith ("bad wire sample " ^ x)

let parse_trun (x : string) : C05Model.trun =
  match split_on '=' x with
  | [hd; ss] ->
    (match split_on ',' hd with
     | [fl; doff; fsf] ->
       { C05Model.tr_version = N0; tr_flags = n_of_bigdec fl; tr_doff = z_of_dec doff; tr_fsf = n_of_bigdec fsf;
         tr_samples = (if ss = "-" then [] else L.map parse_wire_sample (split_on '/' ss)); tr_won = N0 }
     | _ -> failwith "bad trun head")
  | _ -> failwith ("bad trun " ^ x)

let parse_traf (x : string) : C05FragModel.traf =
  match split_on ':' x with
  | [hd; truns] ->
    (match split_on ',' hd with
     | [fl; tid; bdo; sdi; dd; ds; df; tfdt] ->
       { C05FragModel.tf_hd = { C05Model.tf_flags = n_of_bigdec fl; tf_track = n_of_bigdec tid; tf_bdo = n_of_bigdec bdo;
                                tf_sdi = n_of_bigdec sdi; tf_ddur = n_of_bigdec dd; tf_dsize = n_of_bigdec ds;
                                tf_dflags = n_of_bigdec df };
         tf_dt = { C05FragModel.td_version = N0; td_base = n_of_bigdec tfdt };
         tf_truns = (if truns = "-" then [] else L.map parse_trun (split_on '+' truns)); tf_extra = N0 }
     | _ -> failwith "bad traf head")
  | _ -> failwith ("bad traf " ^ x)

let parse_dfrag (x : string) : C05FragModel.dfrag =
  match split_on ';' x with
  | [ms; pa; data; trafs] ->
    { C05FragModel.df_trafs = (if trafs = "" then [] else L.map parse_traf (split_on '&' trafs));
      df_data = (if data = "-" then [] else bytes_of_hex data);
      df_moof_start = n_of_bigdec ms; df_payload_abs = n_of_bigdec pa }
  | _ -> failwith ("bad fragment " ^ x)

let parse_dfile (x : string) : C05FragModel.dfrag list list =
  if x = "-" then [] else
    L.map (fun seg -> if seg = "-" then [] else L.map parse_dfrag (split_on '^' seg)) (split_on '!' x)

let fulls_string (l : C05Model.fullsample list) : string =
  match l with [] -> "-" | _ -> S.concat "," (L.map wsample l)

let distinct_ids (ids : coq_N list) : coq_N list =
  let seen = Hashtbl.create 7 in
  L.filter (fun t -> let k = int_of_n t in if Hashtbl.mem seen k then false else (Hashtbl.add seen k (); true)) ids

let comb_case (ids : string) (pos0 : string) (files : string) (trexes : string) (refs : string) (obs : string) : string option =
  let ids = if ids = "-" then [] else L.map n_of_bigdec (split_on ',' ids) in
  let files = L.map parse_dfile (split_on '#' files) in
  let txs = L.map (fun t -> match split_on ',' t with
      | [a; b; c; d] -> { C05Model.tx_track = n_of_bigdec a; tx_ddur = n_of_bigdec b; tx_dsize = n_of_bigdec c; tx_dflags = n_of_bigdec d }
      | _ -> failwith "bad trex") (split_on '#' trexes) in
  let refs = split_on '#' refs in
  let pos0 = n_of_bigdec pos0 in
  (* the reference reading of every input *)
  let mrefs = L.map2 (fun f tx ->
      match C11CombModel.single_frag f with
      | Ok _ -> (match C11CombModel.read_input tx f with Ok l -> "ok:" ^ fulls_string l | r -> class_of r)
      | _ -> "-") files txs in
  if mrefs <> refs then Some ("input-reading model=" ^ S.concat "#" mrefs) else
  let res = C11CombModel.combine_media ids files in
  let m = match res with
    | Ok fe ->
      "ok|" ^ S.concat ";" (L.map (fun t ->
          dec_of_n t ^ "=" ^ (match C11CombModel.read_output t N0 N0 N0 pos0 fe with
              | Ok l -> fulls_string l | _ -> "err")) (distinct_ids ids))
    | r -> class_of r in
  if m <> obs then Some ("combine model=" ^ (if S.length m > 500 then S.sub m 0 500 else m)) else
  (* the instance of C11_combine_end_to_end: hypotheses true => every track reads back the reference *)
  let hyps = L.length ids = L.length files && L.length (distinct_ids ids) = L.length ids && files <> [] &&
             L.for_all2 (fun f tx -> match C11CombModel.single_frag f with
                 | Ok d -> C11CombModel.no_trex_reliance d && C11CombModel.din_wf d &&
                           int_of_n tx.C05Model.tx_track = int_of_n (C11CombModel.din_track d)
                 | _ -> false) files txs &&
             L.for_all (fun r -> S.length r >= 3 && S.sub r 0 3 = "ok:") refs in
  if hyps then
    let want = "ok|" ^ S.concat ";" (L.map2 (fun t r -> dec_of_n t ^ "=" ^ S.sub r 3 (S.length r - 3)) ids refs) in
    if want <> obs then Some "theorem-instance hypotheses of C11_combine_end_to_end hold but a track differs from its input" else None
  else None

(* ---- init segments (I lines) ---- *)
let kind_of_entry (b : coq_N list) : coq_N =
  let cc = try S.init 4 (fun i -> Char.chr (int_of_n (L.nth b (4 + i)))) with _ -> "" in
  n_of_int (match cc with
      | "avc1" | "avc3" -> 1 | "hvc1" | "hev1" -> 2 | "mp4a" -> 3 | "ac-3" -> 4 | "ec-3" -> 5 | _ -> 0)

let parse_init (x : string) : C11InitModel.init =
  match split_on '|' x with
  | [traks; trexs] ->
    let tr = if traks = "-" then [] else L.map (fun t ->
        match split_on '=' t with
        | [hd; es] ->
          (match split_on ',' hd with
           | [id; h; ts] ->
             { C11InitModel.it_id = n_of_bigdec id; it_hdlr = n_of_bigdec h; it_timescale = n_of_bigdec ts;
               it_entries = (if es = "-" then [] else
                               L.map (fun e -> let b = bytes_of_hex e in { C11InitModel.se_kind = kind_of_entry b; se_bytes = b })
                                 (split_on '/' es)) }
           | _ -> failwith "bad trak head")
        | _ -> failwith ("bad trak " ^ t)) (split_on '&' traks) in
    let mv = if trexs = "x" then None else if trexs = "-" then Some [] else
        Some (L.map (fun t -> match split_on ',' t with
            | [a; b; c; d; e] -> { C11InitModel.ix_id = n_of_bigdec a; ix_sdi = n_of_bigdec b; ix_ddur = n_of_bigdec c;
                                   ix_dsize = n_of_bigdec d; ix_dflags = n_of_bigdec e }
            | _ -> failwith "bad trex") (split_on '&' trexs)) in
    { C11InitModel.in_traks = tr; in_mvex = mv }
  | _ -> failwith ("bad init " ^ x)

let init_string (i : C11InitModel.init) : string =
  let open C11InitModel in
  let tr = match i.in_traks with
    | [] -> "-"
    | l -> S.concat "&" (L.map (fun t ->
        Printf.sprintf "%s,%s,%s=%s" (dec_of_n t.it_id) (dec_of_n t.it_hdlr) (dec_of_n t.it_timescale)
          (match t.it_entries with [] -> "-" | es -> S.concat "/" (L.map (fun e -> hex_of_bytes e.se_bytes) es))) l) in
  let tx = match i.in_mvex with
    | None -> "x" | Some [] -> "-"
    | Some l -> S.concat "&" (L.map (fun x -> Printf.sprintf "%s,%s,%s,%s,%s" (dec_of_n x.ix_id) (dec_of_n x.ix_sdi)
                                         (dec_of_n x.ix_ddur) (dec_of_n x.ix_dsize) (dec_of_n x.ix_dflags)) l) in
  tr ^ "|" ^ tx

let init_case (kind : string) (ids : string) (inputs : string) : string =
  let ids = if ids = "-" then [] else L.map n_of_bigdec (split_on ',' ids) in
  match kind with
  | "comb" ->
    (match C11InitModel.comb_init ids (L.map parse_init (split_on '#' inputs)) with
     | Ok i -> "ok|" ^ init_string i | r -> class_of r)
  | "seg" ->
    (match C11InitModel.seg_inits (parse_init inputs).C11InitModel.in_traks with
     | Ok l -> "ok|" ^ S.concat "#" (L.map init_string l) | r -> class_of r)
  | "segmux" ->
    (match C11InitModel.seg_mux_init (parse_init inputs).C11InitModel.in_traks with
     | Ok i -> "ok|" ^ init_string i | r -> class_of r)
  | "reseg" ->
    (match C11InitModel.reseg_init (if inputs = "none" then None else Some (parse_init inputs)) with
     | None -> "ok|none" | Some i -> "ok|" ^ init_string i)
  | _ -> "bad-kind"

let opt_n (s : string) : coq_N option = if s = "x" then None else Some (n_of_dec s)

let () =
  iter_lines (fun line ->
      match split_on '\t' line with
      | ["S"; id; d; tracks; starts; ivs] ->
        let ts = L.map parse_track (split_on ';' tracks) in
        let st = get_segment_starts ts (n_of_dec d) in
        let ms = starts_string st in
        let mi =
          match st with
          | Ok (sts, sps) -> S.concat ";" (L.map (fun t -> ivs_string (get_segment_intervals sts sps t)) ts)
          | _ -> "-" in
        if ms = starts && mi = ivs then Printf.printf "OK %s\n" id
        else Printf.printf "MISMATCH %s segmenter model_starts=%s model_intervals=%s\n" id ms mi
      | ["T"; id; d; tracks; plan] ->
        let ts = L.map parse_track (split_on ';' tracks) in
        let mp = plan_string (segment_plan ts (n_of_dec d)) in
        if mp = plan then Printf.printf "OK %s\n" id
        else Printf.printf "MISMATCH %s segmenter-tool model_plan=%s\n" id mp
      | ["R"; id; d; samples; obs] ->
        let frags = if samples = "" || samples = "-" then [] else
            L.map (fun fr -> L.map parse_samples (split_on ';' fr)) (split_on '|' samples) in
        let m = counts_string (resegment_file (n_of_dec d) frags) in
        if m = obs then Printf.printf "OK %s\n" id
        else Printf.printf "MISMATCH %s resegment model=%s\n" id m
      | ["F"; id; d; frags; obs] ->
        let fr = if frags = "" then [] else L.map parse_samples (split_on '|' frags) in
        let m = counts_string (fragmentify (n_of_dec d) fr) in
        if m = obs then Printf.printf "OK %s\n" id
        else Printf.printf "MISMATCH %s fragmentify model=%s\n" id m
      | ["A"; id; ids; ops; obs] ->
        let ids = L.map n_of_dec (split_on ',' ids) in
        let ops = if ops = "-" then [] else L.map (fun o -> match split_on ':' o with
            | [tid; dts; dur] -> (n_of_dec tid, n_of_dec dts, n_of_dec dur)
            | _ -> failwith "bad op") (split_on ',' ops) in
        let (fo, nerr, _) =
          L.fold_left (fun (fo, nerr, i) (tid, dts, dur) ->
              let s = { fs_dts = dts; fs_dur = dur; fs_cto = z_of_int i; fs_flags = n_of_int 33554432; fs_data = [] } in
              match add_sample_to_track fo s tid with
              | Ok fo' -> (fo', nerr, i + 1)
              | _ -> (fo, nerr + 1, i + 1))
            (create_multi ids, 0, 0) ops in
        let seen = Hashtbl.create 7 in
        let per = L.filter_map (fun tid ->
            let k = int_of_n tid in
            if Hashtbl.mem seen k then None else begin
              Hashtbl.add seen k ();
              Some (match read_track fo.fo_trafs tid with
                  | None -> string_of_int k ^ "=err"
                  | Some [] -> string_of_int k ^ "=-"
                  | Some l -> string_of_int k ^ "=" ^
                              S.concat "." (L.map (fun s -> dec_of_n s.fs_dts ^ ":" ^ string_of_int (int_of_z s.fs_cto)) l))
            end) ids in
        let m = Printf.sprintf "%d|%s|%s" nerr (layout_string fo) (S.concat ";" per) in
        if m = obs then Printf.printf "OK %s\n" id
        else Printf.printf "MISMATCH %s add-to-track model=%s\n" id m
      | ["D"; id; tfhd; bits; tx; samples; obs] ->
        let (dd, dz, df) = match split_on ',' tfhd with [a; b; c] -> (opt_n a, opt_n b, opt_n c) | _ -> failwith "bad tfhd" in
        let tx = if tx = "x" then None else
            (match split_on ',' tx with
             | [a; b; c] -> Some { tx_dur = n_of_dec a; tx_size = n_of_dec b; tx_flags = n_of_dec c }
             | _ -> failwith "bad trex") in
        let raw = if samples = "-" then [] else L.map (fun x -> match split_on ':' x with
            | [d; z; f] -> ({ fs_dts = N0; fs_dur = n_of_dec d; fs_cto = Z0; fs_flags = n_of_dec f; fs_data = [] }, n_of_dec z)
            | _ -> failwith "bad raw sample") (split_on '/' samples) in
        let t = { ti_has_dur = (bits.[0] = '1'); ti_has_size = (bits.[1] = '1'); ti_has_flags = (bits.[2] = '1');
                  ti_has_first_flags = (bits.[3] = '1'); ti_samples = L.map fst raw } in
        let f = { fi_def_dur = dd; fi_def_size = dz; fi_def_flags = df; fi_truns = [t] } in
        let res = read_trun f tx t (L.map snd raw) in
        let m = match res with
          | [] -> "-"
          | l -> S.concat "/" (L.map (fun (s, z) -> dec_of_n s.fs_dur ^ ":" ^ dec_of_n z ^ ":" ^ dec_of_n s.fs_flags) l) in
        if m = obs then Printf.printf "OK %s\n" id
        else Printf.printf "MISMATCH %s trun-defaults model=%s\n" id m
      | ["M"; id; s1; s2; obs] ->
        let i1 = parse_samples s1 and i2 = parse_samples s2 in
        let ids = [n_of_int 1; n_of_int 2] in
        let fo = combine_tracks ids [i1; i2] in
        let rd tid = match read_track fo.fo_trafs tid with
          | None -> "err" | Some [] -> "-"
          | Some l -> S.concat "." (L.map (fun s -> dec_of_n s.fs_dts) l) in
        let m = Printf.sprintf "ok|%s|1=%s;2=%s" (layout_string fo) (rd (n_of_int 1)) (rd (n_of_int 2)) in
        if m = obs then Printf.printf "OK %s\n" id
        else Printf.printf "MISMATCH %s combine model=%s\n" id m
      | ["W"; id; mode; d; mstart; mlen; file; tracks; obs] ->
        let m = writers_case mode d mstart mlen file tracks in
        if m <> obs then
          Printf.printf "MISMATCH %s segmenter-writers(%s) model=%s\n" id mode (if S.length m > 600 then S.sub m 0 600 else m)
        else (match sync_case mode d mstart mlen file tracks obs with
            | (Some msg, _) -> Printf.printf "MISMATCH %s %s\n" id msg
            | (None, tag) -> Printf.printf "OK %s%s\n" id tag)
      | ["V"; id; d; tid; samples; obs] ->
        let m = pieces_string (n_of_dec tid) (resegment (n_of_bigdec d) (parse_data_samples samples)) in
        if m = obs then Printf.printf "OK %s\n" id
        else Printf.printf "MISMATCH %s resegment-decoded model=%s\n" id (if S.length m > 600 then S.sub m 0 600 else m)
      | ["Y"; id; d; tid; frags; obs] ->
        let fr = if frags = "" then [] else L.map parse_data_samples (split_on '|' frags) in
        let m = pieces_string (n_of_dec tid) (fragmentify (n_of_dec d) fr) in
        if m = obs then Printf.printf "OK %s\n" id
        else Printf.printf "MISMATCH %s fragmentify-decoded model=%s\n" id (if S.length m > 600 then S.sub m 0 600 else m)
      | ["C"; id; ids; pos0; files; trexes; refs; obs] ->
        (match comb_case ids pos0 files trexes refs obs with
         | None -> Printf.printf "OK %s\n" id
         | Some m -> Printf.printf "MISMATCH %s %s\n" id m)
      | ["X"; id; opt; ids; groups; obs] ->
        let ids = L.map n_of_bigdec (split_on ',' ids) in
        let g = L.map2 (fun t s -> (t, L.map C11Spec.to_full (parse_data_samples s))) ids (split_on '|' groups) in
        let m = match C11FetchModel.write_mux_segment (opt = "1") ids g with
          | Ok fe ->
            "ok|" ^ S.concat ";" (L.map (fun t ->
                dec_of_n t ^ "=" ^ (match C11FetchModel.read_back
                                            { C05Model.tx_track = t; tx_ddur = n_of_int 7; tx_dsize = n_of_int 1; tx_dflags = n_of_int 65536 }
                                            N0 [] fe with
                                    | Ok l -> fulls_string l | _ -> "err")) ids)
          | r -> class_of r in
        if m = obs then Printf.printf "OK %s\n" id
        else Printf.printf "MISMATCH %s mux-segment(opt=%s) model=%s\n" id opt (if S.length m > 600 then S.sub m 0 600 else m)
      | ["I"; id; kind; ids; inputs; obs] ->
        let m = init_case kind ids inputs in
        if m = obs then Printf.printf "OK %s\n" id
        else Printf.printf "MISMATCH %s init(%s) model=%s\n" id kind (if S.length m > 700 then S.sub m 0 700 else m)
      | "G" :: id :: _ ->
        let f = Array.of_list (split_on '\t' line) in
        if Array.length f <> 19 then Printf.printf "BADLINE %s\n" line
        else (match fetch_case f with
            | None -> Printf.printf "OK %s\n" id
            | Some m -> Printf.printf "MISMATCH %s %s\n" id m)
      | _ -> Printf.printf "BADLINE %s\n" line)
