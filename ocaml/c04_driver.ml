(* Driver for the C04 models: reads the harness's case lines (R reader histories, B box trees on both
   paths, A shape lists), recomputes the observables with the extracted model, prints "OK <id>" or
   "MISMATCH <id> <what> <model>".  The repaired text (g = true) is the one compared with /repo. *)
open Vx
open BinNums
open Base
open C04Model
open C04AsmModel
open C04AllocModel
open C04MfraModel
open C04TreeModel
open C04TreeXModel
open C04XrefModel
open C04InfoModel

let zarg s = z_of_hex s

let parse_rop (s : string) : rop =
  match split_on ':' s with
  | ["u8"] -> RU8 | ["u16"] -> RU16 | ["i16"] -> RI16 | ["u24"] -> RU24 | ["u32"] -> RU32
  | ["i32"] -> RI32 | ["u64"] -> RU64 | ["i64"] -> RI64
  | ["fs"; n] -> RFixedStr (zarg n) | ["zs"; n] -> RZStr (zarg n) | ["pz"; n] -> RPZStr (zarg n)
  | ["rb"; n] -> RBytes (zarg n) | ["rem"] -> RRemaining | ["nr"] -> RNrRemaining
  | ["sk"; n] -> RSkip (zarg n) | ["sp"; n] -> RSetPos (zarg n) | ["gp"] -> RGetPos | ["len"] -> RLength
  | ["la"; o; d] -> RLookAhead (zarg o, n_of_int (int_of_string d)) | ["ae"] -> RAccError
  | _ -> failwith ("bad rop " ^ s)

let b01 b = if b then "1" else "0"

let rval_string (v : rval) : string =
  match v with
  | VN n -> hex_of_n n
  | VZ z -> hex_of_z z
  | VBytes l -> hex_of_bytes l
  | VStr (l, ok) -> hex_of_bytes l ^ ":" ^ b01 ok
  | VLook None -> "E"
  | VLook (Some l) -> "L" ^ hex_of_bytes l
  | VBool b -> b01 b
  | VUnit -> "u"

let rec name_hex (l : coq_N list) : string =
  S.concat "" (L.map (fun x -> Printf.sprintf "%02x" (int_of_n x)) l)

let dec_of_n (n : coq_N) : string =
  (* decimal rendering of a uint64 value *)
  Printf.sprintf "%Lu" (Int64.of_string ("0x" ^ hex_of_n n))

let rec dump (t : tree) : string =
  match t with
  | Leaf (nm, sz) -> name_hex nm ^ ":" ^ dec_of_n sz
  | Node (nm, kids) -> name_hex nm ^ ":" ^ dec_of_n (tsize t) ^ "{" ^ S.concat "," (L.map dump kids) ^ "}"

let cls_of (r : 'a res) : string =
  match r with Ok _ -> "ok" | Err -> "err" | Panic -> "panic" | OutOfFuel -> "hang"

(* ---- shapes *)
let parse_traf (s : string) : trafshape =
  let atoms = if s = "-" then [] else split_on '+' s in
  let tfhd = L.mem "h" atoms in
  let senc = if L.mem "s0" atoms then Some SencParsed else if L.mem "s1" atoms then Some (SencUnparsed true)
    else if L.mem "s2" atoms then Some (SencUnparsed false) else None in
  let saio = if L.mem "a0" atoms then Some SaioEmpty else if L.mem "a1" atoms then Some SaioMatch
    else if L.mem "a2" atoms then Some SaioMismatch else None in
  let truns = L.filter_map (fun a -> match a with "t0" -> Some TrunNoOffset | "t1" -> Some TrunZeroOffset
                                               | "t2" -> Some TrunOffset | _ -> None) atoms in
  { t_tfhd = tfhd; t_senc = senc; t_saio = saio; t_truns = truns }

let ni s = n_of_int (int_of_string s)

(* tfra tokens "id=o1,o2[~rendering annotations]" separated by '|' *)
let parse_tfras (s : string) =
  if s = "" then [] else
    L.map (fun t ->
        let t = (match split_on '~' t with x :: _ -> x | [] -> t) in
        match split_on '=' t with
        | [tid; offs] -> (ni tid, if offs = "" then [] else L.map ni (split_on ',' offs))
        | _ -> failwith "bad tfra") (split_on '|' s)

let parse_mfro (s : string) = if s = "n" then None else Some (ni s)

let after_colon (rest : string) : string * string =
  match S.index_opt rest ':' with
  | Some i -> (S.sub rest 0 i, S.sub rest (i + 1) (S.length rest - i - 1))
  | None -> (rest, "")

let rec parse_shape (tok : string) : xshape * coq_N =
  match split_on '@' tok with
  | [code; size] when code.[0] = 'B' ->
    let (mf, tf) = after_colon (S.sub code 1 (S.length code - 1)) in
    (XMfra (parse_tfras tf, parse_mfro mf), ni size)
  | [code; size] when code.[0] = 'R' ->
    (XMfro (ni (S.sub code 1 (S.length code - 1))), ni size)
  | [code; size] when code.[0] = 'W' ->
    let (hd, tf) = after_colon (S.sub code 1 (S.length code - 1)) in
    (match split_on '.' hd with
     | [pre; mf] -> (XMdatMfra (ni pre, parse_tfras tf, parse_mfro mf), ni size)
     | _ -> failwith "bad W")
  | _ -> let (t, sz) = parse_top tok in (XTop t, sz)

and parse_top (tok : string) : topshape * coq_N =
  match split_on '@' tok with
  | [code; size] ->
    let sz = ni size in
    let c = code.[0] in
    let rest = S.sub code 1 (S.length code - 1) in
    let sh =
      match c with
      | 'F' -> TFtyp
      | 'M' -> (match split_on '.' rest with
          | [d; n] -> TMoov (MoovChain (nat_of_int (int_of_string d), ni n))
          | _ -> failwith "bad M")
      | 'S' -> TStyp
      | 'X' -> (match split_on ':' rest with
          | [fo; refs] ->
            let rs = if refs = "" then [] else L.map (fun r -> match split_on '.' r with
                | [t; s] -> (t = "1", ni s) | _ -> failwith "bad ref") (split_on ',' refs) in
            TSidx { sx_first = ni fo; sx_refs = rs }
          | _ -> failwith "bad X")
      | 'E' -> TEmsg
      | 'O' -> if rest = "" then TMoof []
        else TMoof (L.map parse_traf (split_on '/' (S.sub rest 1 (S.length rest - 1))))
      | 'D' -> TMdat (ni rest)
      | 'A' -> if rest = "" then TMfra []
        else TMfra (parse_tfras (S.sub rest 1 (S.length rest - 1)))
      | 'U' -> TOther
      | _ -> failwith ("bad shape " ^ tok) in
    (sh, sz)
  | _ -> failwith ("bad shape token " ^ tok)

let file_obs (f : fstate) : string =
  let seg_s sg =
    let (((start, styp), nsidx), frs) = obs_segment sg in
    Printf.sprintf "%d.%s.%d[%s]" (int_of_n start) (b01 styp) (int_of_n nsidx)
      (S.concat "," (L.map (fun (((st, nch), hm), hd) ->
           Printf.sprintf "%d.%d.%s.%s" (int_of_n st) (int_of_n nch) (b01 hm) (b01 hd)) frs)) in
  Printf.sprintf "frag=%s|init=%s|mdat=%s|nsidx=%d|mfra=%s|nch=%d|segs=%s"
    (b01 (f_frag f))
    (match f_init f with Some l -> string_of_int (L.length l) | None -> "-")
    (match f_mdat f with Some p -> string_of_int (int_of_n p) | None -> "-")
    (L.length (f_sidxs f)) (b01 (f_mfra f)) (L.length (f_children f))
    (S.concat ";" (L.map seg_s (L.rev (f_segs f))))

let model_pipeline (cfg : string) (shapes : (xshape * coq_N) list) : string =
  let o = { o_sr = (cfg.[0] = 'S'); o_lazy = (cfg.[1] = 'L');
            o_ism = ((Char.code cfg.[2] - 48) land 1 = 1); o_start_on_moof = ((Char.code cfg.[2] - 48) land 2 = 2) } in
  match assemble_x true o shapes with
  | Ok f ->
    let i = cls_of (info_file true f) in
    let e0 = cls_of (encode_file true false f) in
    let e1 = cls_of (encode_file true true f) in
    Printf.sprintf "dec=ok|%s|i=%s,%s,%s|e0=%s,%s|e1=%s,%s" (file_obs f) i i i e0 e0 e1 e1
  | r -> "dec=" ^ cls_of r

(* specificBoxLevels as getInfoLevel reads it: tokens "type:level" separated by ","; tokens without ":" or with an
   empty type are skipped; a level that strconv.Atoi rejects is None *)
let name_of_string (s : string) : coq_N list = L.init (S.length s) (fun i -> n_of_int (Char.code s.[i]))
let z_of_int (i : int) : coq_Z =
  if i = 0 then Z0 else if i > 0 then (match n_of_int i with Npos p -> Zpos p | N0 -> Z0)
  else (match n_of_int (-i) with Npos p -> Zneg p | N0 -> Z0)
let atoi (s : string) : coq_Z option =
  let ok = S.length s > 0 && (let st = if s.[0] = '-' || s.[0] = '+' then 1 else 0 in
                              S.length s > st && (let r = ref true in S.iteri (fun i c -> if i >= st && not (c >= '0' && c <= '9') then r := false) s; !r)) in
  if ok then Some (z_of_int (int_of_string (if s.[0] = '+' then S.sub s 1 (S.length s - 1) else s))) else None
let tokens_of_spec (spec : string) =
  if spec = "" then [] else
    L.filter_map (fun bl ->
        match S.index_opt bl ':' with
        | Some i when i >= 1 -> Some (name_of_string (S.sub bl 0 i), atoi (S.sub bl (i + 1) (S.length bl - i - 1)))
        | _ -> None) (split_on ',' spec)
let lines_at (st : ibox) (bt : string) (spec : string) : string =
  match info_lines st (get_info_level (name_of_string bt) (tokens_of_spec spec)) with
  | Ok n -> string_of_int (int_of_n n)
  | r -> cls_of r
let info_specs (t : string) : string list =
  [""; "all:0"; "all:1"; "all:2"; t ^ ":1"; t ^ ":2"; "all:1," ^ t ^ ":0"; t ^ ":x"; "all:-1"; ":1,all:1"; t;
   "all:1,all:0"; "zzzz:5,all:2," ^ t ^ ":0"; t ^ ":1,all:0"; "all:x," ^ t ^ ":3"; "all:1,:0"]

let () =
  iter_lines (fun line ->
      match split_on '\t' line with
      | ["R"; id; bufhex; ops; obs] ->
        let ops = L.map parse_rop (split_on ';' ops) in
        let rec go s ops acc =
          match ops with
          | [] -> L.rev acc
          | o :: t ->
            (match rstep s o with
             | Ok (v, s') ->
               go s' t (Printf.sprintf "%s/%s/%s" (rval_string v) (hex_of_z (rpos s')) (b01 (rerr s')) :: acc)
             | Panic -> L.rev ("P" :: acc)
             | Err -> L.rev ("ERR" :: acc)
             | OutOfFuel -> L.rev ("FUEL" :: acc)) in
        let m = S.concat "," (go (rnew (bytes_of_hex bufhex)) ops []) in
        if m = obs then Printf.printf "OK %s\n" id else Printf.printf "MISMATCH %s reader model=%s\n" id m
      | [("B" | "G") as knd; id; hex; o1; o2] ->
        let bs = bytes_of_hex hex in
        let std_leaves = if knd = "G" then tblx_leaves else std_leaves in
        let m1 =
          match box_r std_leaves bs with
          | (Ok BEof, _) -> "eof"
          | (Ok (BBox t), s) -> Printf.sprintf "ok:%s:%d" (dump t) (int_of_n (ipos s))
          | (r, _) -> cls_of r in
        let m2 =
          match box_sr std_leaves bs with
          | (Ok t, s) -> Printf.sprintf "ok:%s:%s:%s" (dump t) (hex_of_z (rpos (sr s)) |> fun h -> string_of_int (int_of_string ("0x" ^ h))) (b01 (rerr (sr s)))
          | (r, _) -> cls_of r in
        if m1 = o1 && m2 = o2 then Printf.printf "OK %s\n" id
        else Printf.printf "MISMATCH %s box model_r=%s model_sr=%s\n" id m1 m2
      | ["A"; id; cfg; shapes; obs] | ["T"; id; cfg; shapes; obs] ->
        let sh = if shapes = "-" then [] else L.map parse_shape (split_on ';' shapes) in
        let m = model_pipeline cfg sh in
        if m = obs then Printf.printf "OK %s\n" id else Printf.printf "MISMATCH %s assembly model=%s\n" id m
      | ["X"; id; _cfg; moov; ms; trafs; obs] ->
        (* cross references of the second senc pass: decode class and the state of the picked senc of every traf *)
        let nl s = if s = "" then [] else split_on ',' s in
        let parse_trak t = match split_on '.' t with
          | [id; e] ->
            let tk = if id = "n" then None else Some (ni id) in
            let ek = if e = "n" then ENone
              else EAV (e.[0] = 'e', if S.length e = 1 then None else Some (ni (S.sub e 1 (S.length e - 1)))) in
            (tk, ek)
          | _ -> failwith "bad trak" in
        let moovc = if moov = "-" then None
          else Some (let b = S.sub moov 1 (S.length moov - 1) in if b = "" then [] else L.map parse_trak (split_on ';' b)) in
        let parse_senc t = match split_on '.' t with
          | [pf; off; fl; cnt; raw] ->
            { se_piff = (pf = "1"); se_off = ni off; se_flags = ni fl; se_count = ni cnt; se_raw = bytes_of_hex raw }
          | _ -> failwith "bad senc" in
        let parse_xtraf t =
          let fs = split_on '|' t in
          let get c = L.find (fun f -> f.[0] = c) fs in
          let h = get 'h' and a = get 'a' and b = get 'b' and g = get 'g' and s = get 's' in
          let rest f = S.sub f 2 (S.length f - 2) in
          { xt_tfhd = (if h = "h-" then None else Some (ni (S.sub h 1 (S.length h - 1))));
            xt_saio = (if a = "a-" then None else Some (L.map n_of_hex (nl (rest a))));
            xt_sbgp = (if b = "b-" then None else
                         let es = L.map (fun e -> match split_on '.' e with [c; i] -> (ni c, ni i) | _ -> failwith "bad sbgp") (nl (S.sub b 4 (S.length b - 4))) in
                         Some { sb_seig = (b.[2] = '1'); sb_counts = L.map fst es; sb_idx = L.map snd es });
            xt_sgpd = (if g = "g-" then None else
                         Some { sg_seig = (g.[2] = '1');
                                sg_entries = L.map (fun e -> if e = "o" then SGOther else SGSeig (ni (S.sub e 1 (S.length e - 1)))) (nl (S.sub g 4 (S.length g - 4))) });
            xt_sencs = (let r = rest s in if r = "" then [] else L.map parse_senc (split_on ';' r)) } in
        let tl = if trafs = "" then [] else L.map parse_xtraf (split_on '/' trafs) in
        let m =
          match moof_senc_pass_x moovc (ni ms) tl with
          | Ok states ->
            "dec=ok|t=" ^ S.concat "," (L.map2 (fun tr st ->
                let info st = S.concat ":" (L.map (lines_at st "senc") [""; "senc:1"; "all:2,senc:0"; "all:1"]) in
                match picked_senc tr, st with
                | None, _ -> "-"
                | Some s, Some ((a, b), iv) ->
                  (match senc_parsed_state (se_flags s) (se_count s) (se_raw s) iv with
                   | Some ist -> Printf.sprintf "0:%d:%d:%s" (int_of_n a) (int_of_n b) (info ist)
                   | None -> "0:state-not-wf")
                | Some s, None ->
                  let raw = n_of_int (L.length (se_raw s)) in
                  let ist = if se_unparsed s then ISencUnparsed raw else ISenc (se_flags s, se_count s, N0, N0, [], raw) in
                  Printf.sprintf "%s:0:0:%s" (b01 (se_unparsed s)) (info ist)) tl states)
          | r -> "dec=" ^ cls_of r in
        if m = obs then Printf.printf "OK %s\n" id else Printf.printf "MISMATCH %s xref model=%s\n" id m
      | ["I"; id; path; nmhex; hex; cls; lns] ->
        (* Info of a table box: decode class and the number of lines at every level string *)
        let bs = bytes_of_hex hex in
        let bt = S.concat "" (L.map (fun x -> S.make 1 (Char.chr (int_of_n x land 255))) (bytes_of_hex nmhex)) in
        (match state_of_box (path = "S") bs with
         | None -> Printf.printf "MISMATCH %s info box %s is not modelled\n" id bt
         | Some None ->
           if cls = "err" then Printf.printf "OK %s\n" id else Printf.printf "MISMATCH %s info %s model=err\n" id bt
         | Some (Some st) ->
           let m = S.concat ";" (L.map (lines_at st bt) (info_specs bt)) in
           if cls = "ok" && m = lns then Printf.printf "OK %s\n" id
           else Printf.printf "MISMATCH %s info %s model=ok %s\n" id bt m)
      | ["C"; id; path; hex; cls; cnt; lb] ->
        (* count-field inflation of a table box: outcome class, decoded entry count and allocation bucket
           against the prologue models of C04AllocModel.v *)
        let bs = bytes_of_hex hex in
        let len = L.length bs in
        let nm = S.concat "" (L.map (fun x -> S.make 1 (Char.chr (int_of_n x land 255))) (name_of bs)) in
        let r = if path = "S" then alloc_box_sr bs else alloc_box_r bs in
        let lb = int_of_string lb in
        (match r with
         | None ->
           Printf.printf "MISMATCH %s count box %s is not modelled\n" id nm
         | Some (Ok o) ->
           let mcls = if o_ok o then "ok" else "err" in
           (* ssix / leva: only the prologue is modelled, the entry loop may still fail *)
           let partial = (nm = "ssix" || nm = "leva") in
           let cls_ok = (cls = mcls) || (partial && mcls = "ok" && cls = "err") in
           let cnt_ok = (cls <> "ok") || int_of_string cnt = int_of_n (o_count o) in
           let al = int_of_n (o_alloc o) in
           let hi = if lb >= 62 then max_int else 1 lsl lb in
           let lo = if lb = 0 then 0 else 1 lsl (lb - 1) in
           (* runtime/metrics counts small objects only when their span is flushed: the lower bound is checked for
              large tables only (objects above 32 KiB are counted at once), and the upper bound allows append's growth (up to ~5x the final size in total) and 1 MiB of slack for
              small objects of earlier jobs that are accounted late *)
           let alloc_ok = (al < 131072 || hi >= al / 2) && lo <= 8 * al + 64 * len + 1048576 in
           if cls_ok && cnt_ok && alloc_ok then Printf.printf "OK %s\n" id
           else Printf.printf "MISMATCH %s count %s model class=%s count=%d alloc=%d iters=%d (class %b count %b alloc %b)\n"
               id nm mcls (int_of_n (o_count o)) al (int_of_n (o_iters o)) cls_ok cnt_ok alloc_ok
         | Some Panic ->
           if cls = "panic" then Printf.printf "OK %s\n" id else Printf.printf "MISMATCH %s count %s model=panic\n" id nm
         | Some _ -> Printf.printf "MISMATCH %s count %s model=err/fuel\n" id nm)
      | ["Q"; id; cfg; hex; dcls; pcls; niv; nsub; lb] ->
        (* both phases of senc: decode class, ParseReadBox class, len(IVs), len(SubSamples), allocation bucket *)
        let bs = bytes_of_hex hex in
        let len = L.length bs in
        let iv = n_of_int (int_of_string (S.sub cfg 1 (S.length cfg - 1))) in
        let lb = int_of_string lb in
        (match senc_box (cfg.[0] = 'S') bs iv with
         | None -> Printf.printf "MISMATCH %s senc not a senc box\n" id
         | Some (Ok (((((dok, pok), a), b), al), it)) ->
           let al = int_of_n al in
           let hi = if lb >= 62 then max_int else 1 lsl lb in
           let lo = if lb = 0 then 0 else 1 lsl (lb - 1) in
           let ok =
             if not dok then dcls = "err"
             else dcls = "ok" && pcls = (if pok then "ok" else "err")
                  && ((not pok) || (int_of_string niv = int_of_n a && int_of_string nsub = int_of_n b))
                  && (al < 131072 || hi >= al / 2) && lo <= 8 * al + 64 * len + 1048576 in
           if ok then Printf.printf "OK %s\n" id
           else Printf.printf "MISMATCH %s senc model dec=%b parse=%b ivs=%d subs=%d alloc=%d iters=%d\n" id dok pok (int_of_n a) (int_of_n b) al (int_of_n it)
         | Some _ -> Printf.printf "MISMATCH %s senc model=panic/fuel\n" id)
      | "FAIL" :: _ | "STATS" :: _ | "EVALS" :: _ -> ()
      | _ -> Printf.printf "BADLINE %s\n" line)
