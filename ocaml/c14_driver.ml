(* Driver for the C14 model: reads the harness's case lines
     F \t id \t fn \t args \t input-hex \t result
   recomputes the result with the extracted model, prints "OK <id>" or "MISMATCH <id> <fn> model=<result>".
   It also EVALUATES THE HYPOTHESES of the byte-level theorems C14_stream_bytes / C14_sample_bytes on the input
   (the extracted recognisers wf_stream / wf_sample, fit_units, hevc_stream_units, hevc_units): where they hold,
   the right-hand side of the theorem (list functions of the units read from the bytes, coq/c14/C14Spec.v and
   C14HevcSpec.v -- not the model of the function) is compared with what the Go code returned:
   "OK <id> T" (theorem applied and confirmed) or "THM-MISMATCH <id> <fn> theorem=<result>". *)
open Vx
open BinNums
open Base
open C14Model
open C14HevcModel
open C14AvcModel

let show_res (f : 'a -> string) (r : 'a res) : string =
  match r with
  | Ok a -> "ok:" ^ f a
  | Err -> "err"
  | Panic -> "panic"
  | OutOfFuel -> "fuel"

let show_list (l : coq_N list list) : string = "[" ^ S.concat "," (L.map hex_of_bytes l) ^ "]"
let show_bool b = if b then "1" else "0"
let show_types (l : coq_N list) : string = csv_of_ints (L.map int_of_n l)
let show_ps (((v, s), p) : (coq_N list list * coq_N list list) * coq_N list list) : string =
  show_list v ^ ";" ^ show_list s ^ ";" ^ show_list p
let show_scan ((scs, m) : (coq_Z * coq_Z) list * coq_Z) : string =
  Printf.sprintf "%d;%s" (int_of_z m)
    (S.concat "," (L.map (fun (l, p) -> Printf.sprintf "%d:%d" (int_of_z l) (int_of_z p)) scs))

let model (fn : string) (args : int list) (d : coq_N list) : string =
  let a k = n_of_int (L.nth args k) in
  match fn with
  | "hzb" -> "ok:" ^ show_bool (has_zero_byte (word_le d))
  | "scan" -> show_res show_scan (get_start_code_positions d)
  (* cases produced by the GOARCH=386 build of the harness: the transcription for uintSize = 4 (C14Scan32Model.v) *)
  | "hzb32" -> "ok:" ^ show_bool (C14Scan32Model.has_zero_byte32 (word_le d))
  | "scan32" -> show_res show_scan (C14Scan32Model.get_start_code_positions32 d)
  | "b2s32" -> show_res hex_of_bytes (C14Scan32Model.to_nalu_sample32 d)
  | "b2s" -> show_res hex_of_bytes (to_nalu_sample d)
  | "s2b" -> show_res hex_of_bytes (to_byte_stream d)
  | "gnfs" -> show_res show_list (get_nalus_from_sample d)
  | "enb" -> show_res show_list (extract_nalus_from_byte_stream d)
  | "avc_fnt" -> show_res show_types (avc_find_nalu_types d)
  | "avc_fntv" -> show_res show_types (avc_find_nalu_types_up_to_video d)
  | "avc_cnt" -> show_res show_bool (avc_contains_nalu_type d (a 0))
  | "avc_idr" -> show_res show_bool (avc_is_idr_sample d)
  | "avc_hps" -> show_res show_bool (avc_has_parameter_sets d)
  | "avc_gps" -> show_res show_ps (avc_get_parameter_sets d)
  (* the transcription with totSize and the psData repacking (C14AvcModel.v); avc has no VPS list *)
  | "avc_gpsb" -> show_res (fun (s, p) -> show_ps (([], s), p)) (avc_GetParameterSetsFromByteStream d)
  | "avc_enot" -> show_res show_list (avc_extract_nalus_of_type (a 0) (L.nth args 1 = 1) d)
  | "avc_gfv" -> show_res hex_of_bytes (avc_get_first_video_nalu d)
  (* the hevc functions are answered by the transcription of the hevc Go text (C14HevcModel.v); the older
     instantiations of the shared loops (the hevc_ definitions of C14Model) are proved equal to them (C14HevcProofs.v) *)
  | "hevc_fnt" -> show_res show_types (hevc_FindNaluTypes d)
  | "hevc_fntv" -> show_res show_types (hevc_FindNaluTypesUpToFirstVideoNalu d)
  | "hevc_cnt" -> show_res show_bool (hevc_ContainsNaluType d (a 0))
  | "hevc_rap" -> show_res show_bool (hevc_IsRAPSample d)
  | "hevc_idr" -> show_res show_bool (hevc_IsIDRSample d)
  | "hevc_hps" -> show_res show_bool (hevc_HasParameterSets d)
  | "hevc_gps" -> show_res show_ps (hevc_GetParameterSets d)
  | "hevc_gpsb" -> show_res show_ps (hevc_GetParameterSetsFromByteStream d)
  | "hevc_enot" -> show_res show_list (hevc_ExtractNalusOfTypeFromByteStream (a 0) d (L.nth args 1 = 1))
  | _ -> "unknown-fn"

(* ---- the theorems' right-hand sides on the units read from the bytes; None = hypotheses not satisfied *)
module Sp = C14Spec
module Hs = C14HevcSpec
module Rg = C14RecogModel

let n_of k = n_of_int k
let avc_before ns = Sp.before_video Sp.avc_type avc_is_video ns
let hevc_before ns = Hs.u_before_video Hs.hevc_unit_type Hs.hevc_vcl ns
let hevc_upto ns = Hs.u_types_upto Hs.hevc_unit_type Hs.hevc_vcl ns
let has_t k l = L.exists (fun t -> int_of_n t = k) l

(* shortcut for the pattern enumerations (most inputs there have bytes in front of the first start code): an
   input that does not begin with 00 00 01 / 00 00 00 01 is not handed to the recogniser; it would be rejected *)
let begins_with_start_code (d : coq_N list) : bool =
  match d with
  | N0 :: N0 :: Npos Coq_xH :: _ -> true
  | N0 :: N0 :: N0 :: Npos Coq_xH :: _ -> true
  | _ -> false

let theorem_stream (fn : string) (args : int list) (d : coq_N list) : string option =
  if not (begins_with_start_code d && Rg.wf_stream d) then None else
  let us = Rg.unstream d in
  let ns = L.map snd us in
  match fn with
  | "scan" | "scan32" -> let e = Sp.expected_scs Z0 us in Some ("ok:" ^ show_scan (e, Sp.min_sc_len e))
  | "b2s" | "b2s32" -> if Rg.fit_units us then Some ("ok:" ^ hex_of_bytes (Sp.sample ns)) else None
  | "enb" -> Some ("ok:" ^ show_list ns)
  | "avc_gfv" -> Some ("ok:" ^ hex_of_bytes (Sp.first_video Sp.avc_type avc_is_video ns))
  | "avc_gpsb" ->
    Some ("ok:" ^ show_ps (([], Sp.of_type Sp.avc_type (n_of 7) (avc_before ns)), Sp.of_type Sp.avc_type (n_of 8) (avc_before ns)))
  | "avc_enot" ->
    Some ("ok:" ^ show_list (Sp.of_type Sp.avc_type (n_of (L.nth args 0)) (if L.nth args 1 = 1 then avc_before ns else ns)))
  | "hevc_gpsb" when Hs.hevc_stream_units us ->
    let b = hevc_before ns in
    let f k = Hs.u_of_type Hs.hevc_unit_type (n_of k) b in
    Some ("ok:" ^ show_ps ((f 32, f 33), f 34))
  | "hevc_enot" when Hs.hevc_stream_units us ->
    Some ("ok:" ^ show_list (Hs.u_of_type Hs.hevc_unit_type (n_of (L.nth args 0)) (if L.nth args 1 = 1 then hevc_before ns else ns)))
  | _ -> None

let theorem_sample (fn : string) (args : int list) (s : coq_N list) : string option =
  if not (Rg.wf_sample s) then None else
  let ns = Rg.unsample_units s in
  let hv = S.length fn > 5 && S.sub fn 0 5 = "hevc_" in
  if hv && not (Hs.hevc_units ns) then None else
  let ut = Hs.hevc_unit_type in
  match fn with
  | "gnfs" -> Some ("ok:" ^ show_list ns)
  | "s2b" -> Some ("ok:" ^ hex_of_bytes (Sp.stream4 ns))
  | "avc_fnt" -> Some ("ok:" ^ show_types (L.map (Sp.utype Sp.avc_type) ns))
  | "avc_fntv" -> Some ("ok:" ^ show_types (Sp.types_upto Sp.avc_type avc_is_video ns))
  | "avc_cnt" -> Some ("ok:" ^ show_bool (Sp.has_type Sp.avc_type (n_of (L.nth args 0)) ns))
  | "avc_idr" -> Some ("ok:" ^ show_bool (Sp.has_type Sp.avc_type (n_of 5) ns))
  | "avc_hps" ->
    let l = Sp.types_upto Sp.avc_type avc_is_video ns in Some ("ok:" ^ show_bool (has_t 7 l && has_t 8 l))
  | "avc_gps" ->
    Some ("ok:" ^ show_ps (([], Sp.of_type Sp.avc_type (n_of 7) (avc_before ns)), Sp.of_type Sp.avc_type (n_of 8) (avc_before ns)))
  | "hevc_fnt" -> Some ("ok:" ^ show_types (Hs.u_types ut ns))
  | "hevc_fntv" -> Some ("ok:" ^ show_types (hevc_upto ns))
  | "hevc_cnt" -> Some ("ok:" ^ show_bool (Hs.u_has ut (fun t -> int_of_n t = L.nth args 0) ns))
  | "hevc_rap" -> Some ("ok:" ^ show_bool (Hs.u_has ut Hs.hevc_irap ns))
  | "hevc_idr" -> Some ("ok:" ^ show_bool (Hs.u_has ut Hs.hevc_idr ns))
  | "hevc_hps" -> let l = hevc_upto ns in Some ("ok:" ^ show_bool (has_t 32 l && has_t 33 l && has_t 34 l))
  | "hevc_gps" ->
    let b = hevc_before ns in
    let f k = Hs.u_of_type ut (n_of k) b in
    Some ("ok:" ^ show_ps ((f 32, f 33), f 34))
  | _ -> None

let theorem (fn : string) (args : int list) (d : coq_N list) : string option =
  match fn with
  | "scan" | "b2s" | "scan32" | "b2s32" | "enb" | "avc_gfv" | "avc_gpsb" | "avc_enot" | "hevc_gpsb" | "hevc_enot" -> theorem_stream fn args d
  | "hzb" | "hzb32" -> None
  | _ -> theorem_sample fn args d

let () =
  iter_lines (fun line ->
      match split_on '\t' line with
      | ["F"; id; fn; args; inhex; result] ->
        let a = ints_of_csv args and d = bytes_of_hex inhex in
        let m = model fn a d in
        if m <> result then Printf.printf "MISMATCH %s %s model=%s\n" id fn m
        else (match theorem fn a d with
            | None -> Printf.printf "OK %s\n" id
            | Some e when e = result -> Printf.printf "OK %s T\n" id
            | Some e -> Printf.printf "THM-MISMATCH %s %s theorem=%s\n" id fn e)
      | _ -> Printf.printf "BADLINE %s\n" line)
