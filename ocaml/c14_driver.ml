(* Driver for the C14 model: reads the harness's case lines
     F \t id \t fn \t args \t input-hex \t result
   recomputes the result with the extracted model, prints "OK <id>" or "MISMATCH <id> <fn> model=<result>". *)
open Vx
open BinNums
open Base
open C14Model
open C14HevcModel
open C14AvcModel

let show_res (f : 'a -> string) (r : 'a res) : string =
  match r with
  | Ok a -> "ok:" ^ f a
  | Err -> "err"
  | Panic -> "panic"
  | OutOfFuel -> "fuel"

let show_list (l : coq_N list list) : string = "[" ^ S.concat "," (L.map hex_of_bytes l) ^ "]"
let show_bool b = if b then "1" else "0"
let show_types (l : coq_N list) : string = csv_of_ints (L.map int_of_n l)
let show_ps (((v, s), p) : (coq_N list list * coq_N list list) * coq_N list list) : string =
  show_list v ^ ";" ^ show_list s ^ ";" ^ show_list p
let show_scan ((scs, m) : (coq_Z * coq_Z) list * coq_Z) : string =
  Printf.sprintf "%d;%s" (int_of_z m)
    (S.concat "," (L.map (fun (l, p) -> Printf.sprintf "%d:%d" (int_of_z l) (int_of_z p)) scs))

let model (fn : string) (args : int list) (d : coq_N list) : string =
  let a k = n_of_int (L.nth args k) in
  match fn with
  | "hzb" -> "ok:" ^ show_bool (has_zero_byte (word_le d))
  | "scan" -> show_res show_scan (get_start_code_positions d)
  | "b2s" -> show_res hex_of_bytes (to_nalu_sample d)
  | "s2b" -> show_res hex_of_bytes (to_byte_stream d)
  | "gnfs" -> show_res show_list (get_nalus_from_sample d)
  | "enb" -> show_res show_list (extract_nalus_from_byte_stream d)
  | "avc_fnt" -> show_res show_types (avc_find_nalu_types d)
  | "avc_fntv" -> show_res show_types (avc_find_nalu_types_up_to_video d)
  | "avc_cnt" -> show_res show_bool (avc_contains_nalu_type d (a 0))
  | "avc_idr" -> show_res show_bool (avc_is_idr_sample d)
  | "avc_hps" -> show_res show_bool (avc_has_parameter_sets d)
  | "avc_gps" -> show_res show_ps (avc_get_parameter_sets d)
  (* the transcription with totSize and the psData repacking (C14AvcModel.v); avc has no VPS list *)
  | "avc_gpsb" -> show_res (fun (s, p) -> show_ps (([], s), p)) (avc_GetParameterSetsFromByteStream d)
  | "avc_enot" -> show_res show_list (avc_extract_nalus_of_type (a 0) (L.nth args 1 = 1) d)
  | "avc_gfv" -> show_res hex_of_bytes (avc_get_first_video_nalu d)
  (* the hevc functions are answered by the transcription of the hevc Go text (C14HevcModel.v); the older
     instantiations of the shared loops (the hevc_ definitions of C14Model) are proved equal to them (C14HevcProofs.v) *)
  | "hevc_fnt" -> show_res show_types (hevc_FindNaluTypes d)
  | "hevc_fntv" -> show_res show_types (hevc_FindNaluTypesUpToFirstVideoNalu d)
  | "hevc_cnt" -> show_res show_bool (hevc_ContainsNaluType d (a 0))
  | "hevc_rap" -> show_res show_bool (hevc_IsRAPSample d)
  | "hevc_idr" -> show_res show_bool (hevc_IsIDRSample d)
  | "hevc_hps" -> show_res show_bool (hevc_HasParameterSets d)
  | "hevc_gps" -> show_res show_ps (hevc_GetParameterSets d)
  | "hevc_gpsb" -> show_res show_ps (hevc_GetParameterSetsFromByteStream d)
  | "hevc_enot" -> show_res show_list (hevc_ExtractNalusOfTypeFromByteStream (a 0) d (L.nth args 1 = 1))
  | _ -> "unknown-fn"

let () =
  iter_lines (fun line ->
      match split_on '\t' line with
      | ["F"; id; fn; args; inhex; result] ->
        let m = model fn (ints_of_csv args) (bytes_of_hex inhex) in
        if m = result then Printf.printf "OK %s\n" id
        else Printf.printf "MISMATCH %s %s model=%s\n" id fn m
      | _ -> Printf.printf "BADLINE %s\n" line)
