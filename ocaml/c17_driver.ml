(* Driver for the C17 model: reads the harness's case lines, recomputes the observables with
   the extracted model, prints one line per case: "OK <id>" or "MISMATCH <id> <what> <model>". *)
open Vx
open C17Spec
open C17Model
open C17TypedModel
open C17HistModel
open C17TieModel
open C17NaluModel
open C17SizeModel
open Base

let parse_msg (s : string) : msg =
  match split_on ':' s with
  | [t; z; p] -> { mtype = n_of_hex t; msize = n_of_hex z; mpayload = bytes_of_hex p }
  | _ -> failwith ("bad msg " ^ s)

let parse_list f s = if s = "-" then [] else L.map f (split_on ';' s)

let pairs_string (l : (BinNums.coq_N * BinNums.coq_N list) list) : string =
  match l with
  | [] -> "-"
  | _ -> S.concat ";" (L.map (fun (t, p) -> hex_of_n t ^ ":" ^ hex_of_bytes p) l)

let xres_string (r : xres) : string * string =
  match r with
  | XOk l -> ("ok", pairs_string l)
  | XMissing l -> ("missing", pairs_string l)
  | XErr -> ("err", "-")
  | XFuel -> ("fuel", "-")

(* ---------------------------------------------------------------- typed messages *)
let bool_of s = (s = "1")
let b01 b = if b then "1" else "0"

let parse_clock (s : string) : clock =
  match split_on ',' s with
  | [f; u; ct; full; disc; dr; nf; sf; sec; mf; mi; hf; h; tl; tv] ->
    { c_flag = bool_of f; c_units = bool_of u; c_counting = n_of_hex ct; c_full = bool_of full;
      c_disc = bool_of disc; c_dropped = bool_of dr; c_nframes = n_of_hex nf;
      c_secflag = bool_of sf; c_seconds = n_of_hex sec; c_minflag = bool_of mf; c_minutes = n_of_hex mi;
      c_hrflag = bool_of hf; c_hours = n_of_hex h; c_tolen = n_of_hex tl; c_toval = n_of_hex tv }
  | _ -> failwith ("bad clock " ^ s)

let clock_string (c : clock) : string =
  S.concat "," [b01 c.c_flag; b01 c.c_units; hex_of_n c.c_counting; b01 c.c_full; b01 c.c_disc; b01 c.c_dropped;
                hex_of_n c.c_nframes; b01 c.c_secflag; hex_of_n c.c_seconds; b01 c.c_minflag; hex_of_n c.c_minutes;
                b01 c.c_hrflag; hex_of_n c.c_hours; hex_of_n c.c_tolen; hex_of_n c.c_toval]

let parse_clocks s = if s = "-" then [] else L.map parse_clock (split_on '|' s)
let clocks_string l = match l with [] -> "-" | _ -> S.concat "|" (L.map clock_string l)

let parse_clock_avc (s : string) : clock_avc =
  match split_on ',' s with
  | [f; ctt; nu; ct; full; disc; dr; nf; sf; sec; mf; mi; hf; h; tl; tv] ->
    { a_flag = bool_of f; a_cttype = n_of_hex ctt; a_nuit = bool_of nu; a_counting = n_of_hex ct;
      a_full = bool_of full; a_disc = bool_of disc; a_dropped = bool_of dr; a_nframes = n_of_hex nf;
      a_secflag = bool_of sf; a_seconds = n_of_hex sec; a_minflag = bool_of mf; a_minutes = n_of_hex mi;
      a_hrflag = bool_of hf; a_hours = n_of_hex h; a_tolen = n_of_hex tl; a_toval = z_of_hex tv }
  | _ -> failwith ("bad avc clock " ^ s)

let clock_avc_string (c : clock_avc) : string =
  S.concat "," [b01 c.a_flag; hex_of_n c.a_cttype; b01 c.a_nuit; hex_of_n c.a_counting; b01 c.a_full; b01 c.a_disc;
                b01 c.a_dropped; hex_of_n c.a_nframes; b01 c.a_secflag; hex_of_n c.a_seconds; b01 c.a_minflag;
                hex_of_n c.a_minutes; b01 c.a_hrflag; hex_of_n c.a_hours; hex_of_n c.a_tolen; hex_of_z c.a_toval]

let parse_hrd (s : string) : hrd_delay option =
  if s = "-" then None else
    match split_on ',' s with
    | [a; b; c; d; e] -> Some { h_cpb_delay = n_of_hex a; h_dpb_delay = n_of_hex b; h_init_len1 = n_of_hex c;
                                h_cpb_len1 = n_of_hex d; h_dpb_len1 = n_of_hex e }
    | _ -> failwith ("bad hrd " ^ s)

let hrd_string (h : hrd_delay option) : string =
  match h with
  | None -> "-"
  | Some h -> S.concat "," [hex_of_n h.h_cpb_delay; hex_of_n h.h_dpb_delay; hex_of_n h.h_init_len1;
                            hex_of_n h.h_cpb_len1; hex_of_n h.h_dpb_len1]

let parse_pt (s : string) : pic_timing =
  match split_on ';' s with
  | [h; tl; pict; cs] ->
    { p_hrd = parse_hrd h; p_tolen = n_of_hex tl; p_pict = n_of_hex pict;
      p_clocks = (if cs = "-" then [] else L.map parse_clock_avc (split_on '|' cs)) }
  | _ -> failwith ("bad pic timing " ^ s)

let pt_string (m : pic_timing) : string =
  hrd_string m.p_hrd ^ ";" ^ hex_of_n m.p_tolen ^ ";" ^ hex_of_n m.p_pict ^ ";" ^
  (match m.p_clocks with [] -> "-" | l -> S.concat "|" (L.map clock_avc_string l))

let parse_mdcv (s : string) : mdcv =
  match L.map n_of_hex (split_on ',' s) with
  | [a; b; c; d; e; f; g; h; i; j] ->
    { md_x0 = a; md_y0 = b; md_x1 = c; md_y1 = d; md_x2 = e; md_y2 = f; md_wx = g; md_wy = h; md_max = i; md_min = j }
  | _ -> failwith ("bad mdcv " ^ s)

let mdcv_string (m : mdcv) : string =
  S.concat "," (L.map hex_of_n [m.md_x0; m.md_y0; m.md_x1; m.md_y1; m.md_x2; m.md_y2; m.md_wx; m.md_wy; m.md_max; m.md_min])

let res_string (f : 'a -> string) (r : 'a res) : string * string =
  match r with
  | Ok a -> ("ok", f a)
  | Err -> ("err", "-")
  | Panic -> ("panic", "-")
  | OutOfFuel -> ("fuel", "-")

(* T lines: Size(), Payload() (through the C13 FixedSliceWriter model AND as plain bits), decode *)
(* which theorems speak about this value: canon = canonical (all typed theorems), widths = not canonical but the
   writer widths are within 56 bits (C17_size_any_value), out = neither; printed behind OK and counted by the check *)
let dom_tc (cl : clock list) : string =
  if tc_canonical cl then "canon" else if tc_widths_ok cl then "widths" else "out"
let dom_pt (m : pic_timing) : string =
  if pt_canonical m then "canon" else if pt_widths_ok m then "widths" else "out"

let typed_line ?(dom = "canon") id wclass size payload dclass dstr (msize : BinNums.coq_N) (mpl : BinNums.coq_N list)
    (mspec : BinNums.coq_N list) ((mdc, mds) : string * string) =
  if wclass <> "ok" then Printf.printf "MISMATCH %s Payload() class=%s (model: ok)\n" id wclass
  else if hex_of_n msize <> size then Printf.printf "MISMATCH %s size model=%s\n" id (hex_of_n msize)
  else if hex_of_bytes mpl <> payload then Printf.printf "MISMATCH %s payload model=%s\n" id (hex_of_bytes mpl)
  else if hex_of_bytes mspec <> payload then Printf.printf "MISMATCH %s payload(bit-list spec) model=%s\n" id (hex_of_bytes mspec)
  else if mdc <> dclass || mds <> dstr then Printf.printf "MISMATCH %s decode model=%s %s\n" id mdc mds
  else if dom <> "out" && Printf.sprintf "%x" (L.length mpl) <> size then Printf.printf "MISMATCH %s size-any-value: payload length differs from Size() inside the domain of C17_size_any_value\n" id
  else Printf.printf "OK %s dom=%s\n" id dom

let dec_line id dclass dstr ((mdc, mds) : string * string) =
  if mdc <> dclass || mds <> dstr then Printf.printf "MISMATCH %s decode model=%s %s\n" id mdc mds
  else Printf.printf "OK %s\n" id

let pass_string (m : passthrough) : string =
  let kind = match m.ps_kind with
    | KRegistered -> "reg"
    | KCea608 (f1, f2) -> "608:" ^ hex_of_bytes f1 ^ ":" ^ hex_of_bytes f2
    | KUnregistered u -> "unreg:" ^ hex_of_bytes u
    | KPicTimingHevc -> "pth" in
  kind ^ "\t" ^ hex_of_bytes (pass_payload m) ^ "\t" ^ hex_of_n (pass_size m)

let pass_line id dclass rest (r : passthrough res) =
  let (mc, ms) = match r with
    | Ok m -> ("ok", pass_string m)
    | Err -> ("err", "-\t-\t-")
    | Panic -> ("panic", "-\t-\t-")
    | OutOfFuel -> ("fuel", "-\t-\t-") in
  if mc <> dclass || ms <> rest then Printf.printf "MISMATCH %s passthrough model=%s %s\n" id mc ms
  else Printf.printf "OK %s\n" id

let parse_hevc_par (par : string) : hevc_par =
  match split_on ',' par with
  | [a; b; c; d; e; f; g; h] ->
    { hp_ffi = bool_of a; hp_cpb = bool_of b; hp_subpic = bool_of c; hp_subpic_in_pt = bool_of d;
      hp_au_len1 = n_of_hex e; hp_dpb_len1 = n_of_hex f; hp_du_len1 = n_of_hex g; hp_inc_len1 = n_of_hex h }
  | _ -> failwith "bad hevc par"

(* the bit-list decoder and the machine-level decoder (C17TieModel) must agree; a disagreement is
   reported as a decode mismatch of its own *)
let both id ((c1, s1) : string * string) ((c2, s2) : string * string) : string * string =
  if c1 = c2 && s1 = s2 then (c1, s1) else ("bitlist=" ^ c1 ^ ":" ^ s1 ^ " machine=" ^ c2, s2 ^ " [" ^ id ^ "]")

let typed (fields : string list) : bool =
  match fields with
  | ["T136"; id; cs; wclass; size; payload; dclass; dstr] ->
    let cl = parse_clocks cs in
    let pl = tc_payload cl in
    typed_line ~dom:(dom_tc cl) id wclass size payload dclass dstr (tc_size cl) pl (tc_payload_spec cl)
      (both id (res_string clocks_string (tc_decode pl)) (res_string clocks_string (tc_decode_go pl))); true
  | ["D136"; id; payload; dclass; dstr] ->
    let pl = bytes_of_hex payload in
    dec_line id dclass dstr (both id (res_string clocks_string (tc_decode pl)) (res_string clocks_string (tc_decode_go pl))); true
  | ["T1"; id; ms; wclass; size; payload; dclass; dstr] ->
    let m = parse_pt ms in
    let pl = pt_payload m in
    typed_line ~dom:(dom_pt m) id wclass size payload dclass dstr (pt_size m) pl (pt_payload_spec m)
      (both id (res_string pt_string (pt_decode m.p_hrd m.p_tolen pl)) (res_string pt_string (pt_decode_go m.p_hrd m.p_tolen pl))); true
  | ["D1"; id; hrd; tolen; payload; dclass; dstr] ->
    let pl = bytes_of_hex payload in
    dec_line id dclass dstr (both id (res_string pt_string (pt_decode (parse_hrd hrd) (n_of_hex tolen) pl))
                               (res_string pt_string (pt_decode_go (parse_hrd hrd) (n_of_hex tolen) pl))); true
  | ["T137"; id; ms; wclass; size; payload; dclass; dstr] ->
    let m = parse_mdcv ms in
    let pl = mdcv_payload m in
    typed_line id wclass size payload dclass dstr mdcv_size pl pl (res_string mdcv_string (mdcv_decode pl)); true
  | ["D137"; id; payload; dclass; dstr] ->
    dec_line id dclass dstr (res_string mdcv_string (mdcv_decode (bytes_of_hex payload))); true
  | ["T144"; id; ms; wclass; size; payload; dclass; dstr] ->
    let m = (match L.map n_of_hex (split_on ',' ms) with [a; b] -> { cl_max = a; cl_avg = b } | _ -> failwith "bad cll") in
    let pl = cll_payload m in
    let str (c : cll) = hex_of_n c.cl_max ^ "," ^ hex_of_n c.cl_avg in
    typed_line id wclass size payload dclass dstr cll_size pl pl (res_string str (cll_decode pl)); true
  | ["D144"; id; payload; dclass; dstr] ->
    let str (c : cll) = hex_of_n c.cl_max ^ "," ^ hex_of_n c.cl_avg in
    dec_line id dclass dstr (res_string str (cll_decode (bytes_of_hex payload))); true
  | ["P4"; id; payload; dclass; k; p; z] ->
    pass_line id dclass (k ^ "\t" ^ p ^ "\t" ^ z) (decode_registered (bytes_of_hex payload)); true
  | ["P5"; id; payload; dclass; k; p; z] ->
    pass_line id dclass (k ^ "\t" ^ p ^ "\t" ^ z) (decode_unregistered (bytes_of_hex payload)); true
  | ["P1H"; id; par; payload; dclass; k; p; z] ->
    let par = parse_hevc_par par in
    pass_line id dclass (k ^ "\t" ^ p ^ "\t" ^ z) (decode_pic_timing_hevc par (bytes_of_hex payload)); true
  | [hk; id; _hist; fs; wclass; size; payload; written; dclass; dstr]
    when hk = "H136" || hk = "H1" || hk = "H137" || hk = "H144" ->
    (* the final value of a history: the model sees its exported field record only *)
    let t = (match hk with
        | "H136" -> TTimeCode (parse_clocks fs)
        | "H1" -> TPicTiming (parse_pt fs)
        | "H137" -> TMdcv (parse_mdcv fs)
        | _ -> (match L.map n_of_hex (split_on ',' fs) with [a; b] -> TCll { cl_max = a; cl_avg = b } | _ -> failwith "bad cll")) in
    let (((msize, mpl), mwritten), mdec) = typed_observe t in
    let str (t : typed) = (match t with
        | TTimeCode cs -> clocks_string cs
        | TPicTiming m -> pt_string m
        | TMdcv m -> mdcv_string m
        | TCll c -> hex_of_n c.cl_max ^ "," ^ hex_of_n c.cl_avg) in
    let mgo = (match t with
        | TTimeCode _ -> (match tc_decode_go mpl with Ok cs -> Ok (TTimeCode cs) | Err -> Err | Panic -> Panic | OutOfFuel -> OutOfFuel)
        | TPicTiming m -> (match pt_decode_go m.p_hrd m.p_tolen mpl with Ok m' -> Ok (TPicTiming m') | Err -> Err | Panic -> Panic | OutOfFuel -> OutOfFuel)
        | _ -> mdec) in
    let (mdc, mds) = both id (res_string str mdec) (res_string str mgo) in
    if wclass <> "ok" then Printf.printf "MISMATCH %s Payload()/WriteSEIMessages class=%s (model: ok)\n" id wclass
    else if hex_of_n msize <> size then Printf.printf "MISMATCH %s size model=%s (from the final exported fields)\n" id (hex_of_n msize)
    else if hex_of_bytes mpl <> payload then Printf.printf "MISMATCH %s payload model=%s (from the final exported fields)\n" id (hex_of_bytes mpl)
    else if hex_of_bytes mwritten <> written then Printf.printf "MISMATCH %s written model=%s\n" id (hex_of_bytes mwritten)
    else if mdc <> dclass || mds <> dstr then Printf.printf "MISMATCH %s decode model=%s %s\n" id mdc mds
    else Printf.printf "OK %s dom=%s\n" id (match t with TTimeCode cs -> dom_tc cs | TPicTiming m -> dom_pt m | _ -> "canon"); true
  | ["HP"; id; which; _hist; par; payload; dclass; fp; fz] ->
    (* a decoded pass-through message after edits of its exported fields: payload and size unchanged *)
    let pl = bytes_of_hex payload in
    let r = (match which with
        | "P4" -> decode_registered pl
        | "P5" -> decode_unregistered pl
        | _ -> decode_pic_timing_hevc (parse_hevc_par par) pl) in
    let (mc, mp, mz) = (match r with
        | Ok m -> ("ok", hex_of_bytes (pass_payload m), hex_of_n (pass_size m))
        | Err -> ("err", "-", "-")
        | Panic -> ("panic", "-", "-")
        | OutOfFuel -> ("fuel", "-", "-")) in
    if mc <> dclass || mp <> fp || mz <> fz then Printf.printf "MISMATCH %s passthrough-after-edit model=%s %s %s\n" id mc mp mz
    else Printf.printf "OK %s\n" id; true
  | _ -> false

(* ---------------------------------------------------------------- N lines: avc/hevc.ParseSEINalu *)
let sm_string (m : sei_message) : string =
  let (tag, body) = (match m with
      | MTyped (TTimeCode cs) -> ("T136", clocks_string cs)
      | MTyped (TPicTiming p) -> ("T1", pt_string p)
      | MTyped (TMdcv m) -> ("T137", mdcv_string m)
      | MTyped (TCll c) -> ("T144", hex_of_n c.cl_max ^ "," ^ hex_of_n c.cl_avg)
      | MPass p -> ("P", (match p.ps_kind with
          | KRegistered -> "reg"
          | KCea608 (f1, f2) -> "608:" ^ hex_of_bytes f1 ^ ":" ^ hex_of_bytes f2
          | KUnregistered u -> "unreg:" ^ hex_of_bytes u
          | KPicTimingHevc -> "pth"))
      | MRaw (_, _) -> ("R", "-")) in
  S.concat "~" [tag; body; hex_of_n (sm_type m); hex_of_n (sm_size m); hex_of_bytes (sm_payload m)]

let pres_string (r : pres) : string * string =
  let l ms = (match ms with [] -> "-" | _ -> S.concat "&" (L.map sm_string ms)) in
  match r with
  | POk ms -> ("ok", l ms)
  | PMissing ms -> ("missing", l ms)
  | PNotSEI -> ("notsei", "-")
  | PErr -> ("err", "-")
  | PPanic -> ("panic", "-")
  | PFuel -> ("fuel", "-")

let parse_hrd3 (s : string) =
  if s = "-" then None else
    match L.map n_of_hex (split_on ',' s) with
    | [a; b; c] -> Some ((a, b), c)
    | _ -> failwith ("bad hrd3 " ^ s)

let parse_avc_par (s : string) : avc_par =
  match split_on ':' s with
  | ["none"] -> APNone
  | ["vui"; vcl; nal] -> APVui (parse_hrd3 vcl, parse_hrd3 nal)
  | _ -> failwith ("bad avc par " ^ s)

let parse_hevc_sps (s : string) : hevc_sps =
  match split_on ':' s with
  | ["none"] -> HPNone
  | ["vui"; ffi; "-"] -> HPVui (bool_of ffi, None)
  | ["vui"; ffi; h] ->
    (match split_on ',' h with
     | [a; b; c; d; e; f; g; i] ->
       HPVui (bool_of ffi, Some { hh_nal = bool_of a; hh_vcl = bool_of b; hh_subpic = bool_of c; hh_subpic_in_pt = bool_of d;
                                  hh_au_len1 = n_of_hex e; hh_dpb_len1 = n_of_hex f; hh_du_len1 = n_of_hex g; hh_inc_len1 = n_of_hex i })
     | _ -> failwith ("bad hevc hrd " ^ h))
  | _ -> failwith ("bad hevc sps " ^ s)

let nalu_line id cls lst (r : pres) =
  let (mc, ml) = pres_string r in
  if mc <> cls then Printf.printf "MISMATCH %s ParseSEINalu class model=%s\n" id mc
  else if ml <> lst then Printf.printf "MISMATCH %s ParseSEINalu messages model=%s\n" id ml
  else Printf.printf "OK %s\n" id

let () =
  iter_lines (fun line ->
      let fields = split_on '\t' line in
      if typed fields then () else
      match fields with
      | ["L"; id; msgs; wclass; outhex; xclass; xlist] ->
        let ms = parse_list parse_msg msgs in
        let mo = hex_of_bytes (write_sei_messages ms) in
        let (mc, ml) = xres_string (extract_sei_data (bytes_of_hex outhex)) in
        (* the rbsp-level extractor of C17Spec on the unescaped stream must agree too *)
        let (rc, rl) = xres_string (extract_rbsp_all (C13Spec.unescape (bytes_of_hex outhex))) in
        if wclass <> "ok" then Printf.printf "MISMATCH %s writer class=%s (model: ok)\n" id wclass
        else if mo <> outhex then Printf.printf "MISMATCH %s writer model_out=%s\n" id mo
        else if mc <> xclass || ml <> xlist then Printf.printf "MISMATCH %s extract model=%s %s\n" id mc ml
        else if rc <> xclass || rl <> xlist then Printf.printf "MISMATCH %s extract_rbsp model=%s %s\n" id rc rl
        else Printf.printf "OK %s\n" id
      | ["NA"; id; par; nalu; cls; lst] ->
        nalu_line id cls lst (parse_sei_nalu_avc (parse_avc_par par) (bytes_of_hex nalu))
      | ["NH"; id; par; nalu; cls; lst] ->
        nalu_line id cls lst (parse_sei_nalu_hevc (parse_hevc_sps par) (bytes_of_hex nalu))
      | ["X"; id; datahex; xclass; xlist] ->
        let (mc, ml) = xres_string (extract_sei_data (bytes_of_hex datahex)) in
        if mc <> xclass || ml <> xlist then Printf.printf "MISMATCH %s extract model=%s %s\n" id mc ml
        else Printf.printf "OK %s\n" id
      | _ -> Printf.printf "BADLINE %s\n" line)
