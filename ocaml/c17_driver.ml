(* Driver for the C17 model: reads the harness's case lines, recomputes the observables with
   the extracted model, prints one line per case: "OK <id>" or "MISMATCH <id> <what> <model>". *)
open Vx
open C17Spec
open C17Model

let parse_msg (s : string) : msg =
  match split_on ':' s with
  | [t; z; p] -> { mtype = n_of_hex t; msize = n_of_hex z; mpayload = bytes_of_hex p }
  | _ -> failwith ("bad msg " ^ s)

let parse_list f s = if s = "-" then [] else L.map f (split_on ';' s)

let pairs_string (l : (BinNums.coq_N * BinNums.coq_N list) list) : string =
  match l with
  | [] -> "-"
  | _ -> S.concat ";" (L.map (fun (t, p) -> hex_of_n t ^ ":" ^ hex_of_bytes p) l)

let xres_string (r : xres) : string * string =
  match r with
  | XOk l -> ("ok", pairs_string l)
  | XMissing l -> ("missing", pairs_string l)
  | XErr -> ("err", "-")
  | XFuel -> ("fuel", "-")

let () =
  iter_lines (fun line ->
      match split_on '\t' line with
      | ["L"; id; msgs; wclass; outhex; xclass; xlist] ->
        let ms = parse_list parse_msg msgs in
        let mo = hex_of_bytes (write_sei_messages ms) in
        let (mc, ml) = xres_string (extract_sei_data (bytes_of_hex outhex)) in
        (* the rbsp-level extractor of C17Spec on the unescaped stream must agree too *)
        let (rc, rl) = xres_string (extract_rbsp_all (C13Spec.unescape (bytes_of_hex outhex))) in
        if wclass <> "ok" then Printf.printf "MISMATCH %s writer class=%s (model: ok)\n" id wclass
        else if mo <> outhex then Printf.printf "MISMATCH %s writer model_out=%s\n" id mo
        else if mc <> xclass || ml <> xlist then Printf.printf "MISMATCH %s extract model=%s %s\n" id mc ml
        else if rc <> xclass || rl <> xlist then Printf.printf "MISMATCH %s extract_rbsp model=%s %s\n" id rc rl
        else Printf.printf "OK %s\n" id
      | ["X"; id; datahex; xclass; xlist] ->
        let (mc, ml) = xres_string (extract_sei_data (bytes_of_hex datahex)) in
        if mc <> xclass || ml <> xlist then Printf.printf "MISMATCH %s extract model=%s %s\n" id mc ml
        else Printf.printf "OK %s\n" id
      | _ -> Printf.printf "BADLINE %s\n" line)
