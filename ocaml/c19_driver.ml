(* Driver for the C19 model: reads the harness's case lines
     S <id> <ops> <state>
   runs the op sequence on the extracted model (the SPS parser answers are carried by the ops)
   and prints "OK <id>" or "MISMATCH <id> model=<state>". *)
open Vx
open C19Model
open C19RecModel

let str_of_hex (s : string) = bytes_of_hex s            (* "-" = empty string *)
let hex_of_str (l : BinNums.coq_N list) = hex_of_bytes l

(* list of byte strings: "_" = empty list, otherwise comma separated hex ("-" = empty string) *)
let strs_of (s : string) = if s = "_" then [] else L.map str_of_hex (split_on ',' s)
let of_strs (l : BinNums.coq_N list list) = match l with [] -> "_" | _ -> S.concat "," (L.map hex_of_str l)

let ni s = n_of_int (int_of_string s)
let si n = string_of_int (int_of_n n)
let dots (s : string) = if s = "_" then [] else split_on '.' s

let parse_sub (s : string) : ec3sub =
  match dots s with
  | [a; b; c; d; e; f; g; h] -> Coq_mkEc3Sub (ni a, ni b, ni c, ni d, ni e, ni f, ni g, ni h)
  | _ -> failwith ("bad ec3 sub " ^ s)

(* tables filled while parsing the ops of one case *)
let avc_tab : (string, avc_info) Hashtbl.t = Hashtbl.create 16
let hevc_tab : (string, (BinNums.coq_N * BinNums.coq_N) * BinNums.coq_N list) Hashtbl.t = Hashtbl.create 16

let first_of (s : string) = if s = "_" then None else Some (L.hd (split_on ',' s))

let parse_op (s : string) : op =
  match split_on ':' s with
  | ["A"; ts; m; lang] -> AddEmptyTrack (ni ts, str_of_hex m, str_of_hex lang)
  | ["V"; k; name; spss; ppss; incl; pr] ->
    (match first_of spss, dots pr with
     | Some h, [w; hh; p; c; l; cf; bl; bc] ->
       Hashtbl.replace avc_tab h ((ni w, ni hh), (((ni p, ni c), ni l), ((ni cf, ni bl), ni bc)))
     | _ -> ());
    SetDesc (nat_of_int (int_of_string k), DAvc (str_of_hex name, strs_of spss, strs_of ppss, incl = "1"))
  | ["H"; k; name; vpss; spss; ppss; seis; incl; pr] ->
    (match first_of spss, dots pr with
     | Some h, w :: hh :: cfg when pr <> "N" -> Hashtbl.replace hevc_tab h ((ni w, ni hh), L.map ni cfg)
     | _ -> ());
    SetDesc (nat_of_int (int_of_string k),
             DHevc (str_of_hex name, strs_of vpss, strs_of spss, strs_of ppss, strs_of seis, incl = "1"))
  | ["C"; k; o; f] -> SetDesc (nat_of_int (int_of_string k), DAac (ni o, ni f))
  | ["3"; k; d] ->
    (match dots d with
     | [a; b; c; dd; e; f] -> SetDesc (nat_of_int (int_of_string k), DAc3 (Coq_mkDac3 (ni a, ni b, ni c, ni dd, ni e, ni f)))
     | _ -> failwith ("bad dac3 " ^ d))
  | ["E"; k; dr; subs] ->
    let subs = if subs = "_" then [] else L.map parse_sub (split_on '|' subs) in
    SetDesc (nat_of_int (int_of_string k), DEc3 (Coq_mkDec3 (ni dr, subs)))
  | ["W"; k; c] -> SetDesc (nat_of_int (int_of_string k), DWvtt (str_of_hex c))
  | ["T"; k; a; b; c] -> SetDesc (nat_of_int (int_of_string k), DStpp (str_of_hex a, str_of_hex b, str_of_hex c))
  | _ -> failwith ("bad op " ^ s)

let avc_parse (sps : BinNums.coq_N list) = Hashtbl.find_opt avc_tab (hex_of_str sps)
let hevc_parse (sps : BinNums.coq_N list) = Hashtbl.find_opt hevc_tab (hex_of_str sps)

let cfg_string (c : scfg) : string =
  match c with
  | CfgAvcC a -> Printf.sprintf "a.%s.%s.%s.%s/%s/%s.%s.%s.0.0" (si a.ac_profile) (si a.ac_compat) (si a.ac_level)
                   (of_strs a.ac_sps) (of_strs a.ac_pps) (si a.ac_chroma) (si a.ac_bdl) (si a.ac_bdc)
  | CfgHvcC h ->
    let arrs = match h.hc_arrays with
      | [] -> "_"
      | l -> S.concat "&" (L.map (fun (ct, nalus) -> si ct ^ "=" ^ of_strs nalus) l) in
    Printf.sprintf "h.%s.%s" (S.concat "." (L.map si h.hc_cfg)) arrs
  | CfgEsds asc -> "e." ^ hex_of_str asc
  | CfgDac3 (Coq_mkDac3 (a, b, c, d, e, f)) -> "3." ^ S.concat "." (L.map si [a; b; c; d; e; f])
  | CfgDec3 (Coq_mkDec3 (dr, subs)) ->
    let sub (Coq_mkEc3Sub (a, b, c, d, e, f, g, h)) = S.concat "." (L.map si [a; b; c; d; e; f; g; h]) in
    "E." ^ si dr ^ "." ^ (match subs with [] -> "_" | _ -> S.concat "|" (L.map sub subs))
  | CfgVttC c -> "v." ^ hex_of_str c
  | CfgStpp (a, b, c) -> Printf.sprintf "s.%s.%s.%s" (hex_of_str a) (hex_of_str b) (hex_of_str c)

let entry_string (e : sentry) : string =
  Printf.sprintf "[%s;%s;%s;%s;%s;%s]" (hex_of_str e.se_name) (si e.se_dref) (si e.se_a) (si e.se_b) (si e.se_c)
    (cfg_string e.se_cfg)

let trak_string (t : trak) : string =
  Printf.sprintf "T{%s,%s,%s,%s,%s,%s,%s,%s,%s,%s,%s,%s,%s}"
    (si t.tk_id) (si t.tk_volume) (si t.tk_width) (si t.tk_height) (si t.md_timescale) (si t.md_lang)
    (hex_of_str t.hd_type) (hex_of_str t.hd_name)
    (match t.el_lang with None -> "~" | Some l -> hex_of_str l)
    (S.concat "/" (L.map hex_of_str (mdia_children t)))
    (hex_of_str (mhdr_name t.mi_hdr))
    (S.concat "" (L.map entry_string t.sd_entries))
    (hex_of_str (trak_shape t))

let state_string (ocs : outcome list) (s : st) : string =
  let oc = S.concat "" (L.map (function OOk -> "o" | OErr -> "e" | OPanic -> "p") ocs) in
  let ch = S.concat "," (L.map (function MCmvhd -> "mvhd" | MCmvex -> "mvex" | MCtrak i -> "t" ^ string_of_int (int_of_nat i)) s.children) in
  Printf.sprintf "oc=%s|ch=%s|next=%s|trex=%s|%s" oc ch (si s.next_id)
    (csv_of_ints (L.map int_of_n s.trexs)) (S.concat "" (L.map trak_string s.traks))

(* ---- decoder configuration records (C19RecModel) *)
let b01 b = if b then "1" else "0"

let avcrec_string (r : avcrec) : string =
  Printf.sprintf "%s.%s.%s.%s/%s/%s.%s.%s.%s.%s" (si r.ar_profile) (si r.ar_compat) (si r.ar_level)
    (of_strs r.ar_sps) (of_strs r.ar_pps) (si r.ar_chroma) (si r.ar_bdl) (si r.ar_bdc) (si r.ar_nspsext) (b01 r.ar_notrail)

let parse_avcrec (s : string) : avcrec =
  match split_on '/' s with
  | [a; pps; t] ->
    (match split_on '.' a, split_on '.' t with
     | [p; c; l; sps], [cf; bl; bc; ne; nt] ->
       { ar_profile = ni p; ar_compat = ni c; ar_level = ni l; ar_sps = strs_of sps; ar_pps = strs_of pps;
         ar_chroma = ni cf; ar_bdl = ni bl; ar_bdc = ni bc; ar_nspsext = ni ne; ar_notrail = (nt = "1") }
     | _ -> failwith ("bad avc record " ^ s))
  | _ -> failwith ("bad avc record " ^ s)

let avc_decode_obs (data : BinNums.coq_N list) : string =
  match avcrec_decode data with Base.Ok r -> avcrec_string r | _ -> "ERR"

let arrays_string (l : (BinNums.coq_N * BinNums.coq_N list list) list) : string =
  match l with [] -> "_" | _ -> S.concat "&" (L.map (fun (ct, nalus) -> si ct ^ "=" ^ of_strs nalus) l)

(* visible: true = as the Go accessors show an array header (Complete()<<7 | NaluType(): bit 6 dropped) *)
let hvcrec_string (visible : bool) (r : hvcrec) : string =
  let arrs = if visible then L.map (fun (ct, n) -> let c = int_of_n ct in (n_of_int ((c land 0x80) lor (c land 0x3f)), n)) r.hr_arrays
    else r.hr_arrays in
  Printf.sprintf "%s/%s"
    (S.concat "." [si r.hr_version; si r.hr_space; b01 r.hr_tier; si r.hr_pidc; si r.hr_compat; si r.hr_constraint; si r.hr_level;
                   si r.hr_minspat; si r.hr_par; si r.hr_chroma; si r.hr_bdl; si r.hr_bdc; si r.hr_avgfr; si r.hr_cfr; si r.hr_ntl;
                   si r.hr_tin; si r.hr_lsm1])
    (arrays_string arrs)

let parse_hvcrec (s : string) : hvcrec =
  match split_on '/' s with
  | [f; arrs] ->
    let arrays = if arrs = "_" then [] else
        L.map (fun a -> match split_on '=' a with [ct; n] -> (ni ct, strs_of n) | _ -> failwith ("bad array " ^ a)) (split_on '&' arrs) in
    (match split_on '.' f with
     | [v; sp; t; pi; co; cs; lv; ms; pa; ch; bl; bc; av; cf; nt; ti; ls] ->
       { hr_version = ni v; hr_space = ni sp; hr_tier = (t = "1"); hr_pidc = ni pi; hr_compat = ni co; hr_constraint = ni cs;
         hr_level = ni lv; hr_minspat = ni ms; hr_par = ni pa; hr_chroma = ni ch; hr_bdl = ni bl; hr_bdc = ni bc; hr_avgfr = ni av;
         hr_cfr = ni cf; hr_ntl = ni nt; hr_tin = ni ti; hr_lsm1 = ni ls; hr_arrays = arrays }
     | _ -> failwith ("bad hevc record " ^ s))
  | _ -> failwith ("bad hevc record " ^ s)

let hevc_decode_obs (data : BinNums.coq_N list) : string =
  match hvcrec_decode data with
  | Base.Ok r -> hvcrec_string true r ^ "|" ^ hex_of_str (hvcrec_encode r)
  | _ -> "ERR"

let verdict id m obs = if m = obs then Printf.printf "OK %s\n" id else Printf.printf "MISMATCH %s model=%s\n" id m

let () =
  iter_lines (fun line ->
      match split_on '\t' line with
      | ["S"; id; ops; obs] ->
        Hashtbl.reset avc_tab; Hashtbl.reset hevc_tab;
        let ops = if ops = "-" then [] else L.map parse_op (split_on ';' ops) in
        let (ocs, s) = run avc_parse hevc_parse ops in
        let m = state_string ocs s in
        if m = obs then Printf.printf "OK %s\n" id
        else Printf.printf "MISMATCH %s model=%s\n" id m
      | ["M"; id; pat; obs] ->
        (* MoovBox.AddChild of a trak on a moov whose children are given by pat (h mvhd, x mvex, t trak) *)
        let dummy i = { tk_id = n_of_int i; tk_volume = N0; tk_width = N0; tk_height = N0; md_timescale = N0; md_lang = N0;
                        hd_type = []; hd_name = []; el_lang = None; mi_hdr = Nmhd; sd_entries = [] } in
        let nt = ref 0 in
        let ch = L.map (fun c -> match c with
            | 'h' -> MCmvhd | 'x' -> MCmvex
            | _ -> let i = !nt in incr nt; MCtrak (nat_of_int i)) (L.init (S.length pat) (S.get pat)) in
        let s0 = { children = ch; traks = L.init !nt dummy; trexs = []; next_id = N0 } in
        let s1 = moov_add_trak s0 (dummy !nt) in
        let m = S.concat "" (L.map (function MCmvhd -> "h" | MCmvex -> "x"
                                             | MCtrak i -> if int_of_nat i = !nt then "N" else "t") s1.children) in
        if m = obs && L.length s1.traks = !nt + 1 then Printf.printf "OK %s\n" id
        else Printf.printf "MISMATCH %s model=%s\n" id m
      | ["L"; id; lang; obs] ->
        let m = match elng_decode (elng_payload (str_of_hex lang)) with
          | Base.Ok (missing, l) -> (if missing then "1" else "0") ^ "/" ^ hex_of_str l
          | _ -> "ERR" in
        if m = obs then Printf.printf "OK %s\n" id
        else Printf.printf "MISMATCH %s model=%s\n" id m
      | ["P"; id; a; b; c; obs] ->
        let (ns, sc, mi) = (str_of_hex a, str_of_hex b, str_of_hex c) in
        let m = match stpp_decode (stpp_payload (n_of_int 1) ns sc mi) with
          | Base.Ok ((((d, ns'), sc'), mi'), miss) ->
            Printf.sprintf "%s/%s/%s/%s/%d" (si d) (hex_of_str ns') (hex_of_str sc') (hex_of_str mi')
              (16 + L.length ns' + L.length sc' + L.length mi' + 3 - int_of_nat miss)
          | _ -> "ERR" in
        if m = obs then Printf.printf "OK %s\n" id
        else Printf.printf "MISMATCH %s model=%s\n" id m
      | ["RA"; id; r; obs] ->
        let r = parse_avcrec r in
        let enc = avcrec_encode r in
        verdict id (Printf.sprintf "%s|%s|%s" (si (avcrec_size r)) (hex_of_str enc) (avc_decode_obs enc)) obs
      | ["DA"; id; data; obs] -> verdict id (avc_decode_obs (str_of_hex data)) obs
      | ["RH"; id; r; obs] ->
        let r = parse_hvcrec r in
        let enc = hvcrec_encode r in
        verdict id (Printf.sprintf "%s|%s|%s" (si (hvcrec_size r)) (hex_of_str enc) (hevc_decode_obs enc)) obs
      | ["DH"; id; data; obs] -> verdict id (hevc_decode_obs (str_of_hex data)) obs
      | _ -> Printf.printf "BADLINE %s\n" line)
