(* Driver for the C19 model: reads the harness's case lines
     S <id> <ops> <state>
   runs the op sequence on the extracted model (the SPS parser answers are carried by the ops)
   and prints "OK <id>" or "MISMATCH <id> model=<state>". *)
open Vx
open C19Model
open C19RecModel
open C19Ac3Model

let str_of_hex (s : string) = bytes_of_hex s            (* "-" = empty string *)
let hex_of_str (l : BinNums.coq_N list) = hex_of_bytes l

(* list of byte strings: "_" = empty list, otherwise comma separated hex ("-" = empty string) *)
let strs_of (s : string) = if s = "_" then [] else L.map str_of_hex (split_on ',' s)
let of_strs (l : BinNums.coq_N list list) = match l with [] -> "_" | _ -> S.concat "," (L.map hex_of_str l)

(* decimal -> N; values beyond OCaml's int (a uint64 that wrapped in mutated code) go through N arithmetic *)
let n_of_dec (s : string) : BinNums.coq_N =
  let acc = ref BinNums.N0 in
  S.iter (fun c ->
      if c < '0' || c > '9' then failwith ("bad decimal " ^ s)
      else acc := BinNat.N.add (BinNat.N.mul !acc (n_of_int 10)) (n_of_int (Char.code c - 48))) s;
  !acc
let ni s = if S.length s < 18 then n_of_int (int_of_string s) else n_of_dec s
let si n = string_of_int (int_of_n n)
let dots (s : string) = if s = "_" then [] else split_on '.' s

let parse_sub (s : string) : ec3sub =
  match dots s with
  | [a; b; c; d; e; f; g; h] -> Coq_mkEc3Sub (ni a, ni b, ni c, ni d, ni e, ni f, ni g, ni h)
  | _ -> failwith ("bad ec3 sub " ^ s)

(* tables filled while parsing the ops of one case *)
let avc_tab : (string, avc_info) Hashtbl.t = Hashtbl.create 16
let hevc_tab : (string, (BinNums.coq_N * BinNums.coq_N) * BinNums.coq_N list) Hashtbl.t = Hashtbl.create 16

let first_of (s : string) = if s = "_" then None else Some (L.hd (split_on ',' s))

let parse_op (s : string) : op =
  match split_on ':' s with
  | ["A"; ts; m; lang] -> AddEmptyTrack (ni ts, str_of_hex m, str_of_hex lang)
  | ["V"; k; name; spss; ppss; incl; pr; _] ->
    (match first_of spss, dots pr with
     | Some h, [w; hh; p; c; l; cf; bl; bc] ->
       Hashtbl.replace avc_tab h ((ni w, ni hh), (((ni p, ni c), ni l), ((ni cf, ni bl), ni bc)))
     | _ -> ());
    SetDesc (nat_of_int (int_of_string k), DAvc (str_of_hex name, strs_of spss, strs_of ppss, incl = "1"))
  | ["H"; k; name; vpss; spss; ppss; seis; incl; pr; _] ->
    (match first_of spss, dots pr with
     | Some h, w :: hh :: cfg when pr <> "N" -> Hashtbl.replace hevc_tab h ((ni w, ni hh), L.map ni cfg)
     | _ -> ());
    SetDesc (nat_of_int (int_of_string k),
             DHevc (str_of_hex name, strs_of vpss, strs_of spss, strs_of ppss, strs_of seis, incl = "1"))
  | ["C"; k; o; f] -> SetDesc (nat_of_int (int_of_string k), DAac (ni o, ni f))
  | ["3"; k; d] ->
    (match dots d with
     | [a; b; c; dd; e; f] -> SetDesc (nat_of_int (int_of_string k), DAc3 (Coq_mkDac3 (ni a, ni b, ni c, ni dd, ni e, ni f)))
     | _ -> failwith ("bad dac3 " ^ d))
  | ["E"; k; dr; subs] ->
    let subs = if subs = "_" then [] else L.map parse_sub (split_on '|' subs) in
    SetDesc (nat_of_int (int_of_string k), DEc3 (Coq_mkDec3 (ni dr, subs)))
  | ["W"; k; c] -> SetDesc (nat_of_int (int_of_string k), DWvtt (str_of_hex c))
  | ["T"; k; a; b; c] -> SetDesc (nat_of_int (int_of_string k), DStpp (str_of_hex a, str_of_hex b, str_of_hex c))
  | _ -> failwith ("bad op " ^ s)

(* decodeDac3FromData / decodeDec3FromData on a payload (C19Ac3Model), printed like harness/c19/ac3.go ac3Show *)
let ac3_dac3_obs (p : BinNums.coq_N list) : string =
  match dac3_decode p with
  | Base.Ok ((Coq_mkDac3 (a, b, c, d, e, f), r), z) -> S.concat "." (L.map si [a; b; c; d; e; f; r; z])
  | _ -> "ERR"
let ac3_dec3_obs (p : BinNums.coq_N list) : string =
  match dec3_decode p with
  | Base.Ok (Coq_mkDec3 (dr, subs), rest) ->
    let sub (Coq_mkEc3Sub (a, b, c, d, e, f, g, h)) = S.concat "." (L.map si [a; b; c; d; e; f; g; h]) in
    si dr ^ "/" ^ (match subs with [] -> "_" | _ -> S.concat "|" (L.map sub subs)) ^ "/" ^ hex_of_str rest
  | _ -> "ERR"

let avc_parse (sps : BinNums.coq_N list) = Hashtbl.find_opt avc_tab (hex_of_str sps)
let hevc_parse (sps : BinNums.coq_N list) = Hashtbl.find_opt hevc_tab (hex_of_str sps)

let cfg_string (c : scfg) : string =
  match c with
  | CfgAvcC a -> Printf.sprintf "a.%s.%s.%s.%s/%s/%s.%s.%s.0.0" (si a.ac_profile) (si a.ac_compat) (si a.ac_level)
                   (of_strs a.ac_sps) (of_strs a.ac_pps) (si a.ac_chroma) (si a.ac_bdl) (si a.ac_bdc)
  | CfgHvcC h ->
    let arrs = match h.hc_arrays with
      | [] -> "_"
      | l -> S.concat "&" (L.map (fun (ct, nalus) -> si ct ^ "=" ^ of_strs nalus) l) in
    Printf.sprintf "h.%s.%s" (S.concat "." (L.map si h.hc_cfg)) arrs
  | CfgEsds asc -> "e." ^ hex_of_str asc
  | CfgDac3 (Coq_mkDac3 (a, b, c, d, e, f)) -> "3." ^ S.concat "." (L.map si [a; b; c; d; e; f])
  | CfgDec3 (Coq_mkDec3 (dr, subs)) ->
    let sub (Coq_mkEc3Sub (a, b, c, d, e, f, g, h)) = S.concat "." (L.map si [a; b; c; d; e; f; g; h]) in
    "E." ^ si dr ^ "." ^ (match subs with [] -> "_" | _ -> S.concat "|" (L.map sub subs))
  | CfgVttC c -> "v." ^ hex_of_str c
  | CfgStpp (a, b, c) -> Printf.sprintf "s.%s.%s.%s" (hex_of_str a) (hex_of_str b) (hex_of_str c)

let entry_string (e : sentry) : string =
  Printf.sprintf "[%s;%s;%s;%s;%s;%s]" (hex_of_str e.se_name) (si e.se_dref) (si e.se_a) (si e.se_b) (si e.se_c)
    (cfg_string e.se_cfg)

let trak_string (t : trak) : string =
  Printf.sprintf "T{%s,%s,%s,%s,%s,%s,%s,%s,%s,%s,%s,%s,%s}"
    (si t.tk_id) (si t.tk_volume) (si t.tk_width) (si t.tk_height) (si t.md_timescale) (si t.md_lang)
    (hex_of_str t.hd_type) (hex_of_str t.hd_name)
    (match t.el_lang with None -> "~" | Some l -> hex_of_str l)
    (S.concat "/" (L.map hex_of_str (mdia_children t)))
    (hex_of_str (mhdr_name t.mi_hdr))
    (S.concat "" (L.map entry_string t.sd_entries))
    (hex_of_str (trak_shape t))

let state_string (ocs : outcome list) (s : st) : string =
  let oc = S.concat "" (L.map (function OOk -> "o" | OErr -> "e" | OPanic -> "p") ocs) in
  let ch = S.concat "," (L.map (function MCmvhd -> "mvhd" | MCmvex -> "mvex" | MCtrak i -> "t" ^ string_of_int (int_of_nat i)) s.children) in
  Printf.sprintf "oc=%s|ch=%s|next=%s|trex=%s|%s" oc ch (si s.next_id)
    (csv_of_ints (L.map int_of_n s.trexs)) (S.concat "" (L.map trak_string s.traks))

(* ---- decoder configuration records (C19RecModel) *)
let b01 b = if b then "1" else "0"

let avcrec_string (r : avcrec) : string =
  Printf.sprintf "%s.%s.%s.%s/%s/%s.%s.%s.%s.%s" (si r.ar_profile) (si r.ar_compat) (si r.ar_level)
    (of_strs r.ar_sps) (of_strs r.ar_pps) (si r.ar_chroma) (si r.ar_bdl) (si r.ar_bdc) (si r.ar_nspsext) (b01 r.ar_notrail)

let parse_avcrec (s : string) : avcrec =
  match split_on '/' s with
  | [a; pps; t] ->
    (match split_on '.' a, split_on '.' t with
     | [p; c; l; sps], [cf; bl; bc; ne; nt] ->
       { ar_profile = ni p; ar_compat = ni c; ar_level = ni l; ar_sps = strs_of sps; ar_pps = strs_of pps;
         ar_chroma = ni cf; ar_bdl = ni bl; ar_bdc = ni bc; ar_nspsext = ni ne; ar_notrail = (nt = "1") }
     | _ -> failwith ("bad avc record " ^ s))
  | _ -> failwith ("bad avc record " ^ s)

let avc_decode_obs (data : BinNums.coq_N list) : string =
  match avcrec_decode data with Base.Ok r -> avcrec_string r | _ -> "ERR"

let arrays_string (l : (BinNums.coq_N * BinNums.coq_N list list) list) : string =
  match l with [] -> "_" | _ -> S.concat "&" (L.map (fun (ct, nalus) -> si ct ^ "=" ^ of_strs nalus) l)

(* visible: true = as the Go accessors show an array header (Complete()<<7 | NaluType(): bit 6 dropped) *)
let hvcrec_string (visible : bool) (r : hvcrec) : string =
  let arrs = if visible then L.map (fun (ct, n) -> let c = int_of_n ct in (n_of_int ((c land 0x80) lor (c land 0x3f)), n)) r.hr_arrays
    else r.hr_arrays in
  Printf.sprintf "%s/%s"
    (S.concat "." [si r.hr_version; si r.hr_space; b01 r.hr_tier; si r.hr_pidc; si r.hr_compat; si r.hr_constraint; si r.hr_level;
                   si r.hr_minspat; si r.hr_par; si r.hr_chroma; si r.hr_bdl; si r.hr_bdc; si r.hr_avgfr; si r.hr_cfr; si r.hr_ntl;
                   si r.hr_tin; si r.hr_lsm1])
    (arrays_string arrs)

let parse_hvcrec (s : string) : hvcrec =
  match split_on '/' s with
  | [f; arrs] ->
    let arrays = if arrs = "_" then [] else
        L.map (fun a -> match split_on '=' a with [ct; n] -> (ni ct, strs_of n) | _ -> failwith ("bad array " ^ a)) (split_on '&' arrs) in
    (match split_on '.' f with
     | [v; sp; t; pi; co; cs; lv; ms; pa; ch; bl; bc; av; cf; nt; ti; ls] ->
       { hr_version = ni v; hr_space = ni sp; hr_tier = (t = "1"); hr_pidc = ni pi; hr_compat = ni co; hr_constraint = ni cs;
         hr_level = ni lv; hr_minspat = ni ms; hr_par = ni pa; hr_chroma = ni ch; hr_bdl = ni bl; hr_bdc = ni bc; hr_avgfr = ni av;
         hr_cfr = ni cf; hr_ntl = ni nt; hr_tin = ni ti; hr_lsm1 = ni ls; hr_arrays = arrays }
     | _ -> failwith ("bad hevc record " ^ s))
  | _ -> failwith ("bad hevc record " ^ s)

let hevc_decode_obs (data : BinNums.coq_N list) : string =
  match hvcrec_decode data with
  | Base.Ok r -> hvcrec_string true r ^ "|" ^ hex_of_str (hvcrec_encode r)
  | _ -> "ERR"


(* ------------------------------------------------------------------ generated parameter sets (GEN)
   The SERIALISERS are the extracted specification functions of C15 (coq/c15/C15Spec.v nalu_sps / nalu_pps,
   coq/c15/C15HevcSpec.v hnalu_sps / hnalu_pps, through the frozen copies coq/c19/C19Gen*.v: syntax tables of 14496-10 7.3.2 / 23008-2 7.3.2 written from field
   values, independent of the parsers), their validity predicates (sps_valid ...) select the field values.
   The random choice of field values below is the generator of ocaml/c15_driver.ml (copied: a driver is a single
   file), with the scope of C19's quantifier: picture sizes below 2^16 (the sample entry's 16-bit fields), HEVC bit
   depths 8..14 (the hvcC field has 3 bits), general_profile_idc mostly 1..11.  The expected values printed with
   each set come from the FIELD VALUES (C15Spec.display_width ... / C15HevcSpec.expected_himage_size, constraint48),
   not from any parser. *)
module G = struct
  open BinNums
  open C19GenAvcModel
  open C19GenAvcSpec
  open C19GenHevcModel
  open C19GenHevcSpec
  let st = ref 0L
  let seed_rng (s : int) = st := Int64.add (Int64.mul (Int64.of_int s) 0x9E3779B97F4A7C15L) 0x1234567L
  let u64 () : int64 =
    st := Int64.add !st 0x9E3779B97F4A7C15L;
    let z = !st in
    let z = Int64.mul (Int64.logxor z (Int64.shift_right_logical z 30)) 0xBF58476D1CE4E5B9L in
    let z = Int64.mul (Int64.logxor z (Int64.shift_right_logical z 27)) 0x94D049BB133111EBL in
    Int64.logxor z (Int64.shift_right_logical z 31)
  let intn (n : int) : int = if n <= 0 then 0 else Int64.to_int (Int64.unsigned_rem (u64 ()) (Int64.of_int n))
  let range lo hi = lo + intn (hi - lo + 1)
  let coin () = intn 2 = 1
  let pct p = intn 100 < p
  let pick (l : int list) = L.nth l (intn (L.length l))
  let n = n_of_int
  let z = z_of_int
  (* ue-coded values: mostly small, sometimes at the powers of two, sometimes large *)
  let ue_val (maxv : int) : int =
    let v = match intn 10 with
      | 0 -> 0
      | 1 | 2 -> (1 lsl (intn 20)) - 1 + intn 3
      | 3 -> maxv - intn 2
      | _ -> intn 40 in
    if v < 0 then 0 else if v > maxv then maxv else v
  let se_val (m : int) : int =
    match intn 8 with
    | 0 -> 0
    | 1 -> m - intn 2
    | 2 -> - (m - intn 2)
    | _ -> range (-20) 20

  let gen_scaling (size : int) : coq_Z list =
    let last = ref 8 and next = ref 8 and ds = ref [] in
    for _j = 0 to size - 1 do
      if !next <> 0 then begin
        let d =
          if pct 6 then (let d0 = - !last in if d0 < -128 then d0 + 256 else d0)   (* makes nextScale 0 *)
          else range (-128) 127 in
        let d = if d > 127 then d - 256 else d in
        ds := d :: !ds;
        next := ((!last + d + 256) mod 256 + 256) mod 256
      end;
      let x = if !next = 0 then !last else !next in
      last := x
    done;
    L.rev_map z !ds

  let gen_hrd () : hrd_syntax =
    let cnt = if pct 10 then 31 else intn 4 in
    { cpb_cnt_minus1 = n cnt; bit_rate_scale = n (intn 16); cpb_size_scale = n (intn 16);
      cpb_list = L.init (cnt + 1) (fun _ -> ((n (ue_val 0xfffffffe), n (ue_val 0xfffffffe)), coin ()));
      initial_cpb_removal_delay_length_minus1 = n (intn 32);
      cpb_removal_delay_length_minus1 = n (intn 32);
      dpb_output_delay_length_minus1 = n (intn 32); time_offset_length = n (intn 32) }

  let gen_vui () : vui_syntax =
    { aspect_ratio_info_present_flag = pct 70;
      aspect_ratio_idc = n (match intn 10 with 0 -> 255 | 1 | 2 -> 255 | 3 -> 0 | _ -> range 1 16);
      sar_width = n (if coin () then intn 65536 else range 1 200);
      sar_height = n (if coin () then intn 65536 else range 1 200);
      overscan_info_present_flag = coin (); overscan_appropriate_flag = coin ();
      video_signal_type_present_flag = coin (); video_format = n (intn 8);
      video_full_range_flag = coin (); colour_description_present_flag = coin ();
      colour_primaries = n (intn 256); transfer_characteristics = n (intn 256);
      matrix_coefficients = n (intn 256);
      chroma_loc_info_present_flag = coin ();
      chroma_sample_loc_type_top_field = n (intn 6); chroma_sample_loc_type_bottom_field = n (intn 6);
      timing_info_present_flag = pct 70;
      num_units_in_tick = n (if coin () then 1 + intn 5000 else 0xffffffff - intn 3);
      time_scale = n (if coin () then 1 + intn 200000 else 0xffffffff - intn 3);
      fixed_frame_rate_flag = coin ();
      nal_hrd_parameters_present_flag = pct 40; nal_hrd = gen_hrd ();
      vcl_hrd_parameters_present_flag = pct 40; vcl_hrd = gen_hrd ();
      low_delay_hrd_flag = coin (); pic_struct_present_flag = coin ();
      bitstream_restriction_flag = coin (); motion_vectors_over_pic_boundaries_flag = coin ();
      max_bytes_per_pic_denom = n (intn 17); max_bits_per_mb_denom = n (intn 17);
      log2_max_mv_length_horizontal = n (intn 17); log2_max_mv_length_vertical = n (intn 17);
      max_num_reorder_frames = n (intn 17); max_dec_frame_buffering = n (intn 17) }

  let high_profiles = [100; 110; 122; 244; 44; 83; 86; 118; 128; 138; 139; 134; 135]

  let gen_sps () : sps_syntax =
    let profile = match intn 10 with
      | 0 | 1 | 2 -> pick [66; 77; 88]
      | 3 -> intn 256
      | _ -> pick high_profiles in
    let chroma = if pct 40 then 1 else intn 4 in
    let nlists = if chroma = 3 then 12 else 8 in
    let fmo = pct 60 in
    let wm = if pct 10 then intn 4095 else range 0 300 in
    let hm = if pct 10 then intn 2047 else range 0 200 in
    let is_high = L.mem profile high_profiles in
    let sep = coin () in
    let eff_chroma = if is_high then chroma else 1 in
    let cat = if is_high && chroma = 3 && sep then 0 else eff_chroma in
    let f = if fmo then 1 else 0 in
    let cux = if cat = 0 then 1 else if eff_chroma = 3 then 1 else 2 in
    let cuy = if cat = 0 then 2 - f else (if eff_chroma = 1 then 2 else 1) * (2 - f) in
    let wpx = (wm + 1) * 16 and hpx = (2 - f) * (hm + 1) * 16 in
    (* crop offsets: cux*(l+r) < wpx, cuy*(t+b) < hpx *)
    let maxw = (wpx - 1) / cux and maxh = (hpx - 1) / cuy in
    let split m = let tot = if pct 30 then m else intn (min m 40 + 1) in let a = intn (tot + 1) in (a, tot - a) in
    let (cl, cr) = split maxw and (ct, cb) = split maxh in
    let poc = intn 3 in
    let offs_zero = pct 70 in
    let ncyc = if pct 5 then 255 else intn 5 in
    { sps_nal_ref_idc = n (range 0 3);
      profile_idc = n profile;
      constraint_set0_flag = coin (); constraint_set1_flag = coin (); constraint_set2_flag = coin ();
      constraint_set3_flag = coin (); constraint_set4_flag = coin (); constraint_set5_flag = coin ();
      level_idc = n (if coin () then pick [9; 10; 11; 12; 13; 20; 21; 22; 30; 31; 32; 40; 41; 42; 50; 51; 52; 60; 61; 62] else intn 256);
      seq_parameter_set_id = n (if coin () then 0 else intn 32);
      chroma_format_idc = n chroma; separate_colour_plane_flag = sep;
      bit_depth_luma_minus8 = n (if coin () then 0 else intn 7);
      bit_depth_chroma_minus8 = n (if coin () then 0 else intn 7);
      qpprime_y_zero_transform_bypass_flag = coin ();
      seq_scaling_matrix_present_flag = pct 35;
      seq_scaling_lists = L.init nlists (fun i -> if coin () then None else Some (gen_scaling (if i < 6 then 16 else 64)));
      log2_max_frame_num_minus4 = n (intn 13);
      pic_order_cnt_type = n poc;
      log2_max_pic_order_cnt_lsb_minus4 = n (intn 13);
      delta_pic_order_always_zero_flag = coin ();
      offset_for_non_ref_pic = z (if offs_zero then 0 else se_val 2147483647);
      offset_for_top_to_bottom_field = z (if offs_zero then 0 else se_val 2147483647);
      offset_for_ref_frame = L.init ncyc (fun _ -> z (if offs_zero then 0 else se_val 2147483647));
      max_num_ref_frames = n (intn 17);
      gaps_in_frame_num_value_allowed_flag = coin ();
      pic_width_in_mbs_minus1 = n wm; pic_height_in_map_units_minus1 = n hm;
      frame_mbs_only_flag = fmo; mb_adaptive_frame_field_flag = coin ();
      direct_8x8_inference_flag = coin ();
      frame_cropping_flag = pct 60;
      frame_crop_left_offset = n cl; frame_crop_right_offset = n cr;
      frame_crop_top_offset = n ct; frame_crop_bottom_offset = n cb;
      vui_parameters_present_flag = pct 50;
      vui_params = gen_vui () }

  let rejected = ref 0
  let gen_pps (chroma : int) : pps_syntax =
    let nsg = if pct 60 then 0 else range 1 7 in
    let mt = intn 7 in
    let t8 = coin () in
    let nlists = 6 + (if t8 then (if chroma = 3 then 6 else 2) else 0) in
    let nids = if pct 10 then range 100 400 else range 1 12 in
    { pps_nal_ref_idc = n (range 0 3);
      pic_parameter_set_id = n (if coin () then intn 4 else intn 256);
      pps_seq_parameter_set_id = n (if coin () then intn 4 else intn 32);
      entropy_coding_mode_flag = coin (); bottom_field_pic_order_in_frame_present_flag = coin ();
      num_slice_groups_minus1 = n nsg; slice_group_map_type = n mt;
      run_length_minus1 = L.init (nsg + 1) (fun _ -> n (ue_val 0xfffffffe));
      top_left_bottom_right = L.init nsg (fun _ -> (n (ue_val 100000), n (ue_val 100000)));
      slice_group_change_direction_flag = coin (); slice_group_change_rate_minus1 = n (ue_val 100000);
      slice_group_id = L.init nids (fun _ -> n (intn (nsg + 1)));
      num_ref_idx_l0_default_active_minus1 = n (intn 32); num_ref_idx_l1_default_active_minus1 = n (intn 32);
      weighted_pred_flag = coin (); weighted_bipred_idc = n (intn 3);
      pic_init_qp_minus26 = z (range (-26) 25); pic_init_qs_minus26 = z (range (-26) 25);
      chroma_qp_index_offset = z (range (-12) 12);
      deblocking_filter_control_present_flag = coin (); constrained_intra_pred_flag = coin ();
      redundant_pic_cnt_present_flag = coin ();
      pps_has_tail = pct 70;
      transform_8x8_mode_flag = t8; pic_scaling_matrix_present_flag = pct 50;
      pic_scaling_lists = L.init nlists (fun i -> if coin () then None else Some (gen_scaling (if i < 6 then 16 else 64)));
      second_chroma_qp_index_offset = z (range (-12) 12) }
  let rec gen_valid_sps id =
    let v = { (gen_sps ()) with seq_parameter_set_id = n id } in
    if sps_valid v then v else (incr rejected; gen_valid_sps id)
  let rec gen_valid_pps chroma id spsid =
    let v = { (gen_pps chroma) with pic_parameter_set_id = n id; pps_seq_parameter_set_id = n spsid } in
    if pps_valid (n chroma) v then v else (incr rejected; gen_valid_pps chroma id spsid)
  let eff_chroma (sp : sps_syntax) = int_of_n (eff_chroma_format_idc sp)
  let nb = n
  let gen_hprofile () : hprofile_syntax =
    { sx_profile_space = nb (if pct 70 then 0 else intn 4); sx_tier_flag = coin ();
      sx_profile_idc = nb (if pct 90 then range 1 11 else intn 32);
      sx_profile_compatibility_flags = nb (match intn 4 with 0 -> 0x60000000 | 1 -> 0x40000000 | 2 -> 0xffffffff - intn 3 | _ -> intn 0x7fffffff);
      sx_progressive_source_flag = coin (); sx_interlaced_source_flag = coin ();
      sx_non_packed_constraint_flag = coin (); sx_frame_only_constraint_flag = coin ();
      sx_constraint_43bits = (match intn 4 with 0 -> nb 0 | 1 -> nb ((1 lsl 43) - 1 - intn 2) | 2 -> nb ((intn 256) lsl (8 * intn 5)) | _ -> nb (intn (1 lsl 30) * 8191 + intn 8191));
      sx_inbld_flag = pct 20 }

  let gen_hptl (ms : int) : hptl_syntax =
    { sx_general = gen_hprofile ();
      sx_general_level_idc = nb (if pct 70 then pick [30; 60; 63; 90; 93; 120; 123; 150; 153; 156; 180; 183; 186] else intn 256);
      sx_sub_layers = L.init ms (fun _ ->
          { sx_sub_profile_present = coin (); sx_sub_level_present = coin ();
            sx_sub_profile = gen_hprofile (); sx_sub_level_idc = nb (intn 256) }) }

  let gen_hsl_entry (size_id : int) : hsl_entry =
    if pct 75 then SlPred (nb (intn 6))
    else
      let cn = min 64 (1 lsl (4 + 2 * size_id)) in
      SlCoefs (z (range (-7) 247), L.init cn (fun _ -> z (if pct 80 then range (-4) 4 else range (-128) 127)))

  let gen_hsl () : hsl_syntax =
    { sx_sl0 = L.init 6 (fun _ -> gen_hsl_entry 0); sx_sl1 = L.init 6 (fun _ -> gen_hsl_entry 1);
      sx_sl2 = L.init 6 (fun _ -> gen_hsl_entry 2); sx_sl3 = L.init 2 (fun _ -> gen_hsl_entry 3) }

  let gen_rps_explicit (small : bool) : hrps_syntax =
    let m = if small then 3 else if pct 10 then 16 else 5 in
    let e () = (nb (if pct 85 then intn 4 else ue_val 32767), coin ()) in
    RpsExplicit (L.init (intn (m + 1)) (fun _ -> e ()), L.init (intn (m + 1)) (fun _ -> e ()))

  (* one st_ref_pic_set for position idx (num = number of sets in the SPS; idx = num: slice header).
     chain_pct: probability of inter prediction *)
  let gen_rps (prev : rps_derived list) (idx : int) (num : int) (chain_pct : int) : hrps_syntax =
    if idx = 0 || not (pct chain_pct) then gen_rps_explicit (pct 60)
    else begin
      let res = ref None in
      let tries = ref 0 in
      while !res = None && !tries < 12 do
        incr tries;
        let di = if idx = num then (if pct 50 then 0 else intn idx) else 0 in
        let refd = L.nth prev (idx - (di + 1)) in
        let nd = int_of_n (d_num_delta refd) in
        let fls = L.init (nd + 1) (fun _ -> let u = pct 60 in (u, (if u then true else pct 60))) in
        let r = RpsInter (nb di, coin (), nb (if pct 80 then intn 4 else ue_val 32767), fls) in
        if hrps_valid prev (nb idx) (nb num) r then res := Some r
      done;
      match !res with Some r -> r | None -> gen_rps_explicit true
    end

  let gen_rps_list (num : int) (chain_pct : int) : hrps_syntax list * rps_derived list =
    let prev = ref [] and out = ref [] in
    for idx = 0 to num - 1 do
      let r = gen_rps !prev idx num chain_pct in
      out := !out @ [r];
      prev := !prev @ [derive_one !prev (nb idx) r]
    done;
    (!out, !prev)

  let gen_hcpb () : hcpb_syntax =
    { sx_bit_rate_value_minus1 = nb (ue_val 0xfffffffe); sx_cpb_size_value_minus1 = nb (ue_val 0xfffffffe);
      sx_cpb_size_du_value_minus1 = nb (ue_val 0xfffffffe); sx_bit_rate_du_value_minus1 = nb (ue_val 0xfffffffe);
      sx_cbr_flag = coin () }

  let gen_hhrd (ms : int) : hhrd_syntax =
    let nal = pct 60 and vcl = pct 40 in
    { sx_nal_hrd_parameters_present_flag = nal; sx_vcl_hrd_parameters_present_flag = vcl;
      sx_sub_pic_hrd_params_present_flag = pct 40; sx_tick_divisor_minus2 = nb (intn 256);
      sx_du_cpb_removal_delay_increment_length_minus1 = nb (intn 32);
      sx_sub_pic_cpb_params_in_pic_timing_sei_flag = coin ();
      sx_dpb_output_delay_du_length_minus1 = nb (intn 32); sx_bit_rate_scale = nb (intn 16);
      sx_cpb_size_scale = nb (intn 16); sx_cpb_size_du_scale = nb (intn 16);
      sx_initial_cpb_removal_delay_length_minus1 = nb (intn 32);
      sx_au_cpb_removal_delay_length_minus1 = nb (intn 32); sx_dpb_output_delay_length_minus1 = nb (intn 32);
      sx_hrd_sub_layers = L.init (ms + 1) (fun _ ->
          let fg = coin () and fc = coin () and ld = coin () in
          let cnt = if pct 10 then 31 else intn 3 in
          let eff = if (not (fg || fc)) && ld then 0 else cnt in
          { sx_fixed_pic_rate_general_flag = fg; sx_fixed_pic_rate_within_cvs_flag = fc;
            sx_elemental_duration_in_tc_minus1 = nb (if coin () then intn 4 else intn 2048);
            sx_low_delay_hrd_flag = ld; sx_cpb_cnt_minus1 = nb cnt;
            sx_nal_cpbs = L.init (eff + 1) (fun _ -> gen_hcpb ());
            sx_vcl_cpbs = L.init (eff + 1) (fun _ -> gen_hcpb ()) }) }

  let gen_hvui (ms : int) : hvui_syntax =
    { sx_aspect_ratio_info_present_flag = pct 60;
      sx_aspect_ratio_idc = nb (match intn 10 with 0 | 1 | 2 -> 255 | 3 -> 0 | _ -> range 1 16);
      sx_sar_width = nb (if coin () then intn 65536 else range 1 200);
      sx_sar_height = nb (if coin () then intn 65536 else range 1 200);
      sx_overscan_info_present_flag = coin (); sx_overscan_appropriate_flag = coin ();
      sx_video_signal_type_present_flag = coin (); sx_video_format = nb (intn 8);
      sx_video_full_range_flag = coin (); sx_colour_description_present_flag = coin ();
      sx_colour_primaries = nb (intn 256); sx_transfer_characteristics = nb (intn 256);
      sx_matrix_coeffs = nb (intn 256);
      sx_chroma_loc_info_present_flag = coin ();
      sx_chroma_sample_loc_type_top_field = nb (intn 6); sx_chroma_sample_loc_type_bottom_field = nb (intn 6);
      sx_neutral_chroma_indication_flag = coin (); sx_field_seq_flag = coin ();
      sx_frame_field_info_present_flag = coin ();
      sx_default_display_window_flag = pct 40;
      sx_def_disp_win_left_offset = nb (ue_val 5000); sx_def_disp_win_right_offset = nb (ue_val 5000);
      sx_def_disp_win_top_offset = nb (ue_val 5000); sx_def_disp_win_bottom_offset = nb (ue_val 5000);
      sx_vui_timing_info_present_flag = pct 70;
      sx_vui_num_units_in_tick = nb (if coin () then 1 + intn 5000 else 0xffffffff - intn 3);
      sx_vui_time_scale = nb (if coin () then 1 + intn 200000 else 0xffffffff - intn 3);
      sx_vui_poc_proportional_to_timing_flag = coin ();
      sx_vui_num_ticks_poc_diff_one_minus1 = nb (ue_val 0xfffffffe);
      sx_vui_hrd_parameters_present_flag = pct 50; sx_vui_hrd = gen_hhrd ms;
      sx_bitstream_restriction_flag = coin (); sx_tiles_fixed_structure_flag = coin ();
      sx_motion_vectors_over_pic_boundaries_flag = coin (); sx_restricted_ref_pic_lists_flag = coin ();
      sx_min_spatial_segmentation_idc = nb (if coin () then 0 else intn 4096);
      sx_max_bytes_per_pic_denom = nb (intn 17); sx_max_bits_per_min_cu_denom = nb (intn 17);
      sx_log2_max_mv_length_horizontal = nb (intn 16); sx_log2_max_mv_length_vertical = nb (intn 16) }

  (* picture dimensions: on and off the CTB grid, CTB counts on both sides of the powers of two *)
  let gen_dims () : int * int =
    match intn 10 with
    | 0 -> (960, 540) | 1 -> (176, 144) | 2 -> (1920, 1080) | 3 -> (416, 240) | 4 -> (3840, 2160)
    | 5 -> (8 * range 1 64, 8 * range 1 64)
    | 6 -> (64 * range 1 20, 64 * range 1 12)
    | 7 -> (64 * range 1 20 + 8 * range 1 7, 64 * range 1 12 + 8 * range 1 7)
    | 8 -> (range 1 65535, range 1 65535)
    | _ -> (8 * range 1 300, 8 * range 1 200)

  (* sps_forced: (id, force_lists) *)
  let gen_hsps_with (sps_id : int) : hsps_syntax =
    let ms = if pct 60 then 0 else intn 7 in
    let chroma = if pct 50 then 1 else intn 4 in
    let (w, h) = gen_dims () in
    let sw = if chroma = 1 || chroma = 2 then 2 else 1 and shh = if chroma = 1 then 2 else 1 in
    let maxw = (w - 1) / sw and maxh = (h - 1) / shh in
    let split m = let tot = if pct 20 then m else intn (min m 40 + 1) in let a = intn (tot + 1) in (a, tot - a) in
    let (cl, cr) = split maxw and (ct, cb) = split maxh in
    let bdl = if pct 50 then 0 else intn 7 and bdc = if pct 50 then 0 else intn 7 in
    let l2poc = if pct 30 then 4 else intn 13 in
    let slop = coin () in
    let mincb = intn 4 in
    let ctbsum = max 1 (range mincb 3) in
    let nsets = match intn 20 with 0 | 1 -> 0 | 2 | 3 -> 1 | 4 -> 64 | 5 | 6 | 7 | 8 -> range 2 5 | _ -> range 2 14 in
    let chain = pick [0; 30; 60; 85] in
    let (sets, _) = gen_rps_list nsets chain in
    let nlt = if pct 30 then 0 else if pct 20 then 1 else if pct 10 then 32 else range 2 9 in
    let ncomp = if chroma = 0 then 1 else 3 in
    let npal = if pct 4 then range 60 200 else range 1 6 in
    { sx_sps_nuh_layer_id = nb (if pct 80 then 0 else intn 64); sx_sps_nuh_temporal_id_plus1 = nb (range 1 7);
      sx_sps_video_parameter_set_id = nb (intn 16); sx_sps_max_sub_layers_minus1 = nb ms;
      sx_sps_temporal_id_nesting_flag = coin (); sx_sps_ptl = gen_hptl ms;
      sx_sps_seq_parameter_set_id = nb sps_id; sx_chroma_format_idc = nb chroma;
      sx_separate_colour_plane_flag = coin ();
      sx_pic_width_in_luma_samples = nb w; sx_pic_height_in_luma_samples = nb h;
      sx_conformance_window_flag = pct 50;
      sx_conf_win_left_offset = nb cl; sx_conf_win_right_offset = nb cr;
      sx_conf_win_top_offset = nb ct; sx_conf_win_bottom_offset = nb cb;
      sx_bit_depth_luma_minus8 = nb bdl; sx_bit_depth_chroma_minus8 = nb bdc;
      sx_log2_max_pic_order_cnt_lsb_minus4 = nb l2poc;
      sx_sps_sub_layer_ordering_info_present_flag = slop;
      sx_sub_layer_ordering = L.init (if slop then ms + 1 else 1) (fun _ -> ((nb (intn 16), nb (intn 16)), nb (if pct 80 then intn 8 else intn 256)));
      sx_log2_min_luma_coding_block_size_minus3 = nb (min mincb ctbsum);
      sx_log2_diff_max_min_luma_coding_block_size = nb (ctbsum - min mincb ctbsum);
      sx_log2_min_luma_transform_block_size_minus2 = nb (intn 4);
      sx_log2_diff_max_min_luma_transform_block_size = nb (intn 4);
      sx_max_transform_hierarchy_depth_inter = nb (intn 5); sx_max_transform_hierarchy_depth_intra = nb (intn 5);
      sx_scaling_list_enabled_flag = pct 30; sx_sps_scaling_list_data_present_flag = pct 40;
      sx_sps_scaling_list = gen_hsl ();
      sx_amp_enabled_flag = coin (); sx_sample_adaptive_offset_enabled_flag = coin ();
      sx_pcm_enabled_flag = pct 30; sx_pcm_sample_bit_depth_luma_minus1 = nb (intn 16);
      sx_pcm_sample_bit_depth_chroma_minus1 = nb (intn 16);
      sx_log2_min_pcm_luma_coding_block_size_minus3 = nb (intn 3);
      sx_log2_diff_max_min_pcm_luma_coding_block_size = nb (intn 3);
      sx_pcm_loop_filter_disabled_flag = coin ();
      sx_st_ref_pic_sets = sets;
      sx_long_term_ref_pics_present_flag = pct 50;
      sx_lt_ref_pics_sps = L.init nlt (fun _ -> (nb (intn (1 lsl (l2poc + 4))), coin ()));
      sx_sps_temporal_mvp_enabled_flag = coin (); sx_strong_intra_smoothing_enabled_flag = coin ();
      sx_vui_parameters_present_flag = pct 40; sx_vui = gen_hvui ms;
      sx_sps_extension_present_flag = pct 35;
      sx_sps_range_extension_flag = pct 50; sx_sps_multilayer_extension_flag = pct 25;
      sx_sps_3d_extension_flag = pct 25; sx_sps_scc_extension_flag = pct 50;
      sx_sps_extension_4bits = nb (if pct 70 then 0 else intn 16);
      sx_sps_range_extension = L.init 9 (fun _ -> coin ());
      sx_inter_view_mv_vert_constraint_flag = coin ();
      sx_sps_3d_extension =
        { d3_iv_di_mc0 = coin (); d3_iv_mv_scal0 = coin (); d3_log2_ivmc = nb (intn 4); d3_iv_res_pred = coin ();
          d3_depth_ref = coin (); d3_vsp_mc = coin (); d3_dbbp = coin (); d3_iv_di_mc1 = coin ();
          d3_iv_mv_scal1 = coin (); d3_tex_mc = coin (); d3_log2_texmc = nb (intn 4); d3_intra_contour = coin ();
          d3_intra_dc_only_wedge = coin (); d3_cqt_cu_part_pred = coin (); d3_inter_dc_only = coin ();
          d3_skip_intra = coin () };
      sx_sps_scc_extension =
        { sx_sps_curr_pic_ref_enabled_flag = coin (); sx_palette_mode_enabled_flag = pct 60;
          sx_palette_max_size = nb (intn 64); sx_delta_palette_max_predictor_size = nb (intn 64);
          sx_sps_palette_predictor_initializers_present_flag = pct 60;
          sx_sps_palette_predictor_initializer =
            L.init ncomp (fun c -> L.init npal (fun _ -> nb (intn (1 lsl ((if c = 0 then bdl else bdc) + 8)))));
          sx_motion_vector_resolution_control_idc = nb (intn 4);
          sx_intra_boundary_filtering_disabled_flag = coin () };
      sx_sps_extension_data_flags = L.init (if pct 50 then intn 12 else 0) (fun _ -> coin ()) }

  let rec gen_valid_hsps id =
    let v = gen_hsps_with id in
    if hsps_valid v then v else (incr rejected; gen_valid_hsps id)
  let gen_hpps_with (pps_id : int) (sps_id : int) : hpps_syntax =
    let un = coin () in
    let ncols = if pct 70 then intn 4 else intn 20 and nrows = if pct 70 then intn 4 else intn 20 in
    let mono = coin () in
    let lb = intn 9 and cb = intn 9 in
    let npal = if pct 30 then 0 else if pct 5 then range 60 200 else range 1 6 in
    { sx_pps_nuh_layer_id = nb (if pct 80 then 0 else intn 64); sx_pps_nuh_temporal_id_plus1 = nb (range 1 7);
      sx_pps_pic_parameter_set_id = nb pps_id; sx_pps_seq_parameter_set_id = nb sps_id;
      sx_dependent_slice_segments_enabled_flag = pct 60; sx_output_flag_present_flag = coin ();
      sx_num_extra_slice_header_bits = nb (if pct 60 then 0 else intn 8);
      sx_sign_data_hiding_enabled_flag = coin (); sx_cabac_init_present_flag = coin ();
      sx_num_ref_idx_l0_default_active_minus1 = nb (if pct 70 then intn 4 else intn 15);
      sx_num_ref_idx_l1_default_active_minus1 = nb (if pct 70 then intn 4 else intn 15);
      sx_init_qp_minus26 = z (range (-26) 25); sx_constrained_intra_pred_flag = coin ();
      sx_transform_skip_enabled_flag = coin (); sx_cu_qp_delta_enabled_flag = coin ();
      sx_diff_cu_qp_delta_depth = nb (intn 4);
      sx_pps_cb_qp_offset = z (range (-12) 12); sx_pps_cr_qp_offset = z (range (-12) 12);
      sx_pps_slice_chroma_qp_offsets_present_flag = coin ();
      sx_weighted_pred_flag = coin (); sx_weighted_bipred_flag = coin ();
      sx_transquant_bypass_enabled_flag = coin ();
      sx_tiles_enabled_flag = pct 40; sx_entropy_coding_sync_enabled_flag = pct 30;
      sx_num_tile_columns_minus1 = nb ncols; sx_num_tile_rows_minus1 = nb nrows; sx_uniform_spacing_flag = un;
      sx_column_width_minus1 = (if un then [] else L.init ncols (fun _ -> nb (ue_val 300)));
      sx_row_height_minus1 = (if un then [] else L.init nrows (fun _ -> nb (ue_val 300)));
      sx_loop_filter_across_tiles_enabled_flag = coin ();
      sx_pps_loop_filter_across_slices_enabled_flag = pct 60;
      sx_deblocking_filter_control_present_flag = pct 60; sx_deblocking_filter_override_enabled_flag = coin ();
      sx_pps_deblocking_filter_disabled_flag = coin ();
      sx_pps_beta_offset_div2 = z (range (-6) 6); sx_pps_tc_offset_div2 = z (range (-6) 6);
      sx_pps_scaling_list_data_present_flag = pct 8; sx_pps_scaling_list = gen_hsl ();
      sx_lists_modification_present_flag = pct 60; sx_log2_parallel_merge_level_minus2 = nb (intn 5);
      sx_slice_segment_header_extension_present_flag = pct 25;
      sx_pps_extension_present_flag = pct 40; sx_pps_range_extension_flag = pct 60;
      sx_pps_multilayer_extension_flag = false; sx_pps_3d_extension_flag = false;
      sx_pps_scc_extension_flag = pct 60; sx_pps_extension_4bits = nb (if pct 70 then 0 else intn 16);
      sx_pps_range_extension =
        { sx_log2_max_transform_skip_block_size_minus2 = nb (intn 4);
          sx_cross_component_prediction_enabled_flag = coin (); sx_chroma_qp_offset_list_enabled_flag = coin ();
          sx_diff_cu_chroma_qp_offset_depth = nb (intn 4);
          sx_cb_cr_qp_offset_list = L.init (range 1 6) (fun _ -> (z (range (-12) 12), z (range (-12) 12)));
          sx_log2_sao_offset_scale_luma = nb (intn 5); sx_log2_sao_offset_scale_chroma = nb (intn 5) };
      sx_pps_scc_extension =
        { sx_pps_curr_pic_ref_enabled_flag = pct 40; sx_residual_adaptive_colour_transform_enabled_flag = coin ();
          sx_pps_slice_act_qp_offsets_present_flag = coin ();
          sx_pps_act_y_qp_offset_plus5 = z (range (-7) 17); sx_pps_act_cb_qp_offset_plus5 = z (range (-7) 17);
          sx_pps_act_cr_qp_offset_plus3 = z (range (-9) 15);
          sx_pps_palette_predictor_initializers_present_flag = coin ();
          sx_monochrome_palette_flag = mono; sx_luma_bit_depth_entry_minus8 = nb lb;
          sx_chroma_bit_depth_entry_minus8 = nb cb;
          sx_pps_palette_predictor_initializer =
            (if npal = 0 then [] else
               L.init (if mono then 1 else 3) (fun c -> L.init npal (fun _ -> nb (intn (1 lsl ((if c = 0 then lb else cb) + 8)))))) };
      sx_pps_extension_data_flags = L.init (if pct 50 then intn 12 else 0) (fun _ -> coin ()) }

  let rec gen_valid_hpps id sid =
    let v = gen_hpps_with id sid in
    if hpps_valid v then v else (incr rejected; gen_valid_hpps id sid)

  let hexl (l : coq_N list list) = match l with [] -> "_" | _ -> S.concat "," (L.map hex_of_bytes l)
  let ii x = string_of_int (int_of_n x)
  let b2i b = if b then "1" else "0"

  (* seq_parameter_set_extension_rbsp (7.3.2.1.2, NAL unit type 13): sps id, aux_format_idc 0, no additional extension *)
  let sps_ext (id : int) : coq_N list = nalu_of (n 3) (n 13) (ue_bits (n id) @ ue_bits (n 0) @ [false])

  let distinct_ids (k : int) (lim : int) : int list =
    let rec go acc = if L.length acc = k then L.rev acc else
        let i = intn lim in if L.mem i acc then go acc else go (i :: acc) in
    go []

  let gen_avc_set (i : int) =
    let ns = pick [1; 1; 1; 2; 3] in
    let ids = distinct_ids ns 32 in
    let spss = L.map gen_valid_sps ids in
    let s0 = L.hd spss in
    let np = pick [0; 1; 1; 1; 2; 3] in
    let ppss = L.init np (fun j ->
        let k = intn ns in
        gen_valid_pps (eff_chroma (L.nth spss k)) (if coin () then j else 255 - j) (L.nth ids k)) in
    let sps_nalus = L.map nalu_sps spss @ (if pct 15 then [sps_ext (L.hd ids)] else []) in
    Printf.printf "PSA\t%d\t%s\t%s\t%s\n" i (hexl sps_nalus) (hexl (L.map nalu_pps ppss))
      (let hb = has_chroma_block s0.profile_idc in
       S.concat "." [ii (display_width s0); ii (display_height s0); ii s0.profile_idc; ii (compat_byte s0); ii s0.level_idc;
                     ii (eff_chroma_format_idc s0); ii (if hb then s0.bit_depth_luma_minus8 else N0);
                     ii (if hb then s0.bit_depth_chroma_minus8 else N0)]);
    (* GI: what the first SPS exercises (statistics for the evidence; ignored by the harness) *)
    (let vu = s0.vui_params in
     let idc = int_of_n vu.aspect_ratio_idc in
     let nonsq = s0.vui_parameters_present_flag && vu.aspect_ratio_info_present_flag
                 && ((idc = 255 && vu.sar_width <> vu.sar_height) || (idc >= 2 && idc <= 16)) in
     Printf.printf "GI\tA\t%d\tnonsquare_sar=%d\tcropped=%d\tfield_coded=%d\n" i (if nonsq then 1 else 0)
       (if s0.frame_cropping_flag then 1 else 0) (if s0.frame_mbs_only_flag then 0 else 1))

  let gen_hevc_set (i : int) =
    let ns = pick [1; 1; 1; 2] in
    let ids = distinct_ids ns 16 in
    let spss = L.map gen_valid_hsps ids in
    let s0 = L.hd spss in
    let np = pick [0; 1; 1; 1; 2; 3] in
    let ppss = L.init np (fun j -> gen_valid_hpps (if coin () then j else 63 - j) (L.nth ids (intn ns))) in
    let (w, h) = expected_himage_size s0 in
    let g = s0.sx_sps_ptl.sx_general in
    Printf.printf "PSH\t%d\t%s\t%s\t%s\n" i (hexl (L.map hnalu_sps spss)) (hexl (L.map hnalu_pps ppss))
      (S.concat "." [ii w; ii h; ii g.sx_profile_space; b2i g.sx_tier_flag; ii g.sx_profile_idc; ii g.sx_profile_compatibility_flags;
                     ii (constraint48 g); ii s0.sx_sps_ptl.sx_general_level_idc; ii s0.sx_chroma_format_idc;
                     ii s0.sx_bit_depth_luma_minus8; ii s0.sx_bit_depth_chroma_minus8]);
    (let vu = s0.sx_vui in
     let idc = int_of_n vu.sx_aspect_ratio_idc in
     let nonsq = s0.sx_vui_parameters_present_flag && vu.sx_aspect_ratio_info_present_flag
                 && ((idc = 255 && vu.sx_sar_width <> vu.sx_sar_height) || (idc >= 2 && idc <= 16)) in
     Printf.printf "GI\tH\t%d\tnonsquare_sar=%d\tcropped=%d\tfield_coded=%d\n" i (if nonsq then 1 else 0)
       (if s0.sx_conformance_window_flag then 1 else 0) 0)

  let run (seed : int) (cnt : int) =
    seed_rng seed;
    for i = 0 to cnt - 1 do gen_avc_set i done;
    for i = 0 to cnt - 1 do gen_hevc_set i done;
    Printf.printf "GENINFO\trejected=%d\n" !rejected
end

let verdict id m obs = if m = obs then Printf.printf "OK %s\n" id else Printf.printf "MISMATCH %s model=%s\n" id m

let () =
  iter_lines (fun line ->
      match split_on '\t' line with
      | ["S"; id; ops; obs] ->
        Hashtbl.reset avc_tab; Hashtbl.reset hevc_tab;
        let ops = if ops = "-" then [] else L.map parse_op (split_on ';' ops) in
        let (ocs, s) = run avc_parse hevc_parse ops in
        let m = state_string ocs s in
        (* the parsers of theorems C19_descriptor_avc_dims / _hevc_dims (C15's models of avc/hevc.ParseSPSNALUnit) must give,
           on the first SPS of every AVC/HEVC call of the case, the answer the real parser gave (carried by the op) *)
        let first_sps = L.filter_map (function
            | SetDesc (_, DAvc (_, sps0 :: _, _, _)) -> Some (true, sps0)
            | SetDesc (_, DHevc (_, _, sps0 :: _, _, _, _)) -> Some (false, sps0)
            | _ -> None) ops in
        let pm = L.find_opt (fun (is_avc, sps0) ->
            if is_avc then C19DimsProofs.c15_avc_parser sps0 <> avc_parse sps0
            else C19DimsProofs.c15_hevc_parser sps0 <> hevc_parse sps0) first_sps in
        if m <> obs then Printf.printf "MISMATCH %s model=%s\n" id m
        else (match pm with
            | Some (is_avc, sps0) ->
              Printf.printf "MISMATCH %s model=%s-differs-from-the-real-parser-on-%s\n" id
                (if is_avc then "c15_avc_parser" else "c15_hevc_parser") (hex_of_str sps0)
            | None -> Printf.printf "OK %s\n" id)
      | ["M"; id; pat; obs] ->
        (* MoovBox.AddChild of a trak on a moov whose children are given by pat (h mvhd, x mvex, t trak) *)
        let dummy i = { tk_id = n_of_int i; tk_volume = N0; tk_width = N0; tk_height = N0; md_timescale = N0; md_lang = N0;
                        hd_type = []; hd_name = []; el_lang = None; mi_hdr = Nmhd; sd_entries = [] } in
        let nt = ref 0 in
        let ch = L.map (fun c -> match c with
            | 'h' -> MCmvhd | 'x' -> MCmvex
            | _ -> let i = !nt in incr nt; MCtrak (nat_of_int i)) (L.init (S.length pat) (S.get pat)) in
        let s0 = { children = ch; traks = L.init !nt dummy; trexs = []; next_id = N0 } in
        let s1 = moov_add_trak s0 (dummy !nt) in
        let m = S.concat "" (L.map (function MCmvhd -> "h" | MCmvex -> "x"
                                             | MCtrak i -> if int_of_nat i = !nt then "N" else "t") s1.children) in
        if m = obs && L.length s1.traks = !nt + 1 then Printf.printf "OK %s\n" id
        else Printf.printf "MISMATCH %s model=%s\n" id m
      | ["L"; id; lang; obs] ->
        let m = match elng_decode (elng_payload (str_of_hex lang)) with
          | Base.Ok (missing, l) -> (if missing then "1" else "0") ^ "/" ^ hex_of_str l
          | _ -> "ERR" in
        if m = obs then Printf.printf "OK %s\n" id
        else Printf.printf "MISMATCH %s model=%s\n" id m
      | ["P"; id; a; b; c; obs] ->
        let (ns, sc, mi) = (str_of_hex a, str_of_hex b, str_of_hex c) in
        let m = match stpp_decode (stpp_payload (n_of_int 1) ns sc mi) with
          | Base.Ok ((((d, ns'), sc'), mi'), miss) ->
            Printf.sprintf "%s/%s/%s/%s/%d" (si d) (hex_of_str ns') (hex_of_str sc') (hex_of_str mi')
              (16 + L.length ns' + L.length sc' + L.length mi' + 3 - int_of_nat miss)
          | _ -> "ERR" in
        if m = obs then Printf.printf "OK %s\n" id
        else Printf.printf "MISMATCH %s model=%s\n" id m
      | ["Y"; id; "3"; fields; obs] ->
        (* Dac3Box.Encode on the fields vs dac3_payload_x; when the hypotheses of C19_dac3_roundtrip hold (fields fit
           their bits, Reserved 0, InitialZeroes 0) the theorem's conclusion is evaluated too *)
        (match dots fields with
         | [a; b; c; d; e; f; r; z] ->
           let dd = Coq_mkDac3 (ni a, ni b, ni c, ni d, ni e, ni f) in
           let p = dac3_payload_x dd (ni r) (ni z) in
           let hyp = dac3_okb dd && int_of_n (ni r) = 0 && int_of_n (ni z) = 0 in
           if hex_of_str p <> obs then Printf.printf "MISMATCH %s model=%s\n" id (hex_of_str p)
           else if hyp && ac3_dac3_obs p <> fields then Printf.printf "MISMATCH %s model=decodes-to-%s\n" id (ac3_dac3_obs p)
           else Printf.printf "OK %s %s\n" id (if hyp then "ac3hyp" else "ac3nohyp")
         | _ -> Printf.printf "BADLINE %s\n" line)
      | ["Y"; id; "e"; fields; obs] ->
        (match split_on ':' fields with
         | [dr; subs; rsv] ->
           let dd = Coq_mkDec3 (ni dr, (if subs = "_" then [] else L.map parse_sub (split_on '|' subs))) in
           let hyp = dec3_okb dd && rsv = "-" in
           (match dec3_payload_x dd (str_of_hex rsv) with
            | None -> Printf.printf "MISMATCH %s model=no-substream\n" id
            | Some p ->
              let want = dr ^ "/" ^ subs ^ "/" ^ rsv in
              if hex_of_str p <> obs then Printf.printf "MISMATCH %s model=%s\n" id (hex_of_str p)
              else if hyp && ac3_dec3_obs p <> want then Printf.printf "MISMATCH %s model=decodes-to-%s\n" id (ac3_dec3_obs p)
              else Printf.printf "OK %s %s\n" id (if hyp then "ac3hyp" else "ac3nohyp"))
         | _ -> Printf.printf "BADLINE %s\n" line)
      | ["D"; id; "3"; payload; obs] -> verdict id (ac3_dac3_obs (str_of_hex payload)) obs
      | ["D"; id; "e"; payload; obs] -> verdict id (ac3_dec3_obs (str_of_hex payload)) obs
      | ["I"; id; ops; obs] ->
        (* the init segment's bytes: C01's encoder on the tree of the model's final state; then C01's decoder on
           those bytes must return an equal tree, a fragmented init and a trex for every track (roundtrip_ok) *)
        Hashtbl.reset avc_tab; Hashtbl.reset hevc_tab;
        let ops = if ops = "-" then [] else L.map parse_op (split_on ';' ops) in
        let (_, s) = run avc_parse hevc_parse ops in
        (match C19TreeModel.tree_of s with
         | None -> Printf.printf "OK %s notree\n" id
         | Some ts ->
           let m = match C19BoxModel.encode_seq false ts with
             | Base.Ok bs ->
               let sz = L.fold_left (fun a t -> a + int_of_n (C19BoxModel.size_box t)) 0 ts in
               (* MvexBox.GetTrex on the DECODED init, for every track id of the built one (C19FragModel.get_trex) *)
               let tx = if s.traks = [] then "" else
                   match C19BoxModel.decode_file bs with
                   | Base.Ok ts' ->
                     S.concat "," (L.map (fun t ->
                         match C19FragModel.get_trex ts' t.tk_id, C19FragModel.get_trex_dsdi ts' t.tk_id with
                         | Some x, Some d ->
                           Printf.sprintf "%s:%s:%s:%s:%s" (si x.C05Model.tx_track) (si d) (si x.C05Model.tx_ddur)
                             (si x.C05Model.tx_dsize) (si x.C05Model.tx_dflags)
                         | _, _ -> "none") s.traks)
                   | _ -> "DECERR" in
               Printf.sprintf "%d|%s|%s" sz (hex_of_str bs) tx
             | _ -> "ENCERR" in
           if m <> obs then Printf.printf "MISMATCH %s model=%s\n" id (if S.length m > 3000 then S.sub m 0 3000 else m)
           else if not (C19TreeModel.roundtrip_ok s) then Printf.printf "MISMATCH %s model=roundtrip_ok-false\n" id
           else
             (* are the hypotheses of theorem C19_roundtrip satisfied by this case? (statistics for the evidence) *)
             let hyp = C19TreeModel.args_okb s && L.for_all C19BoxModel.enc_fits ts in
             Printf.printf "OK %s %s\n" id (if hyp then "hyp" else "nohyp"))
      | ["GEN"; seed; cnt] -> G.run (int_of_string seed) (int_of_string cnt)
      | ["RA"; id; r; obs] ->
        let r = parse_avcrec r in
        let enc = avcrec_encode r in
        verdict id (Printf.sprintf "%s|%s|%s" (si (avcrec_size r)) (hex_of_str enc) (avc_decode_obs enc)) obs
      | ["DA"; id; data; obs] -> verdict id (avc_decode_obs (str_of_hex data)) obs
      | ["RH"; id; r; obs] ->
        let r = parse_hvcrec r in
        let enc = hvcrec_encode r in
        verdict id (Printf.sprintf "%s|%s|%s" (si (hvcrec_size r)) (hex_of_str enc) (hevc_decode_obs enc)) obs
      | ["DH"; id; data; obs] -> verdict id (hevc_decode_obs (str_of_hex data)) obs
      | _ -> Printf.printf "BADLINE %s\n" line)
