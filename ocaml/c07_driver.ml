(* Driver for the C07 model: reads the harness's case lines, recomputes the observables with the
   extracted model (block cipher = the Gallina AES-128 of C07Aes.v), prints one line per case:
   "OK <id>" or "MISMATCH <id> <what> model=<...>". *)
open Vx
open BinNums
open Base
open C07Model

let e = C07Aes.aes128_encrypt
let d = C07Aes.aes128_decrypt

let ranges_of_string (s : string) : ssp list =
  if s = "-" || s = "" then []
  else L.map (fun p ->
      match split_on '/' p with
      | [c; q] -> { ss_clear = n_of_int (int_of_string c); ss_prot = n_of_int (int_of_string q) }
      | _ -> failwith ("bad range " ^ p)) (split_on ',' s)

let string_of_ranges (l : ssp list) : string =
  match l with
  | [] -> "-"
  | _ -> S.concat "," (L.map (fun p -> Printf.sprintf "%d/%d" (int_of_n p.ss_clear) (int_of_n p.ss_prot)) l)

(* slice-header sizes observed on the Go side, consumed in order, one per video NALU *)
let mk_hdr (s : string) : coq_N list -> coq_N res =
  let r = ref (if s = "-" || s = "" then [] else split_on ',' s) in
  fun _ ->
    match !r with
    | [] -> Err
    | "E" :: t -> r := t; Err
    | x :: t -> r := t; Ok (n_of_int (int_of_string x))

let scheme_of = function "cenc" -> Cenc | "cbcs" -> Cbcs | _ -> SchemeOther
let isvideo_of = function "a" -> avc_is_video | _ -> hevc_is_video

let res_string (f : 'a -> string) (r : 'a res) : string =
  match r with
  | Ok a -> "ok:" ^ f a
  | Err -> "err"
  | Panic -> "panic"
  | OutOfFuel -> "outoffuel"

let hexlist (l : coq_N list list) : string =
  match l with [] -> "-" | _ -> S.concat ";" (L.map hex_of_bytes l)

let samples_of (s : string) : coq_N list list =
  if s = "" then [] else L.map bytes_of_hex (split_on ';' s)

(* parameter-set maps of the C15 models, cached per (sps list, pps list) *)
let nalus_of (s : string) : coq_N list list =
  if s = "-" || s = "" then [] else L.map bytes_of_hex (split_on ',' s)

let avc_cache : (string, (coq_N list -> coq_N res)) Hashtbl.t = Hashtbl.create 7
let avc_hdr (spss : string) (ppss : string) : coq_N list -> coq_N res =
  let k = spss ^ ";" ^ ppss in
  match Hashtbl.find_opt avc_cache k with
  | Some f -> f
  | None ->
    let f = match C07CodecModel.avc_ps_maps (nalus_of spss) (nalus_of ppss) with
      | Ok (sm, pm) -> (fun nalu -> C07CodecModel.avc_hdr sm pm nalu)
      | _ -> (fun _ -> Err) in
    Hashtbl.add avc_cache k f; f

let hevc_cache : (string, (coq_N list -> coq_N res)) Hashtbl.t = Hashtbl.create 7
let hevc_hdr (spss : string) (ppss : string) : coq_N list -> coq_N res =
  let k = spss ^ ";" ^ ppss in
  match Hashtbl.find_opt hevc_cache k with
  | Some f -> f
  | None ->
    let f = match C07CodecModel.hevc_ps_maps (nalus_of spss) (nalus_of ppss) with
      | Ok (sm, pm) -> (fun nalu -> C07CodecModel.hevc_hdr sm pm nalu)
      | _ -> (fun _ -> Err) in
    Hashtbl.add hevc_cache k f; f

let skipped = ref 0

let check id what model obs =
  if model = "outoffuel" then begin incr skipped; Printf.printf "OK %s skipped-outoffuel\n" id end else
  if model = obs then Printf.printf "OK %s\n" id
  else Printf.printf "MISMATCH %s %s model=%s\n" id what
      (if S.length model > 600 then S.sub model 0 600 ^ "..." else model)

(* C07_ranges_cover_any_bytes evaluated on the case: the entries of an ACCEPTED sample add up to its size, every
   clear count fits 16 bits and there is at least one entry (checks/c07.py counts the accepted R/Q/H cases) *)
let covered = ref 0
let cover_ok (sample : coq_N list) (r : ssp list res) : bool =
  match r with
  | Ok l ->
    incr covered;
    l <> [] && L.for_all (fun p -> int_of_n p.ss_clear < 65536) l &&
    L.fold_left (fun a p -> a + int_of_n p.ss_clear + int_of_n p.ss_prot) 0 l = L.length sample
  | _ -> true

let check_ranges id what sample r obs =
  if cover_ok sample r then check id what (res_string string_of_ranges r) obs
  else Printf.printf "MISMATCH %s %s model-entries-do-not-partition-the-sample\n" id what

let fragment_case id sch (protf : coq_N list -> ssp list res) key iv cb sb samples before trafc obs =
  let key = bytes_of_hex key in
  let iv = pad_iv (bytes_of_hex iv) in
  let samples = samples_of samples in
  let encs =
    if sch = "cenc" then encrypt_samples_cenc e protf key iv samples
    else encrypt_samples_cbcs e d protf key iv (n_of_int (int_of_string cb)) (n_of_int (int_of_string sb)) samples in
  let model =
    match encs with
    | Ok l ->
      let data = hexlist (L.map (fun x -> x.e_data) l) in
      let saiz_s = res_string (fun z -> Printf.sprintf "%s/%d/%d" (hex_of_bytes z.sz_info)
                                  (int_of_n z.sz_default) (int_of_n z.sz_count)) (saiz_of saiz_empty l) in
      let (state_s, ivs, sss, senc_s) =
        match senc_of senc_empty l with
        | Ok s ->
          (Printf.sprintf "%d/%d/%d" (int_of_n s.sn_count) (int_of_n s.sn_ivsize) (if s.sn_subs then 1 else 0),
           hexlist s.sn_ivs,
           (match s.sn_ss with [] -> "-" | _ -> S.concat ";" (L.map string_of_ranges s.sn_ss)),
           res_string (fun es ->
               let tot = L.fold_left (fun a x -> a + L.length x) 16 es in
               Printf.sprintf "%d/%s" tot (hex_of_bytes (L.concat es)))
             (senc_entries s Datatypes.O (nat_of_int (int_of_n s.sn_count))))
        | _ -> ("senc-add-failed", "", "", "") in
      let bef = L.map n_of_int (ints_of_csv before) in
      let tc = L.map (fun x -> match split_on ':' x with
          | ["s"; z] -> (true, n_of_int (int_of_string z))
          | [_; z] -> (false, n_of_int (int_of_string z))
          | _ -> failwith "bad traf child") (if trafc = "-" then [] else split_on ',' trafc) in
      let saio = int_of_n (saio_offset bef tc) in
      S.concat "|" ["ok"; state_s; ivs; sss; saiz_s; senc_s; string_of_int saio; data]
    | Err -> "err" | Panic -> "panic" | OutOfFuel -> "outoffuel" in
  check id "fragment" model obs

let () =
  iter_lines (fun line ->
      match split_on '\t' line with
      | ["R"; id; codec; sch; samplehex; hdrs; obs] ->
        let sample = bytes_of_hex samplehex in
        let r = C07WrapModel.protect_ranges_w (isvideo_of codec) (mk_hdr hdrs) (scheme_of sch) sample in
        check_ranges id "ranges" sample r obs
      | ["Q"; id; spss; ppss; sch; samplehex; obs] ->
        (* AVC ranges with the slice-header size computed by the C15 Gallina parsers from the avcC parameter sets *)
        let sample = bytes_of_hex samplehex in
        let r = C07WrapModel.protect_ranges_w avc_is_video (avc_hdr spss ppss) (scheme_of sch) sample in
        check_ranges id "ranges(C15 header size)" sample r obs
      | ["H"; id; spss; ppss; sch; samplehex; obs] ->
        (* HEVC ranges with the slice segment header size computed by the C15 Gallina HEVC parsers from the hvcC parameter sets *)
        let sample = bytes_of_hex samplehex in
        let r = C07WrapModel.protect_ranges_w hevc_is_video (hevc_hdr spss ppss) (scheme_of sch) sample in
        check_ranges id "ranges(C15 HEVC header size)" sample r obs
      | ["A"; id; rng; c; p; obs] ->
        let r = append_protect_range (ranges_of_string rng) (n_of_hex c) (n_of_hex p) in
        check id "append" (res_string string_of_ranges r) obs
      | ["I"; id; ivhex; n; obs] ->
        check id "incrementIVInPlace" (hex_of_bytes (increment_iv_inplace (bytes_of_hex ivhex) (n_of_hex n))) obs
      | ["J"; id; ivhex; rng; slen; obs] ->
        check id "incrementIV"
          (hex_of_bytes (increment_iv (bytes_of_hex ivhex) (ranges_of_string rng) (n_of_int (int_of_string slen)))) obs
      | ["C"; id; key; iv; rng; samplehex; obs] ->
        let r = crypt_sample_cenc e (bytes_of_hex key) (bytes_of_hex iv) (ranges_of_string rng) (bytes_of_hex samplehex) in
        check id "cenc" (res_string hex_of_bytes r) obs
      | ["B"; id; dec; key; iv; rng; cb; sb; samplehex; obs] ->
        let r = crypt_sample_cbcs e d (dec = "1") (bytes_of_hex key) (bytes_of_hex iv) (ranges_of_string rng)
            (n_of_int (int_of_string cb)) (n_of_int (int_of_string sb)) (bytes_of_hex samplehex) in
        check id "cbcs" (res_string hex_of_bytes r) obs
      | ["K"; id; dec; key; iv; nc; ns; datahex; obs] ->
        let r = cbcs_crypt e d (dec = "1") (bytes_of_hex datahex) (bytes_of_hex key) (bytes_of_hex iv)
            (n_of_int (int_of_string nc)) (n_of_int (int_of_string ns)) in
        check id "cbcsCrypt" (res_string hex_of_bytes r) obs
      | ["F"; id; sch; codec; key; iv; cb; sb; samples; hdrs; before; trafc; obs] ->
        (* EncryptFragment: codec a = AVC, h = HEVC, u = audio *)
        let protf =
          if codec = "u" then audio_protect_ranges
          else C07WrapModel.protect_ranges_w (isvideo_of codec) (mk_hdr hdrs) (scheme_of sch) in
        fragment_case id sch protf key iv cb sb samples before trafc obs
      | ["G"; id; sch; codec; spss; ppss; key; iv; cb; sb; samples; before; trafc; obs] ->
        (* EncryptFragment with getAVCProtFunc / getHEVCProtFunc of the model (maps from the avcC / hvcC NAL units,
           slice header sizes from the C15 parsers) *)
        let protf =
          if codec = "a" then
            (match C07WrapModel.avc_prot_func_w (nalus_of spss) (nalus_of ppss) (scheme_of sch) with
             | Ok f -> f | _ -> (fun _ -> Err))
          else C07WrapModel.hevc_prot_func_w (nalus_of spss) (nalus_of ppss) (scheme_of sch) in
        fragment_case id sch protf key iv cb sb samples before trafc obs
      | ["T"; id; sch; codec; spss; ppss; key; iv; cb; sb; before; traf; after; samples; obs] ->
        (* EncryptFragment over the bytes of the fragment *)
        let protf =
          if codec = "u" then audio_protect_ranges
          else if codec = "a" then
            (match C07WrapModel.avc_prot_func_w (nalus_of spss) (nalus_of ppss) (scheme_of sch) with
             | Ok f -> f | _ -> (fun _ -> Err))
          else C07WrapModel.hevc_prot_func_w (nalus_of spss) (nalus_of ppss) (scheme_of sch) in
        let boxes x = if x = "-" then [] else samples_of x in
        let f = { C07TrafModel.bf_before = boxes before; bf_traf = boxes traf; bf_after = boxes after;
                  bf_samples = samples_of samples } in
        let r = C07TrafModel.encrypt_fragment_bytes e d protf (scheme_of sch) (bytes_of_hex key) (bytes_of_hex iv)
            (n_of_int (int_of_string cb)) (n_of_int (int_of_string sb)) f in
        let model = match r with
          | Ok g -> S.concat "|" ["ok"; hexlist g.C07TrafModel.bf_traf; hexlist g.C07TrafModel.bf_samples]
          | Err -> "err" | Panic -> "panic" | OutOfFuel -> "outoffuel" in
        check id "fragment bytes" model obs
      | _ -> Printf.printf "BADLINE %s\n" (if S.length line > 200 then S.sub line 0 200 else line))
