#!/bin/sh
# Builds the whole framework offline from files on disk: full Coq .vo build, extracted OCaml
# model drivers, Go harness binaries (against /repo's working tree, -tags verif).
set -e
cd "$(dirname "$0")"
export GOFLAGS=-mod=mod GOPROXY=off GOSUMDB=off GOTOOLCHAIN=local
./scripts/coqproject.sh
# Best-effort pre-build of every Coq file: a file that does not compile (or runs away: 40 min and 24 GB per file at most)
# must not keep the other properties from being built - each check re-builds and re-checks its own theorems file on
# every run and reports a broken one itself.
( cd coq && ulimit -v 24000000 && timeout 5400 make -k -j"$(nproc)" COQC="timeout 2400 coqc" ) || \
  echo "setup: WARNING: some Coq files did not build; the checks that need them will report it"
python3 - <<'PY'
import sys, os, importlib, glob
sys.path.insert(0, "checks")
import common
bad = common.forbidden_words([common.COQ])
if bad:
    # every check runs the same scan over its own directories on every run and fails its proof obligations on a hit
    print("setup: WARNING: forbidden constructs in the Coq development (the checks of these properties will fail):", bad)
rc = 0
for f in sorted(glob.glob("checks/c[0-9][0-9].py")):
    name = os.path.basename(f)[:-3]
    mod = importlib.import_module(name)
    if hasattr(mod, "build"):
        try:
            mod.build(common.Ctx(name.upper(), "quick", 0))
            print("built", name)
        except Exception as e:
            print("setup: WARNING: build of", name, "failed (its check will report it):", str(e)[-300:])
sys.exit(rc)
PY
