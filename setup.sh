#!/bin/sh
# Builds the whole framework offline from files on disk: full Coq .vo build, extracted OCaml
# model drivers, Go harness binaries (against /repo's working tree, -tags verif).
set -e
cd "$(dirname "$0")"
export GOFLAGS=-mod=mod GOPROXY=off GOSUMDB=off GOTOOLCHAIN=local
./scripts/coqproject.sh
( cd coq && timeout 7200 make -j"$(nproc)" ) 
python3 - <<'PY'
import sys, os, importlib, glob
sys.path.insert(0, "checks")
import common
bad = common.forbidden_words([common.COQ])
if bad:
    print("forbidden constructs in the Coq development:", bad); sys.exit(1)
rc = 0
for f in sorted(glob.glob("checks/c[0-9][0-9].py")):
    name = os.path.basename(f)[:-3]
    mod = importlib.import_module(name)
    if hasattr(mod, "build"):
        try:
            mod.build(common.Ctx(name.upper(), "quick", 0))
            print("built", name)
        except Exception as e:
            print("build of", name, "failed:", e); rc = 1
sys.exit(rc)
PY
